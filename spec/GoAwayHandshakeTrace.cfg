SPECIFICATION TraceSpec
CONSTANTS
  Ids = {1, 3, 5}
  Defects = {}
INVARIANT GoAwayTruth
CONSTRAINT Progress
CHECK_DEADLOCK FALSE
