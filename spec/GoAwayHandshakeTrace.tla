---------------------- MODULE GoAwayHandshakeTrace ----------------------
(* Trace validation, in the classical sense, of spec/GoAwayHandshake.tla:   *)
(* `h2v gahs` forces each interleaving TLC found for the handshake onto the *)
(* real server (blocking hooks: one goroutine moves at a time) and records  *)
(* the step events with the values the code used; here every recorded event *)
(* must be a step of the SPECIFICATION'S OWN actions that also agrees with   *)
(* the recorded value, and the last-stream-id the peer finally read off the *)
(* wire must be the one the specification computed.  A hook event stands    *)
(* for the action(s) executed since the previous event of that goroutine:   *)
(*   ga.flag = G1, ga.read(v) = G2, ga.sent(v) = G3,                        *)
(*   sl.publish(n) = S1 (after a silent Take), sl.accept(n) / sl.refuse(n)  *)
(*   = S3 (after a silent S2, taken only immediately before it).            *)
(* GoAwayTruth is checked as an invariant of the replayed behaviour.        *)
EXTENDS GoAwayHandshake, Json, IOUtils

Traces == ndJsonDeserialize(IOEnv.VERIF_TRACE)

VARIABLES ti, l
tvars == <<vars, ti, l>>

Evs(t) == SelectSeq(Traces[t].evs, LAMBDA e : e.k = "hs")
Wire(t) == SelectSeq(Traces[t].evs, LAMBDA e : e.k = "wire")

TraceInit == Init /\ ti \in 1..Len(Traces) /\ l = 1

Is(name) == /\ l <= Len(Evs(ti)) /\ Evs(ti)[l].ev = name /\ l' = l + 1 /\ ti' = ti
V == Evs(ti)[l].v

NextIs(names) == l <= Len(Evs(ti)) /\ Evs(ti)[l].ev \in names

TFlag    == Is("ga.flag")    /\ G1
TRead    == Is("ga.read")    /\ G2 /\ gaLast' = V
TSent    == Is("ga.sent")    /\ G3 /\ sent' = V
TPublish == Is("sl.publish") /\ S1 /\ lastID' = V
TAccept  == Is("sl.accept")  /\ S3 /\ accepted' = accepted \cup {V} /\ refused' = refused
TRefuse  == Is("sl.refuse")  /\ S3 /\ refused' = refused \cup {V} /\ accepted' = accepted
\* Take and S2 have no hook of their own.  The replay moves one goroutine at a time, so each of them ran
\* immediately before the hooked step it leads to - and that is the only place where the trace may take it.
Silent   == /\ \/ NextIs({"sl.publish"}) /\ Take
               \/ NextIs({"sl.accept", "sl.refuse"}) /\ S2
            /\ UNCHANGED <<ti, l>>

\* the peer's view, after the last event: the GOAWAY it read carries the last-stream-id the specification holds
TWire == /\ l = Len(Evs(ti)) + 1 /\ l' = l + 1 /\ ti' = ti /\ UNCHANGED vars
         /\ \A i \in DOMAIN Wire(ti) : (sent >= 0) = Wire(ti)[i].goaway /\ (sent >= 0 => Wire(ti)[i].last = sent)

TraceNext == TFlag \/ TRead \/ TSent \/ TPublish \/ TAccept \/ TRefuse \/ Silent \/ TWire
TraceSpec == TraceInit /\ [][TraceNext]_tvars

\* reached = the trace was accepted to its end (reported per trace; a trace that stops short is printed by the check)
Done == l = Len(Evs(ti)) + 2
Progress == IF Done THEN PrintT("ACCEPTED " \o ToString(Traces[ti].t)) ELSE TRUE
=============================================================================
