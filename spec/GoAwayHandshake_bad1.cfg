SPECIFICATION Spec
CONSTANTS
  Ids = {1, 3, 5}
  Defects = {"FlagAfterSend"}
INVARIANT GoAwayTruth
CHECK_DEADLOCK FALSE
