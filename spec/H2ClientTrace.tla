--------------------------- MODULE H2ClientTrace ---------------------------
(* Trace validation for the client family (C02 C07 C11 C12 and the client    *)
(* halves of C14 C18 C20).  A trace is one http2.Conn driven by `h2v cli`:   *)
(* caller actions (call / cancel / close), what the scripted x/net server    *)
(* peer sent ("send") and received ("recv", tagged with the request the      *)
(* stream belongs to), how each caller's request resolved, and quiescence    *)
(* snapshots from the hooks.  One initial state per trace, one TLC state per *)
(* event; each violated clause is reported as "<property>:<clause>".         *)
EXTENDS RFC7540, HttpMsg, TLC, Json, IOUtils, SequencesExt

Traces == ndJsonDeserialize(IOEnv.VERIF_TRACE)

VARIABLES ti, l, m
vars == <<ti, l, m>>

NoGiven == [method |-> <<>>, path |-> <<>>, host |-> <<>>, fields |-> <<>>, kind |-> "none", n |-> 0]
R0 == [called |-> FALSE, given |-> NoGiven, sid |-> 0, canceled |-> FALSE,
       \* what the server peer received on the request's stream
       hdrSeen |-> 0, body |-> 0, bodyok |-> TRUE, es |-> 0, rstByClient |-> FALSE,
       grant |-> 0, sent |-> 0,
       \* what the server peer sent on it
       rblk |-> <<>>, rblkOpen |-> FALSE, rHdrs |-> 0, rfields |-> <<>>, rES |-> FALSE, rbody |-> 0, rRst |-> FALSE, rRstCode |-> 0,
       rGrant |-> 0, rInterim |-> FALSE, rTrailers |-> FALSE, rBad |-> FALSE,
       \* how it resolved
       res |-> 0, ok |-> FALSE, errclass |-> "", failedBeforeGoAwayQ |-> FALSE]

M0(tr) == [cfg |-> tr.cfg, r |-> << >>, lastSid |-> 0,
           srvIW |-> 65535, srvIWSent |-> 65535, srvMFS |-> 16384, srvMCS |-> -1,
           limQ |-> <<>>,      \* limits of the SETTINGS frames not yet acknowledged: <<[mfs, mcs]>> (-1 = not carried)
           grantC |-> 65535, sentC |-> 0,
           cliIW |-> 65535, rGrantC |-> 65535, rSentC |-> 0,
           setSent |-> 0, ackRecv |-> 0, pushAdvertised |-> -1,
           goaway |-> FALSE, gaLast |-> 0, gaCode |-> 0, gaSettled |-> FALSE,
           openBlockES |-> FALSE, openBlockSid |-> 0, peerGone |-> FALSE, userClosed |-> FALSE, connClosed |-> FALSE, connErr |-> FALSE, badSettings |-> FALSE, pushSent |-> FALSE, gaStep |-> 0, closeSeenQ |-> FALSE,
           bad |-> {}]

Rq(mm, i) == IF i \in DOMAIN mm.r THEN mm.r[i] ELSE R0
PutR(mm, i, x) == [mm EXCEPT !.r = (i :> x) @@ mm.r]
Flag(mm, c) == [mm EXCEPT !.bad = @ \cup {c}]
FlagIf(mm, cond, c) == IF cond THEN Flag(mm, c) ELSE mm

SameFields(a, b) ==
  /\ Len(a) = Len(b)
  /\ \A x \in {a[i] : i \in DOMAIN a} \cup {b[i] : i \in DOMAIN b} :
       Cardinality({i \in DOMAIN a : a[i] = x}) = Cardinality({i \in DOMAIN b : b[i] = x})
SubFields(a, b) ==
  \A x \in {a[i] : i \in DOMAIN a} :
       Cardinality({i \in DOMAIN a : a[i] = x}) <= Cardinality({i \in DOMAIN b : b[i] = x})
Regular(fields) == SelectSeq(fields, LAMBDA f : ~IsPseudo(f[1]))
ValueOf(fields, n) == LET vs == ValuesOf(fields, n) IN IF vs = {} THEN <<>> ELSE CHOOSE v \in vs : TRUE

\* fields of the request as the caller gave it that must reach the server
GivenFields(g) == SelectSeq(g.fields, LAMBDA f : f[1] \notin ConnSpecific /\ f[1] # B_host)
\* fasthttp reports a default content-type / content-length on a response that carried none
SeenMinusDefaults(fs) == SelectSeq(fs, LAMBDA f : f[1] # B_contenttype /\ f[1] # B_contentlength)

\* (a response that carries END_STREAM on its HEADERS ends the stream when its header block ends)
OpenStreams(mm) == {i \in DOMAIN mm.r : mm.r[i].sid # 0 /\ ~((mm.r[i].es >= 1 \/ mm.r[i].rstByClient) /\ ((mm.r[i].rES /\ ~mm.r[i].rblkOpen) \/ mm.r[i].rRst))
                                         /\ ~mm.r[i].rRst /\ ~mm.r[i].rstByClient}

\* a change of the server's INITIAL_WINDOW_SIZE by d takes effect in the ledger of every request body still going out
ApplySrvIW(mm, d) ==
  [mm EXCEPT !.srvIW = @ + d,
             !.r = [k \in DOMAIN mm.r |-> IF mm.r[k].sid # 0 /\ mm.r[k].es = 0 /\ ~(d > 0 /\ mm.r[k].grant > 0 /\ d > MaxWin - mm.r[k].grant)
                                         THEN [mm.r[k] EXCEPT !.grant = @ + d] ELSE mm.r[k]]]

-----------------------------------------------------------------------------
OnCall(mm, e) ==
  PutR(mm, e.req, [R0 EXCEPT !.called = TRUE,
                             !.given = [method |-> e.method, path |-> e.path, host |-> e.host, fields |-> e.fields, kind |-> e.bodykind, n |-> e.n]])

(* A request header block is complete (END_HEADERS on HEADERS, or on the CONTINUATION that ends it):      *)
(* f carries the field list x/net decoded, e.req the request it belongs to, es whether END_STREAM was on   *)
(* the HEADERS frame.                                                                                      *)
ReqBlock(mm, e, f, i, x, es) ==
     LET g == x.given
         isNew == i # 0 /\ x.hdrSeen = 0
         x1 == [x EXCEPT !.sid = f.sid, !.hdrSeen = @ + 1, !.es = @ + (IF es THEN 1 ELSE 0), !.grant = mm.srvIW, !.rGrant = mm.cliIW]
         m1 == IF i # 0 THEN [PutR(mm, i, x1) EXCEPT !.lastSid = IF f.sid > @ THEN f.sid ELSE @] ELSE mm
         c1 == FlagIf(m1, f.hbad, "C02:request-block-undecodable")
         c1b == FlagIf(c1, f.tsover, "C18:header-table-size-limit-not-obeyed (the encoder's table is larger than the limit it acknowledged)")
         c2 == FlagIf(c1b, i = 0 /\ ~f.hbad, "C02:request-without-caller")
         c3 == FlagIf(c2, f.sid % 2 = 0 \/ f.sid <= mm.lastSid, "C02:stream-id-not-fresh-odd-increasing")
         c4 == FlagIf(c3, i # 0 /\ x.hdrSeen >= 1, "C11:request-headers-sent-twice")
         c5 == FlagIf(c4, isNew /\ ~f.hbad /\ ValueOf(f.fields, B_method) # g.method, "C02:method-differs")
         c6 == FlagIf(c5, isNew /\ ~f.hbad /\ ValueOf(f.fields, B_path) # g.path, "C02:path-differs")
         c7 == FlagIf(c6, isNew /\ ~f.hbad /\ ValueOf(f.fields, B_authority) # g.host, "C02:authority-differs")
         c8 == FlagIf(c7, isNew /\ ~f.hbad /\ ~SameFields(SelectSeq(Regular(f.fields), LAMBDA q : q[1] # B_contentlength),
                                                       SelectSeq(GivenFields(g), LAMBDA q : q[1] # B_contentlength)), "C02:request-fields-differ")
         c9 == FlagIf(c8, isNew /\ ~f.hbad /\ ~WellFormedRequest(f.fields, 0, <<>>) /\ Count(f.fields, B_contentlength) = 0, "C02:request-malformed-on-the-wire")
         c10 == FlagIf(c9, mm.gaSettled, "C11:new-stream-after-goaway")
         c11 == FlagIf(c10, f.len > mm.srvMFS, "C18:headers-frame-over-max-frame-size")
         c12 == c11
         c13 == FlagIf(c12, isNew /\ mm.srvMCS >= 0 /\ Cardinality(OpenStreams(m1)) > mm.srvMCS, "C18:max-concurrent-streams-exceeded")
         c14 == FlagIf(c13, isNew /\ es /\ g.kind # "none" /\ g.n > 0, "C02:request-body-dropped")
     IN c14

(* recv: the server peer received frame f from the client; e.req = request owning the stream (0: none) *)
OnRecv(mm, e) ==
  LET f == e.f
      i == e.req
      x == Rq(mm, i)
  IN
  IF f.ty = T_HEADERS THEN
     (IF f.eh THEN ReqBlock(mm, e, f, i, x, f.es)
      ELSE \* the block continues: remember END_STREAM of the HEADERS frame, judge the block when it ends
           FlagIf([mm EXCEPT !.openBlockES = f.es, !.openBlockSid = f.sid], f.len > mm.srvMFS, "C18:headers-frame-over-max-frame-size"))
  ELSE IF f.ty = T_CONT THEN
     LET c1 == FlagIf(mm, f.len > mm.srvMFS, "C18:continuation-frame-over-max-frame-size")
     IN IF f.eh /\ f.sid = mm.openBlockSid THEN ReqBlock([c1 EXCEPT !.openBlockSid = 0], e, f, i, x, mm.openBlockES) ELSE c1
  ELSE IF f.ty = T_DATA THEN
     LET x1 == [x EXCEPT !.body = @ + f.dlen, !.bodyok = @ /\ f.pat, !.es = @ + (IF f.es THEN 1 ELSE 0), !.grant = @ - f.len]
         m1 == [(IF i # 0 THEN PutR(mm, i, x1) ELSE mm) EXCEPT !.grantC = @ - f.len]
         c1 == FlagIf(m1, i = 0, "C02:data-on-stream-without-caller")
         c2 == FlagIf(c1, f.len > 0 /\ i # 0 /\ x1.grant < 0, "C07:stream-window-exceeded")
         c3 == FlagIf(c2, f.len > 0 /\ m1.grantC < 0, "C07:conn-window-exceeded")
         c4 == FlagIf(c3, f.len > mm.srvMFS, "C07:data-frame-over-max-frame-size")
         c5 == FlagIf(c4, i # 0 /\ x.es >= 1, "C07:data-after-end-stream")
         c6 == FlagIf(c5, i # 0 /\ ~f.pat, "C02:request-body-bytes-differ")
         c7 == FlagIf(c6, i # 0 /\ x1.body > x.given.n, "C02:request-body-too-long")
         c8 == FlagIf(c7, i # 0 /\ f.es /\ x1.body < x.given.n /\ ~x.canceled, "C02:request-body-truncated")
     IN c8
  ELSE IF f.ty = T_RST THEN
     IF i # 0 THEN PutR(mm, i, [x EXCEPT !.rstByClient = TRUE]) ELSE mm
  ELSE IF f.ty = T_SETTINGS THEN
     IF f.ack THEN
        LET m1 == IF mm.limQ = <<>> THEN mm
                  ELSE LET m0 == [mm EXCEPT !.limQ = Tail(@),
                                            !.srvMFS = IF Head(mm.limQ).mfs >= 0 THEN Head(mm.limQ).mfs ELSE @,
                                            !.srvMCS = IF Head(mm.limQ).mcs >= 0 THEN Head(mm.limQ).mcs ELSE @]
                       IN IF Head(mm.limQ).iwd < 0 THEN ApplySrvIW(m0, Head(mm.limQ).iwd) ELSE m0
        IN FlagIf([m1 EXCEPT !.ackRecv = @ + 1], mm.ackRecv + 1 > mm.setSent, "C18:ack-without-settings")
     ELSE [mm EXCEPT !.cliIW = IF f.iw >= 0 THEN f.iw ELSE @, !.pushAdvertised = f.code]
  ELSE IF f.ty = T_WU THEN
     IF f.sid = 0 THEN
        LET c1 == FlagIf(mm, f.inc = 0, "C14:zero-increment")
            c2 == FlagIf(c1, Overflows(mm.rGrantC - mm.rSentC, f.inc), "C14:window-above-max")
        IN [c2 EXCEPT !.rGrantC = IF Overflows(mm.rGrantC - mm.rSentC, f.inc) THEN @ ELSE @ + f.inc]
     ELSE IF i # 0 THEN
        LET c1 == FlagIf(mm, f.inc = 0, "C14:zero-increment")
            c2 == FlagIf(c1, Overflows(x.rGrant, f.inc), "C14:window-above-max")
        IN PutR(c2, i, [x EXCEPT !.rGrant = IF Overflows(x.rGrant, f.inc) THEN @ ELSE @ + f.inc])
     ELSE mm
  ELSE IF f.ty = T_GOAWAY THEN [mm EXCEPT !.connErr = @ \/ f.code # E_NO]
  ELSE mm

(* send: the server peer sent frame f to the client *)
OnSend(mm, e) ==
  LET f == e.f
      i == IF "req" \in DOMAIN e THEN e.req ELSE 0
      x == Rq(mm, i)
  IN
  \* the client advertises ENABLE_PUSH = 0: a PUSH_PROMISE, on whatever stream, is a connection error (RFC 7540 6.6, 8.2)
  IF f.ty = T_PUSH THEN [mm EXCEPT !.pushSent = TRUE]
  ELSE IF f.ty = T_SETTINGS THEN
     IF f.ack THEN mm
     ELSE LET m1 == [mm EXCEPT !.setSent = @ + 1,
                               \* "from the acknowledgement on": a smaller frame size or stream limit binds the frames
                               \* the client sends after its ACK; a larger one may be used at once
                               !.srvMFS = IF f.mfs >= 0 /\ f.sbad = 0 /\ f.mfs > @ THEN f.mfs ELSE @,
                               !.srvMCS = IF f.mcs >= 0 /\ f.sbad = 0 /\ @ >= 0 /\ f.mcs > @ THEN f.mcs ELSE @,
                               \* ... and so does a DEcrease of INITIAL_WINDOW_SIZE (an increase is the server's commitment at once)
                               !.limQ = Append(@, [mfs |-> IF f.sbad = 0 THEN f.mfs ELSE -1, mcs |-> IF f.sbad = 0 THEN f.mcs ELSE -1,
                                                   iwd |-> IF f.sbad = 0 /\ f.iw >= 0 /\ f.iw < mm.srvIWSent THEN f.iw - mm.srvIWSent ELSE 0]),
                               !.srvIWSent = IF f.iw >= 0 /\ f.sbad = 0 THEN f.iw ELSE @,
                               !.badSettings = @ \/ f.sbad # 0]
              d == f.iw - mm.srvIWSent
          IN IF f.iw >= 0 /\ f.sbad = 0 /\ d > 0 THEN ApplySrvIW(m1, d) ELSE m1
  ELSE IF f.ty = T_WU THEN
     IF f.sid = 0 THEN [mm EXCEPT !.grantC = IF Overflows(mm.grantC - mm.sentC, f.inc) \/ f.inc = 0 THEN @ ELSE @ + f.inc]
     ELSE IF i # 0 THEN PutR(mm, i, [x EXCEPT !.grant = IF Overflows(x.grant - x.sent, f.inc) \/ f.inc = 0 THEN @ ELSE @ + f.inc])
     ELSE mm
  ELSE IF f.ty = T_GOAWAY THEN [mm EXCEPT !.goaway = TRUE, !.gaLast = IF mm.goaway /\ mm.gaLast < f.last THEN mm.gaLast ELSE f.last, !.gaCode = f.code]
  ELSE IF i = 0 THEN mm
  ELSE IF f.ty = T_HEADERS THEN
     LET blk == f.fields
         st == ValueOf(blk, B_status)
         interim == Len(st) = 3 /\ st[1] = 49
         x1 == IF x.rHdrs = 0 \/ x.rInterim
               THEN [x EXCEPT !.rblk = blk, !.rblkOpen = ~f.eh, !.rHdrs = @ + 1, !.rfields = blk, !.rES = @ \/ f.es, !.rInterim = interim,
                              !.rBad = @ \/ f.hbad \/ (~f.hbad /\ ~WellFormedResponse(blk))]
               ELSE [x EXCEPT !.rTrailers = TRUE, !.rblkOpen = ~f.eh, !.rES = @ \/ f.es,
                              !.rBad = @ \/ f.hbad \/ ~f.es \/ (\E k \in DOMAIN blk : IsPseudo(blk[k][1]) \/ HasUpper(blk[k][1]))]
     IN PutR(mm, i, x1)
  ELSE IF f.ty = T_CONT THEN PutR(mm, i, [x EXCEPT !.rblkOpen = ~f.eh, !.rBad = @ \/ f.hbad])
  ELSE IF f.ty = T_DATA THEN
     [PutR(mm, i, [x EXCEPT !.rbody = @ + f.dlen, !.rGrant = @ - f.len, !.rES = @ \/ f.es, !.rBad = @ \/ x.rHdrs = 0 \/ x.rES]) EXCEPT !.rGrantC = @ - f.len]
  ELSE IF f.ty = T_RST THEN PutR(mm, i, [x EXCEPT !.rRst = TRUE, !.rRstCode = f.code])
  ELSE mm

OnResolve(mm, e) ==
  LET x == Rq(mm, e.req)
      x1 == [x EXCEPT !.res = @ + 1, !.ok = e.ok, !.errclass = e.errclass, !.failedBeforeGoAwayQ = ~mm.gaSettled]
      m1 == PutR(mm, e.req, x1)
      complete == x.rHdrs >= 1 /\ ~x.rInterim /\ x.rES /\ ~x.rblkOpen
      sentReg == Regular(x.rfields)
      c1 == FlagIf(m1, x.res >= 1, "C12:request-resolved-twice")
      c2 == FlagIf(c1, e.ok /\ ~complete, "C12:success-without-complete-response")
      c3 == FlagIf(c2, e.ok /\ complete /\ x.rBad, "C20:malformed-response-delivered")
      c4 == FlagIf(c3, e.ok /\ complete /\ ~x.rBad /\ DigitsOf(e.status) # ValueOf(x.rfields, B_status), "C02:status-differs")
      c5 == FlagIf(c4, e.ok /\ complete /\ ~x.rBad /\ ~SubFields(SelectSeq(sentReg, LAMBDA q : q[1] # B_contentlength), e.fields), "C02:response-field-lost")
      c6 == FlagIf(c5, e.ok /\ complete /\ ~x.rBad /\ ~SubFields(SeenMinusDefaults(e.fields), sentReg), "C02:response-field-invented")
      c7 == FlagIf(c6, e.ok /\ complete /\ ~x.rBad /\ (e.blen # x.rbody \/ ~e.bodyok), "C02:response-body-differs")
      c8 == FlagIf(c7, e.ok /\ x.rRst, "C12:success-after-rst-stream")
      c9 == FlagIf(c8, e.ok /\ mm.goaway /\ x.sid > mm.gaLast /\ x.sid # 0, "C11:request-above-last-stream-id-succeeded")
      c10 == FlagIf(c9, ~e.ok /\ complete /\ ~x.rBad /\ ~x.rRst /\ ~x.canceled /\ ~mm.userClosed /\ ~mm.peerGone /\ ~mm.connErr /\ ~mm.badSettings /\ ~mm.pushSent
                        /\ (~mm.goaway \/ x.sid <= mm.gaLast) /\ e.errclass \notin {"connclosed"},
                    "C20:well-formed-response-rejected " \o e.errclass)
      \* retried (or reported retryable) only when the server cannot have processed the request: its HEADERS never
      \* reached the wire, or the server disclaimed the stream (GOAWAY above last-stream-id, REFUSED_STREAM)
      disclaimed == x.sid = 0 \/ x.hdrSeen = 0 \/ (mm.goaway /\ x.sid > mm.gaLast) \/ (x.rRst /\ x.rRstCode = E_REFUSED)
      c11 == FlagIf(c10, ~e.ok /\ e.retryable /\ ~disclaimed, "C11:request-the-server-may-have-processed-called-retryable " \o e.errclass)
  IN c11

-----------------------------------------------------------------------------
OnQ(mm, e) ==
  LET live == ~mm.connClosed /\ ~mm.peerGone /\ ~mm.userClosed /\ ~e.settled /\ ~e.wlx /\ ~e.rlx /\ ~mm.connErr /\ ~mm.badSettings /\ ~mm.pushSent
      stalled == {i \in DOMAIN mm.r : LET x == mm.r[i] IN
                     x.sid # 0 /\ x.es = 0 /\ ~x.rstByClient /\ ~x.rRst /\ ~x.canceled /\ x.res = 0 /\ x.given.kind # "none"
                     /\ x.body < x.given.n /\ x.grant - x.sent > 0 /\ mm.grantC - mm.sentC > 0}
      noEnd == {i \in DOMAIN mm.r : LET x == mm.r[i] IN
                     x.sid # 0 /\ x.es = 0 /\ ~x.rstByClient /\ ~x.rRst /\ ~x.canceled /\ x.res = 0 /\ x.body >= x.given.n}
      starved == {i \in DOMAIN mm.r : LET x == mm.r[i] IN
                     x.sid # 0 /\ x.rHdrs >= 1 /\ ~x.rES /\ ~x.rRst /\ ~x.rstByClient /\ x.res = 0 /\ x.rGrant <= 0}
      aboveLast == {i \in DOMAIN mm.r : LET x == mm.r[i] IN mm.goaway /\ x.sid # 0 /\ x.sid > mm.gaLast /\ x.res = 0 /\ ~x.canceled}
      c1 == FlagIf(mm, live /\ ~mm.goaway /\ stalled # {}, "C07:request-body-stalled-with-open-windows")
      c2 == FlagIf(c1, live /\ noEnd # {}, "C07:request-never-ended")
      c3 == FlagIf(c2, live /\ mm.rGrantC - mm.rSentC <= 0, "C14:connection-credit-not-returned")
      c4 == FlagIf(c3, live /\ starved # {}, "C14:stream-credit-not-returned")
      c5 == FlagIf(c4, live /\ mm.ackRecv # mm.setSent, "C18:settings-not-acknowledged-exactly-once")
      c6 == FlagIf(c5, ~e.settled /\ aboveLast # {} /\ ~mm.peerGone, "C11:request-above-last-stream-id-not-failed-promptly")
      c7 == FlagIf(c6, ~e.settled /\ mm.badSettings /\ e.canopen /\ ~e.closed, "C18:invalid-settings-value-accepted")
      c8a == FlagIf(c7, ~e.settled /\ mm.goaway /\ e.canopen /\ ~e.closed, "C11:connection-still-offered-for-new-streams-after-goaway")
      c8 == FlagIf(c8a, ~e.settled /\ mm.pushSent /\ e.canopen /\ ~e.closed, "C18:push-promise-tolerated-although-enable-push-0-was-advertised")
      \* Close resolves what is in flight at once - also when the peer is not reading and Close's own GOAWAY cannot go out
      pendingAfterClose == {i \in DOMAIN mm.r : mm.r[i].called /\ mm.r[i].res = 0 /\ ~mm.r[i].canceled}
      c9 == FlagIf(c8, mm.userClosed /\ mm.closeSeenQ /\ pendingAfterClose # {}, "C12:request-left-unresolved-by-close")
  IN [c9 EXCEPT !.gaSettled = mm.goaway, !.connClosed = e.closed, !.closeSeenQ = mm.userClosed]

OnEnd(mm, e) ==
  LET never == {i \in DOMAIN mm.r : mm.r[i].called /\ mm.r[i].res = 0 /\ ~mm.r[i].canceled}
      c1 == FlagIf(mm, never # {}, "C12:request-never-resolved")
      c2 == FlagIf(c1, e.leaked > 0, "C12:goroutines-left-after-close")
      c3 == FlagIf(c2, ~e.wlx \/ ~e.rlx, "C12:loops-still-running-after-close")
      c4 == FlagIf(c3, e.qtimeout, "X:quiescence-timeout")
      c5 == FlagIf(c4, mm.pushAdvertised # 0, "C18:enable-push-0-not-advertised")
  IN c5

Step(mm, e) ==
  CASE e.k = "call" -> OnCall(mm, e)
    [] e.k = "recv" -> OnRecv(mm, e)
    \* a frame whose size is wrong for its type is a connection error for the client too: from then on the peer is at fault
    [] e.k = "send" -> [OnSend(mm, e) EXCEPT !.badSettings = @ \/ FixedLenBad(e.f) \/ (e.f.ty \in {T_DATA, T_HEADERS} /\ e.f.padbad)]
    [] e.k = "resolve" -> OnResolve(mm, e)
    \* the read loop's GOAWAY handling raises the flag FIRST and sweeps the table SECOND (CliGoAwayHandshake.tla: R1, R2);
    \* the write loop registers first and re-reads the flag second - one of the two then sees the other
    [] e.k = "hs" -> IF e.ev = "ga.flag" THEN [FlagIf(mm, mm.gaStep # 0, "C11:goaway-handshake-out-of-order (flag raised after the sweep)") EXCEPT !.gaStep = 1]
                     ELSE IF e.ev = "ga.swept" THEN [FlagIf(mm, mm.gaStep # 1, "C11:goaway-handshake-out-of-order (table swept before the flag was raised)") EXCEPT !.gaStep = 0]
                     ELSE mm
    [] e.k = "cancel" -> IF e.ok THEN PutR(mm, e.req, [Rq(mm, e.req) EXCEPT !.canceled = TRUE]) ELSE mm
    [] e.k = "q" -> OnQ(mm, e)
    [] e.k = "peerclose" -> [mm EXCEPT !.peerGone = TRUE]
    [] e.k = "userclose" -> [mm EXCEPT !.userClosed = TRUE]
    [] e.k = "connclosed" -> [mm EXCEPT !.connClosed = TRUE]
    [] e.k = "end" -> OnEnd(mm, e)
    [] e.k = "runaway" -> Flag(mm, "C07:runaway-output")
    [] e.k = "peerproto" -> Flag(mm, "C14:zero-increment (frame rejected by the peer's framer, code=" \o ToString(e.code) \o ")")
    [] e.k = "qtimeout" -> Flag(mm, "X:quiescence-timeout")
    [] e.k = "driverpanic" -> Flag(mm, "X:driver-panic")
    [] e.k = "handshakefail" -> Flag(mm, "X:handshake-failed")
    [] OTHER -> mm

Init == /\ ti \in 1..Len(Traces)
        /\ l = 1
        /\ m = M0(Traces[ti])

Next ==
  \/ /\ l <= Len(Traces[ti].evs)
     /\ m' = Step(m, Traces[ti].evs[l])
     /\ l' = l + 1
     /\ ti' = ti
  \/ /\ l = Len(Traces[ti].evs) + 1
     /\ IF m.bad = {} THEN TRUE ELSE PrintT("BAD " \o ToString(Traces[ti].t) \o " " \o ToJson(m.bad))
     /\ l' = l + 1
     /\ UNCHANGED <<ti, m>>

Spec == Init /\ [][Next]_vars
=============================================================================
