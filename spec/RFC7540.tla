------------------------------ MODULE RFC7540 ------------------------------
(* The protocol oracle: RFC 7540 sections 4-6 as seen by a SERVER receiving  *)
(* frames from a client.  Pure operators, no variables.  Used by H2Server    *)
(* (design model: invariant "every reaction of the modelled server is        *)
(* allowed") and by H2ServerTrace (trace validation: "every reaction the     *)
(* real server showed is allowed").  DESIGN.md Appendix A is the prose form. *)
EXTENDS Integers, Sequences, FiniteSets

\* frame types
T_DATA == 0  T_HEADERS == 1  T_PRIORITY == 2  T_RST == 3  T_SETTINGS == 4
T_PUSH == 5  T_PING == 6     T_GOAWAY == 7    T_WU == 8   T_CONT == 9

\* error codes
E_NO == 0  E_PROTO == 1  E_INTERNAL == 2  E_FLOW == 3  E_SETTO == 4  E_CLOSED == 5
E_FSIZE == 6  E_REFUSED == 7  E_CANCEL == 8  E_COMP == 9  E_CONNECT == 10  E_CALM == 11

MaxWin == 2147483647          \* 2^31 - 1
AnyCode == -2                 \* wildcard: any error code is acceptable

\* stream states from the receiver's side, refined by how the stream closed
\*   idle      never used, id above every id the client has opened
\*   cImpl     never used, id below an id the client has opened (implicitly closed, 5.1.1)
\*   open      HEADERS received, END_STREAM not yet
\*   hcr       half-closed (remote): END_STREAM received, response not finished
\*   cEnd      closed, both sides ended normally
\*   cPeerRst  closed by the client's RST_STREAM
\*   cLocalRst closed by our RST_STREAM (frames may still be in flight)
\*   cOld      closed long ago (out of the closed-stream memory the endpoint keeps)
States == {"idle", "cImpl", "open", "hcr", "cEnd", "cPeerRst", "cLocalRst", "cOld"}
ClosedStates == {"cImpl", "cEnd", "cPeerRst", "cLocalRst", "cOld"}

\* reaction classes (uniformly typed records: TLC cannot compare a string with a record)
P      == [k |-> "proc", c |-> -1]      \* processed normally
I      == [k |-> "ign",  c |-> -1]      \* ignored
SE(c)  == [k |-> "serr", c |-> c]       \* stream error (RST_STREAM) with code c
CE(c)  == [k |-> "cerr", c |-> c]       \* connection error (GOAWAY with code c, or bare close)
RESP4  == [k |-> "r4xx", c |-> -1]      \* malformed request answered by a 4xx response (8.1.2.6)

FixedLenBad(f) ==
  \/ f.ty = T_RST /\ f.len # 4
  \/ f.ty = T_WU /\ f.len # 4
  \/ f.ty = T_PING /\ f.len # 8
  \/ f.ty = T_SETTINGS /\ (f.len % 6 # 0 \/ (f.ack /\ f.len > 0))
  \/ f.ty = T_GOAWAY /\ f.len < 8

SidFault(f) == \/ f.sid = 0 /\ f.ty \in {T_DATA, T_HEADERS, T_PRIORITY, T_RST, T_CONT, T_PUSH}
               \/ f.sid # 0 /\ f.ty \in {T_SETTINGS, T_PING, T_GOAWAY}
               \/ f.ty = T_PUSH                                             \* 6.6, 8.2: a client never receives pushes' promises from a client

\* would adding inc to window w exceed 2^31-1 ?  (w may be negative; no overflow in TLC's 32-bit ints)
Overflows(w, inc) == w > 0 /\ inc > MaxWin - w

(* Connection-scoped rules, checked before any stream rule.  c is the        *)
(* connection context: hb (stream of the open header block, 0 = none),       *)
(* maxSid (highest client stream id opened), maxFrame (OUR advertised        *)
(* SETTINGS_MAX_FRAME_SIZE), winC (our send window for the connection),      *)
(* maxStrWin (largest send window among open streams), iw (current           *)
(* SETTINGS_INITIAL_WINDOW_SIZE of the peer).  Result: {} = no connection    *)
(* rule applies, go on to the stream rules.                                  *)
ConnRules(f, c) ==
  IF f.len > c.maxFrame                                                   \* 4.2
    THEN {CE(E_FSIZE)} \cup (IF c.hb = 0 /\ f.ty \notin {T_HEADERS, T_CONT, T_PUSH, T_SETTINGS} /\ f.sid # 0
                              THEN {SE(E_FSIZE)} ELSE {})
  ELSE IF f.ty > T_CONT \/ f.ty < 0                                         \* 4.1, 6.10
    THEN IF c.hb # 0 THEN {CE(E_PROTO)} ELSE {I}
  ELSE IF c.hb # 0 /\ ~(f.ty = T_CONT /\ f.sid = c.hb) THEN {CE(E_PROTO)}   \* 6.10, 4.3
  ELSE IF f.ty = T_CONT /\ c.hb = 0 THEN {CE(E_PROTO)}                      \* 6.10
  \* a frame on the wrong kind of stream (6.x: PROTOCOL_ERROR) that also has the wrong size for its type
  \* (FRAME_SIZE_ERROR) may be answered with either: a receiver checks them in whatever order it likes
  ELSE IF SidFault(f) \/ FixedLenBad(f)
    THEN (IF SidFault(f) THEN {CE(E_PROTO)} ELSE {}) \cup
         (IF FixedLenBad(f) \/ (f.ty = T_PRIORITY /\ f.len # 5) THEN {CE(E_FSIZE)} ELSE {})
  ELSE IF f.ty = T_PRIORITY /\ f.len # 5 THEN {SE(E_FSIZE)}                 \* 6.3
  ELSE IF f.ty = T_SETTINGS THEN
         IF f.ack THEN {P}
         ELSE IF f.sbad = E_PROTO THEN {CE(E_PROTO)}                        \* 6.5.2
         ELSE IF f.sbad = E_FLOW THEN {CE(E_FLOW)}
         ELSE IF f.iw >= 0 /\ f.iw > c.iw /\ Overflows(c.maxStrWin, f.iw - c.iw) THEN {CE(E_FLOW)}   \* 6.9.2
         ELSE {P}
  ELSE IF f.ty = T_PING THEN {P}
  ELSE IF f.ty = T_GOAWAY THEN {P, CE(E_NO)}                                \* 6.8: the connection may simply end
  ELSE IF f.ty = T_WU /\ f.sid = 0 THEN
         IF f.inc = 0 THEN {CE(E_PROTO)}                                    \* 6.9
         ELSE IF Overflows(c.winC, f.inc) THEN {CE(E_FLOW)}                 \* 6.9.1
         ELSE {P}
  ELSE {}

\* Faults of a frame's content rather than of its framing: padding longer than the payload (6.1, 6.2) and a
\* header block fragment the HPACK decoder cannot take (4.3).
ContentFaults(f) ==
  (IF f.ty \in {T_DATA, T_HEADERS} /\ f.padbad THEN {CE(E_PROTO)} ELSE {}) \cup
  (IF f.ty \in {T_HEADERS, T_CONT} /\ f.hbad THEN {CE(E_COMP)} ELSE {})

\* Priority information that makes a stream depend on itself (5.3.1)
SelfDep(f) == f.dep = f.sid /\ f.sid # 0

(* Stream-scoped rules.  q: state of stream f.sid; s: stream context         *)
(* [win: our send window on it, refuse: would a new stream be over           *)
(* MAX_CONCURRENT_STREAMS, closing: have we sent GOAWAY, trailersOK]         *)
StreamRules(f, q, c, s) ==
  IF f.sid % 2 = 0 THEN                                                     \* 5.1.1: clients use odd ids
       IF f.ty = T_PRIORITY THEN {P, I, CE(E_PROTO)} ELSE {CE(E_PROTO)}
  ELSE IF f.ty = T_PRIORITY THEN                                           \* 5.3.1, 6.3: any state
       IF SelfDep(f) THEN (IF q \in ClosedStates THEN {SE(E_PROTO), I} ELSE {SE(E_PROTO)}) ELSE {P, I}
  ELSE IF q = "idle" THEN
       IF f.ty = T_HEADERS THEN
            IF SelfDep(f) THEN {SE(E_PROTO)}
            ELSE IF s.closing THEN {SE(E_REFUSED), I}                       \* 6.8
            ELSE IF s.refuse THEN {SE(E_REFUSED), SE(E_PROTO)}              \* 5.1.2
            ELSE {P}
       ELSE {CE(E_PROTO)}                                                   \* 5.1: DATA/RST/WU on idle
  ELSE IF q = "cImpl" THEN
       IF f.ty = T_HEADERS THEN {CE(E_PROTO), CE(E_CLOSED)}                 \* 5.1.1
       ELSE IF f.ty = T_DATA THEN {CE(E_PROTO), CE(E_CLOSED), SE(E_CLOSED)}
       ELSE {I, CE(E_PROTO)}
  ELSE IF q = "open" THEN
       IF f.ty = T_HEADERS THEN (IF f.es THEN {P} ELSE {SE(E_PROTO)})       \* 8.1: trailers must end the stream
       ELSE IF f.ty = T_CONT THEN {P}
       ELSE IF f.ty = T_DATA THEN {P}
       ELSE IF f.ty = T_RST THEN {P}
       ELSE IF f.ty = T_WU THEN
            IF f.inc = 0 THEN {SE(E_PROTO)}
            ELSE IF Overflows(s.win, f.inc) THEN {SE(E_FLOW)}
            ELSE {P}
       ELSE {P}
  ELSE IF q = "hcr" THEN
       IF f.ty \in {T_HEADERS, T_DATA} THEN {SE(E_CLOSED)}                  \* 5.1 half-closed (remote)
       ELSE IF f.ty = T_CONT THEN {P}
       ELSE IF f.ty = T_RST THEN {P}
       ELSE IF f.ty = T_WU THEN
            IF f.inc = 0 THEN {SE(E_PROTO)}
            ELSE IF Overflows(s.win, f.inc) THEN {SE(E_FLOW)}
            ELSE {P}
       ELSE {P}
  ELSE IF q = "cPeerRst" THEN
       IF f.ty \in {T_HEADERS, T_DATA} THEN {SE(E_CLOSED)}                  \* 5.1 closed after RST_STREAM
       ELSE {I, SE(E_CLOSED)}
  ELSE IF q = "cEnd" THEN
       IF f.ty \in {T_HEADERS, T_DATA} THEN {CE(E_CLOSED), SE(E_CLOSED)}    \* 5.1 closed after END_STREAM
       ELSE {I}
  ELSE IF q = "cLocalRst" THEN                                              \* 5.1: frames in flight after our RST
       IF f.ty \in {T_HEADERS, T_DATA, T_CONT} THEN {I, SE(E_CLOSED)}
       ELSE {I}
  ELSE \* cOld
       IF f.ty = T_HEADERS THEN {CE(E_PROTO), CE(E_CLOSED), SE(E_CLOSED)}
       ELSE IF f.ty = T_DATA THEN {CE(E_PROTO), CE(E_CLOSED), SE(E_CLOSED), I}
       ELSE IF f.ty = T_WU THEN {I, CE(E_PROTO)}
       ELSE {I}

\* A frame with a content fault that also breaks a stream rule may be answered for either; a receiver may decode
\* a header block only when it is complete, so a bad fragment that does not end the block may pass for now.
Allowed(f, q, c, s) ==
  LET cr == ConnRules(f, c)
      cf == ContentFaults(f)
      sr == StreamRules(f, q, c, s)
  IN IF cr # {} THEN cr
     ELSE IF cf # {} THEN cf \cup {x \in sr : x.k \in {"serr", "cerr"}}
                          \* ... or be found malformed (8.1.2.6) from the fields decoded so far
                          \* ... or be given up on because the receiver bounds what it buffers of an unfinished block (10.5.1)
                          \cup (IF f.ty \in {T_HEADERS, T_CONT} /\ ~f.eh /\ ~f.padbad THEN sr \cup {SE(E_PROTO), CE(E_CALM)} ELSE {})
     ELSE sr

\* The property's tolerance: a stream error may be answered by a connection error of the same kind.
Tolerate(R) == R \cup {CE(r.c) : r \in {x \in R : x.k = "serr"}}

(* Observed reactions (what a peer can see between delivering a frame and   *)
(* the next quiescent point): obs = [rst: set of <<sid, code>>,             *)
(* goaway: set of codes, closed: BOOLEAN].  Progress of responses,          *)
(* WINDOW_UPDATE credit and ACKs are not reactions in this sense.           *)
ReactionOK(f, obs, R) ==
  LET T == Tolerate(R)
      errs == obs.rst # {} \/ obs.goaway # {} \/ obs.closed
  IN /\ \A r \in obs.rst :
          \/ r[1] = f.sid /\ (SE(r[2]) \in T \/ SE(AnyCode) \in T)
     /\ \A g \in obs.goaway : CE(g) \in T \/ CE(AnyCode) \in T
     /\ (obs.closed /\ obs.goaway = {}) => (\E r \in T : r.k = "cerr")
     /\ ~errs => (P \in T \/ I \in T \/ RESP4 \in T)

\* Next stream state after frame f was PROCESSED (not rejected).
NextOnProcess(f, q) ==
  IF f.ty = T_RST /\ q \in {"open", "hcr"} THEN "cPeerRst"
  ELSE IF f.ty = T_HEADERS /\ q = "idle" THEN (IF f.es THEN "hcr" ELSE "open")
  ELSE IF f.ty \in {T_HEADERS, T_DATA} /\ q = "open" /\ f.es THEN "hcr"
  ELSE q

(* Codes a GOAWAY may carry for each connection-scoped offence class (C10). *)
ConnCodes(off) ==
  CASE off = "framesize"  -> {E_FSIZE}
    [] off = "sequence"   -> {E_PROTO}
    [] off = "settings"   -> {E_PROTO, E_FLOW, E_FSIZE}
    [] off = "flow"       -> {E_FLOW, E_PROTO}
    [] off = "compress"   -> {E_COMP}
    [] off = "closed"     -> {E_CLOSED, E_PROTO}
    [] off = "graceful"   -> {E_NO}
    [] OTHER              -> {E_PROTO, E_INTERNAL, E_CALM}
=============================================================================
