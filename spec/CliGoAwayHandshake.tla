------------------------- MODULE CliGoAwayHandshake -------------------------
(* The client-side twin of GoAwayHandshake.tla (conn.go): the write loop     *)
(* registering a new request against the read loop processing a GOAWAY.     *)
(*                                                                           *)
(*   write loop, writeRequest                 read loop, readNext (GOAWAY)   *)
(*     W1  if goAway then refuse (retryable)    R1  goAway := TRUE            *)
(*     W2  table := table + {id}                R2  sweep: every id in the    *)
(*     W3  if goAway then                            table above last-stream- *)
(*           if id still in table: take it           id is taken and failed   *)
(*              out, refuse (retryable)              (retryable)              *)
(*           else nothing (R2 has it)                                         *)
(*     W4  write HEADERS                                                      *)
(*                                                                           *)
(* W3 is the repair of defect K07 ("RecheckBeforeWrite" absent = the code as *)
(* found): without it a request that passed W1 just before R1 and reached W2 *)
(* just after R2 is written on a stream the server has disclaimed, and stays *)
(* in the table with nobody left to fail it.  Stranded is the bad state.     *)
(* Binding: the gate-goaway scenarios of lib/cliprop.py park the real write  *)
(* loop between these steps (hooks wr.afterid = after W1, wr.beforepending = *)
(* after W2) while the read loop takes the GOAWAY.                           *)
EXTENDS Integers, FiniteSets, TLC

CONSTANTS Defects     \* {} = repaired code; {"NoRecheck"} = as found

VARIABLES goAway, table, wPc, rPc, outcome, written
vars == <<goAway, table, wPc, rPc, outcome, written>>

Id == 3   \* the new request's stream id; the GOAWAY's last-stream-id is below it

Init == goAway = FALSE /\ table = {} /\ wPc = "W1" /\ rPc = "R1" /\ outcome = "none" /\ written = FALSE

W1 == /\ wPc = "W1"
      /\ IF goAway THEN wPc' = "done" /\ outcome' = "retryable" ELSE wPc' = "W2" /\ UNCHANGED outcome
      /\ UNCHANGED <<goAway, table, rPc, written>>
W2 == /\ wPc = "W2" /\ table' = table \cup {Id}
      /\ wPc' = IF "NoRecheck" \in Defects THEN "W4" ELSE "W3"
      /\ UNCHANGED <<goAway, rPc, outcome, written>>
W3 == /\ wPc = "W3"
      /\ IF goAway
         THEN /\ wPc' = "done"
              /\ IF Id \in table THEN table' = table \ {Id} /\ outcome' = "retryable"
                                 ELSE UNCHANGED <<table, outcome>>       \* the read loop took it and failed it
         ELSE wPc' = "W4" /\ UNCHANGED <<table, outcome>>
      /\ UNCHANGED <<goAway, rPc, written>>
W4 == /\ wPc = "W4" /\ written' = TRUE /\ wPc' = "done"
      /\ UNCHANGED <<goAway, table, rPc, outcome>>

R1 == /\ rPc = "R1" /\ goAway' = TRUE /\ rPc' = "R2"
      /\ UNCHANGED <<table, wPc, outcome, written>>
R2 == /\ rPc = "R2" /\ rPc' = "done"
      /\ IF Id \in table THEN table' = table \ {Id} /\ outcome' = "retryable" ELSE UNCHANGED <<table, outcome>>
      /\ UNCHANGED <<goAway, wPc, written>>

Next == W1 \/ W2 \/ W3 \/ W4 \/ R1 \/ R2
Spec == Init /\ [][Next]_vars

Finished == wPc = "done" /\ rPc = "done"
\* C11 / C12: once both loops are through, the request has been failed (retryably) - it is not sitting in the table
NotStranded == Finished => (Id \notin table /\ outcome = "retryable")
\* C11: a request that was failed as "never sent" was not written after the GOAWAY had been processed ... except in the
\* one window nothing can close (flag read at W3, GOAWAY processed, HEADERS written): then the read loop fails it at R2
RetryableMeansUnsentOrSwept == (outcome = "retryable" /\ written) => rPc = "done"
=============================================================================
