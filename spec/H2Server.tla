------------------------------ MODULE H2Server ------------------------------
(* Design model of one dgrr/http2 SERVER connection at frame granularity     *)
(* (serverConn.go: readLoop sequencing rules + handleStreams + handler       *)
(* completion + flow-controlled sending), composed with an environment that  *)
(* is free to send any frame of the configured alphabet and to finish        *)
(* handlers in any order with any response shape.                            *)
(*                                                                           *)
(* Used for (1) design checking: every reaction of the modelled server is    *)
(* allowed by RFC7540!Allowed; dispatch / flow-control / GOAWAY / limits     *)
(* ledgers hold in every reachable state; (2) scenario generation: `hist`    *)
(* is the environment's behaviour; TLC prints one history per new abstract   *)
(* state and per sampled transition, the Go harness replays them into the    *)
(* real server, and H2ServerTrace validates what the real server did.        *)
(* Sizes are in abstract units.  The three goroutines are collapsed into one *)
(* macro-step per frame here; H2Teardown.tla models them separately.         *)
EXTENDS RFC7540, SequencesExt, FiniteSetsExt, TLC, Json

CONSTANTS
  Sids,        \* client stream ids the environment may use, e.g. {1,3,5}
  MaxConcM,    \* SETTINGS_MAX_CONCURRENT_STREAMS
  InitWinM,    \* peer's initial stream send window (units)
  ConnWinM,    \* initial connection send window (units)
  MaxWinM,     \* stands for 2^31-1 in units
  MaxBodyM,    \* request body limit (units)
  RespSizes,   \* response body sizes handlers may produce
  MaxFrames,   \* bound on the number of environment steps
  Ops,         \* subset of operation names enabled in this configuration
  EmitOneIn    \* scenario output: print one history in EmitOneIn (1 = all, 0 = none)

VARIABLES v, hist
vars == <<v, hist>>

StreamRecvWinM == 2   \* a stream's receive window; the server hands every accepted octet back at once (consumeRecvWindow)
RecvWinM == 4     \* the server's connection receive window, in units; it hands credit back when less than half is left

NoStream == [st |-> "none", hdrDone |-> FALSE, blkES |-> FALSE, trailer |-> FALSE, recv |-> 0, cl |-> -1,
             bad |-> FALSE, disp |-> FALSE, running |-> FALSE, abandoned |-> FALSE, pend |-> 0,
             pendEnd |-> FALSE, hdrSent |-> FALSE, win |-> 0, rq |-> "idle", ended |-> FALSE,
             peerES |-> FALSE, replyN |-> -1]

V0 == [s |-> [i \in Sids |-> NoStream], lastID |-> 0, open |-> 0, hb |-> 0, winC |-> ConnWinM, initWin |-> InitWinM,
       closing |-> FALSE, dead |-> FALSE, gaLast |-> -1, gaCode |-> -1,
       \* ledger (history variables)
       grantC |-> ConnWinM, sentC |-> 0, grant |-> [i \in Sids |-> 0], sent |-> [i \in Sids |-> 0],
       dispCnt |-> [i \in Sids |-> 0], endCnt |-> [i \in Sids |-> 0],
       \* last step: frame, allowed set and what the peer observed (for the C08 invariant)
       lf |-> [ty |-> -1, sid |-> 0], allowed |-> {P}, obs |-> [rst |-> {}, goaway |-> {}, closed |-> FALSE], judged |-> FALSE,
       over |-> FALSE, nf |-> 0,
       \* receive side ("credit" in Ops): the connection window as the server counts it, and the credit the peer holds
       recvC |-> RecvWinM, credC |-> RecvWinM, credS |-> [i \in Sids |-> StreamRecvWinM]]

-----------------------------------------------------------------------------
(* abstract frames: the uniform record RFC7540!Allowed expects *)
Frame(ty, sid, es, eh, inc, dep, len) ==
  [ty |-> ty, sid |-> sid, len |-> len, es |-> es, eh |-> eh, ack |-> FALSE, padbad |-> FALSE, inc |-> inc,
   dep |-> dep, hbad |-> FALSE, sbad |-> 0, iw |-> -1]

Running(vv) == {i \in Sids : vv.s[i].running}
ActiveSlots(vv) == {i \in Sids : vv.s[i].rq \in {"open", "hcr"} \/ vv.s[i].running}
MaxStrWinM(vv) ==
  LET ws == {vv.s[i].win : i \in {j \in Sids : vv.s[j].rq \in {"open", "hcr"}}} IN
  IF ws = {} THEN 0 ELSE CHOOSE w \in ws : \A x \in ws : x <= w

\* The oracle works with real numbers; the model's windows are in units with MaxWinM for 2^31-1.
OverflowsM(w, inc) == w > 0 /\ inc > MaxWinM - w

-----------------------------------------------------------------------------
(* outputs of one server step *)
Out0 == [rst |-> {}, goaway |-> {}, closed |-> FALSE]
Rst(o, sid, c) == [o EXCEPT !.rst = @ \cup {<<sid, c>>}]
GoAway(o, c) == [o EXCEPT !.goaway = @ \cup {c}]

\* a connection error: GOAWAY(last = highest dispatched-or-accepted id, code), then the connection ends
ConnError(vv, o, c) ==
  [v |-> [vv EXCEPT !.dead = TRUE, !.closing = TRUE, !.gaLast = IF vv.gaLast >= 0 THEN vv.gaLast ELSE vv.lastID, !.gaCode = c],
   o |-> GoAway(o, c)]

CloseStream(vv, sid, rq) ==
  [vv EXCEPT !.s[sid].st = "closed", !.s[sid].rq = rq,
             !.open = IF vv.s[sid].running THEN @ ELSE @ - 1,
             !.s[sid].abandoned = vv.s[sid].running,
             !.s[sid].pend = 0]

\* stream error: RST_STREAM(c); the stream is closed (locally reset)
StreamError(vv, o, sid, c) ==
  [v |-> IF vv.s[sid].st \in {"open", "hc"} THEN CloseStream(vv, sid, "cLocalRst")
         ELSE [vv EXCEPT !.s[sid].rq = "cLocalRst", !.s[sid].st = "closed"],
   o |-> Rst(o, sid, c)]

\* flow-controlled sending of one stream's pending response bytes (sendData)
SendData(vv, sid) ==
  LET x == vv.s[sid]
      n == Min({x.pend, Max({x.win, 0}), Max({vv.winC, 0})})
      done == x.pend - n = 0 /\ x.pendEnd
      v1 == [vv EXCEPT !.s[sid].pend = @ - n, !.s[sid].win = @ - n, !.winC = @ - n,
                       !.sent[sid] = @ + n, !.sentC = @ + n,
                       !.over = @ \/ (n > 0 /\ (n > vv.grant[sid] - vv.sent[sid] \/ n > vv.grantC - vv.sentC)),
                       !.endCnt[sid] = @ + (IF done THEN 1 ELSE 0), !.s[sid].ended = done]
  IN IF done THEN [CloseStream(v1, sid, "cEnd") EXCEPT !.s[sid].ended = TRUE] ELSE v1

\* resume every stream blocked on flow control (flushStreams)
Flush(vv) ==
  FoldLeft(LAMBDA acc, sid : IF acc.s[sid].st = "hc" /\ acc.s[sid].disp /\ ~acc.s[sid].running /\ acc.s[sid].hdrSent /\ ~acc.s[sid].ended
                              THEN SendData(acc, sid) ELSE acc,
           vv, SetToSeq(Sids))

Dispatch(vv, sid) ==
  [vv EXCEPT !.s[sid].disp = TRUE, !.s[sid].running = TRUE, !.dispCnt[sid] = @ + 1]

\* the request on sid is complete (END_STREAM and END_HEADERS seen): validate and dispatch
Complete(vv, o, sid) ==
  LET x == vv.s[sid] IN
  IF x.bad \/ (x.cl >= 0 /\ x.cl # x.recv) THEN StreamError(vv, o, sid, E_PROTO)
  ELSE [v |-> Dispatch(vv, sid), o |-> o]

-----------------------------------------------------------------------------
(* one peer frame: read loop rules, then the stream loop *)
ServerStep(vv, f, fx) ==
  LET o == Out0 IN
  IF f.ty > T_CONT THEN (IF vv.hb # 0 THEN ConnError(vv, o, E_PROTO) ELSE [v |-> vv, o |-> o])
  ELSE IF vv.hb # 0 /\ ~(f.ty = T_CONT /\ f.sid = vv.hb) THEN ConnError(vv, o, E_PROTO)
  ELSE IF f.ty = T_CONT /\ vv.hb = 0 THEN ConnError(vv, o, E_PROTO)
  ELSE IF f.sid = 0 THEN
       IF f.ty = T_SETTINGS THEN
            LET d == f.iw - vv.initWin
                over == \E i \in Sids : vv.s[i].st \in {"open", "hc"} /\ d > 0 /\ OverflowsM(vv.s[i].win, d)
            IN IF f.iw < 0 THEN [v |-> vv, o |-> o]
               ELSE IF over THEN ConnError(vv, o, E_FLOW)
               ELSE [v |-> Flush([vv EXCEPT !.initWin = f.iw,
                                            !.s = [i \in Sids |-> IF vv.s[i].st \in {"open", "hc"} THEN [vv.s[i] EXCEPT !.win = @ + d] ELSE vv.s[i]],
                                            !.grant = [i \in Sids |-> IF vv.s[i].st \in {"open", "hc"} THEN vv.grant[i] + d ELSE vv.grant[i]]]),
                     o |-> o]
       ELSE IF f.ty = T_WU THEN
            IF f.inc = 0 THEN ConnError(vv, o, E_PROTO)
            ELSE IF OverflowsM(vv.winC, f.inc) THEN ConnError(vv, o, E_FLOW)
            ELSE [v |-> Flush([vv EXCEPT !.winC = @ + f.inc, !.grantC = @ + f.inc]), o |-> o]
       ELSE IF f.ty = T_PING THEN [v |-> vv, o |-> o]
       ELSE IF f.ty = T_GOAWAY THEN [v |-> [vv EXCEPT !.dead = TRUE], o |-> [o EXCEPT !.closed = TRUE]]
       ELSE ConnError(vv, o, E_PROTO)
  ELSE IF f.sid % 2 = 0 THEN ConnError(vv, o, E_PROTO)
  ELSE IF f.ty \in {T_SETTINGS, T_PING, T_GOAWAY, T_PUSH} THEN ConnError(vv, o, E_PROTO)
  ELSE LET x == vv.s[f.sid] IN
  IF x.st = "none" THEN
       \* unknown stream
       IF f.ty = T_PRIORITY THEN (IF f.dep = f.sid THEN [v |-> vv, o |-> Rst(o, f.sid, E_PROTO)] ELSE [v |-> vv, o |-> o])
       ELSE IF f.sid < vv.lastID THEN ConnError(vv, o, E_PROTO)          \* never used, lower than the latest
       ELSE IF f.ty # T_HEADERS THEN ConnError(vv, o, E_PROTO)          \* DATA/RST/WU/CONT on idle
       ELSE IF f.dep = f.sid THEN
            [v |-> [vv EXCEPT !.lastID = f.sid, !.hb = IF f.eh THEN 0 ELSE f.sid, !.s[f.sid].st = "closed", !.s[f.sid].rq = "cLocalRst"],
             o |-> Rst(o, f.sid, E_PROTO)]
       ELSE IF vv.open >= MaxConcM \/ vv.closing THEN
            \* refused: remembered as closed, header block still consumed
            [v |-> [vv EXCEPT !.lastID = f.sid, !.hb = IF f.eh THEN 0 ELSE f.sid, !.s[f.sid].st = "closed", !.s[f.sid].rq = "cLocalRst"],
             o |-> Rst(o, f.sid, E_REFUSED)]
       ELSE
            LET v1 == [vv EXCEPT !.lastID = f.sid, !.open = @ + 1, !.hb = IF f.eh THEN 0 ELSE f.sid,
                                 !.s[f.sid] = [NoStream EXCEPT !.st = IF f.es THEN "hc" ELSE "open", !.hdrDone = f.eh, !.blkES = f.es,
                                                               !.win = vv.initWin, !.cl = fx.cl, !.bad = fx.bad,
                                                               !.rq = IF f.es THEN "hcr" ELSE "open", !.peerES = f.es],
                                 !.grant[f.sid] = vv.initWin]
            IN IF f.es /\ f.eh THEN Complete(v1, o, f.sid) ELSE [v |-> v1, o |-> o]
  ELSE IF f.ty = T_PRIORITY THEN
       IF f.dep = f.sid THEN (IF x.st = "closed" THEN [v |-> vv, o |-> Rst(o, f.sid, E_PROTO)] ELSE StreamError(vv, o, f.sid, E_PROTO))
       ELSE [v |-> vv, o |-> o]
  ELSE IF x.st = "closed" THEN
       \* closed-stream memory: late control frames are ignored; frames in flight after OUR reset are ignored
       IF f.ty \in {T_WU, T_RST} THEN [v |-> vv, o |-> o]
       ELSE IF x.rq = "cLocalRst" THEN [v |-> [vv EXCEPT !.hb = IF f.ty = T_HEADERS /\ ~f.eh THEN f.sid ELSE IF f.ty = T_CONT /\ f.eh THEN 0 ELSE vv.hb], o |-> o]
       ELSE IF x.rq = "cPeerRst" THEN [v |-> [vv EXCEPT !.hb = IF f.ty = T_HEADERS /\ ~f.eh THEN f.sid ELSE IF f.ty = T_CONT /\ f.eh THEN 0 ELSE vv.hb],
                                            o |-> Rst(o, f.sid, E_CLOSED)]
       ELSE ConnError(vv, o, E_CLOSED)
  ELSE IF f.ty = T_RST THEN [v |-> CloseStream(vv, f.sid, "cPeerRst"), o |-> o]
  ELSE IF f.ty = T_WU THEN
       IF f.inc = 0 THEN StreamError(vv, o, f.sid, E_PROTO)
       ELSE IF OverflowsM(x.win, f.inc) THEN StreamError(vv, o, f.sid, E_FLOW)
       ELSE LET v1 == [vv EXCEPT !.s[f.sid].win = @ + f.inc, !.grant[f.sid] = @ + f.inc] IN
            [v |-> IF x.st = "hc" /\ x.disp /\ ~x.running /\ x.hdrSent /\ ~x.ended THEN SendData(v1, f.sid) ELSE v1, o |-> o]
  ELSE IF f.ty = T_CONT THEN
       \* continuation of the block opened on this stream (hb = sid was checked above)
       LET v1 == [vv EXCEPT !.hb = IF f.eh THEN 0 ELSE vv.hb, !.s[f.sid].hdrDone = IF x.trailer THEN @ ELSE f.eh,
                            !.s[f.sid].trailer = IF f.eh THEN FALSE ELSE @]
           y == v1.s[f.sid]
       IN IF f.eh /\ y.st = "hc" /\ ~y.disp THEN Complete(v1, o, f.sid) ELSE [v |-> v1, o |-> o]
  ELSE IF f.ty = T_HEADERS THEN
       \* a second header block: trailers (legal only on an open stream, and only with END_STREAM)
       IF x.st = "hc" THEN StreamError([vv EXCEPT !.hb = IF f.eh THEN 0 ELSE f.sid], o, f.sid, E_CLOSED)
       ELSE IF ~f.es THEN StreamError([vv EXCEPT !.hb = IF f.eh THEN 0 ELSE f.sid], o, f.sid, E_PROTO)
       ELSE LET v1 == [vv EXCEPT !.hb = IF f.eh THEN 0 ELSE f.sid, !.s[f.sid].st = "hc", !.s[f.sid].rq = "hcr",
                                 !.s[f.sid].trailer = ~f.eh, !.s[f.sid].peerES = TRUE]
            IN IF f.eh THEN Complete(v1, o, f.sid) ELSE [v |-> v1, o |-> o]
  ELSE \* DATA
       IF x.st = "hc" THEN StreamError(vv, o, f.sid, E_CLOSED)
       ELSE IF x.recv + f.len > MaxBodyM THEN StreamError(vv, o, f.sid, E_CALM)
       ELSE LET v1 == [vv EXCEPT !.s[f.sid].recv = @ + f.len,
                                 !.s[f.sid].st = IF f.es THEN "hc" ELSE "open",
                                 !.s[f.sid].rq = IF f.es THEN "hcr" ELSE "open", !.s[f.sid].peerES = f.es]
            IN IF f.es THEN Complete(v1, o, f.sid) ELSE [v |-> v1, o |-> o]

\* Allowed set for frame f in the state BEFORE the step, from the oracle
AllowedM(vv, f, fx) ==
  LET sid == f.sid
      q == IF sid \in Sids THEN (IF vv.s[sid].rq # "idle" THEN vv.s[sid].rq ELSE IF sid > vv.lastID THEN "idle" ELSE "cImpl")
           ELSE IF sid > vv.lastID THEN "idle" ELSE "cImpl"
      c == [hb |-> vv.hb, maxSid |-> vv.lastID, maxFrame |-> 16384, winC |-> vv.winC * (MaxWin \div MaxWinM),
            maxStrWin |-> MaxStrWinM(vv) * (MaxWin \div MaxWinM), iw |-> vv.initWin * (MaxWin \div MaxWinM)]
      s == [win |-> (IF sid \in Sids THEN vv.s[sid].win ELSE 0) * (MaxWin \div MaxWinM),
            refuse |-> Cardinality(ActiveSlots(vv)) >= MaxConcM, closing |-> vv.closing]
      fr == [f EXCEPT !.inc = f.inc * (MaxWin \div MaxWinM), !.iw = IF f.iw < 0 THEN -1 ELSE f.iw * (MaxWin \div MaxWinM)]
      extra == (IF fx.bad \/ (sid \in Sids /\ vv.s[sid].bad) \/ fx.clbad THEN {SE(E_PROTO), RESP4} ELSE {}) \cup
               (IF fx.big THEN {SE(AnyCode), RESP4} ELSE {})
  IN Allowed(fr, q, c, s) \cup extra

-----------------------------------------------------------------------------
(* environment *)
NoFx == [cl |-> -1, bad |-> FALSE, clbad |-> FALSE, big |-> FALSE]

Ev(op, sid, a, b, es, eh) == [op |-> op, sid |-> sid, a |-> a, b |-> b, es |-> es, eh |-> eh]

\* would this frame make the declared content-length wrong / the body too big ?
FxOf(vv, f, cl, bad) ==
  LET x == IF f.sid \in Sids THEN vv.s[f.sid] ELSE NoStream
      body == x.recv + (IF f.ty = T_DATA THEN f.len ELSE 0)
      cl1 == IF f.ty = T_HEADERS /\ x.st = "none" THEN cl ELSE x.cl
  IN [cl |-> cl, bad |-> bad,
      clbad |-> ((f.es /\ f.ty \in {T_DATA, T_HEADERS}) \/ (f.ty = T_CONT /\ f.eh /\ x.peerES)) /\ cl1 >= 0 /\ cl1 # body,
      big |-> f.ty = T_DATA /\ body > MaxBodyM]

\* C14, connection level.  Every DATA octet the peer sends spends its credit, whatever becomes of the frame; the server
\* counts it against its receive window and, when less than half of that is left, hands the used part back in one
\* WINDOW_UPDATE.  "defect-nocredit" in Ops = the seeded changes C14-1 / C09-2 / C14-4: a frame that is dropped (stream
\* closed, reset, over the body limit) is not counted, so what it spent never comes back.
Credit(before, after, f) ==
  IF "credit" \notin Ops \/ f.ty # T_DATA THEN after
  ELSE LET x == IF f.sid \in Sids THEN before.s[f.sid] ELSE NoStream
           dropped == x.st # "open" \/ x.recv + f.len > MaxBodyM
           counted == ~("defect-nocredit" \in Ops /\ dropped)
           rc == IF counted THEN before.recvC - f.len ELSE before.recvC
           cc == before.credC - f.len
           \* stream level: an accepted frame that does not end the stream is handed back in full, at once
           back == IF dropped \/ f.es \/ "defect-nostreamcredit" \in Ops THEN 0 ELSE f.len
           a2 == IF f.sid \in Sids /\ x.st = "open" THEN [after EXCEPT !.credS[f.sid] = @ - f.len + back] ELSE after
       IN IF rc < RecvWinM \div 2 THEN [a2 EXCEPT !.recvC = RecvWinM, !.credC = cc + (RecvWinM - rc)]
          ELSE [a2 EXCEPT !.recvC = rc, !.credC = cc]

Take(f, fx, ev) ==
  /\ ~v.dead
  /\ v.nf < MaxFrames
  /\ ("credit" \in Ops /\ f.ty = T_DATA => /\ f.len <= v.credC        \* the peer is a conforming sender
                                             /\ (f.sid \in Sids /\ v.s[f.sid].st = "open" => f.len <= v.credS[f.sid]))
  /\ LET al == AllowedM(v, f, fx)
         r == ServerStep(v, f, fx)
     IN v' = [Credit(v, r.v, f) EXCEPT !.lf = [ty |-> f.ty, sid |-> f.sid], !.allowed = al, !.obs = r.o, !.judged = TRUE, !.nf = v.nf + 1]
  /\ hist' = Append(hist, ev)

\* "wf" in Ops restricts the peer to well-formed traffic: legal frame sequences per stream, increasing ids,
\* at most MaxConcM concurrent streams, bodies within the limit and equal to a declared content-length.
WF == "wf" \in Ops
WfHeaders(sid, es, eh, cl) ==
  LET x == v.s[sid] IN
  /\ v.hb = 0
  /\ IF x.st = "none" THEN sid > v.lastID /\ v.open < MaxConcM /\ ~v.closing /\ (es => cl <= 0)
     ELSE x.st = "open" /\ x.hdrDone /\ es /\ cl = -1 /\ (x.cl < 0 \/ x.cl = x.recv)
WfData(sid, n, es) ==
  LET x == v.s[sid] IN
  /\ v.hb = 0 /\ x.st = "open" /\ x.hdrDone /\ x.recv + n <= MaxBodyM
  /\ (x.cl >= 0 => (IF es THEN x.cl = x.recv + n ELSE x.recv + n <= x.cl))

PeerHeaders == \E sid \in Sids, es \in BOOLEAN, eh \in BOOLEAN, k \in {"ok", "bad", "cl1", "cl3"} :
  /\ "hdr" \in Ops
  /\ (WF => WfHeaders(sid, es, eh, IF k = "cl1" THEN 1 ELSE IF k = "cl3" THEN 3 ELSE -1))
  /\ (k = "bad" => "bad" \in Ops) /\ (k \in {"cl1", "cl3"} => "cl" \in Ops) /\ (~eh => "cont" \in Ops)
  /\ LET f == Frame(T_HEADERS, sid, es, eh, 0, -1, 1)
         cl == IF k = "cl1" THEN 1 ELSE IF k = "cl3" THEN 3 ELSE -1
         fx == FxOf(v, f, cl, k = "bad")
     IN Take(f, fx, Ev("hdr", sid, cl, IF k = "bad" THEN 1 ELSE 0, es, eh))

PeerCont == \E sid \in Sids, eh \in BOOLEAN :
  /\ "cont" \in Ops
  /\ (WF => v.hb = sid)
  /\ LET f == Frame(T_CONT, sid, FALSE, eh, 0, -1, 1) IN Take(f, FxOf(v, f, -1, FALSE), Ev("cont", sid, 0, 0, FALSE, eh))

PeerData == \E sid \in Sids, n \in {0, 1, 2}, es \in BOOLEAN :
  /\ "data" \in Ops
  /\ (WF => WfData(sid, n, es))
  /\ LET f == Frame(T_DATA, sid, es, FALSE, 0, -1, n) IN Take(f, FxOf(v, f, -1, FALSE), Ev("data", sid, n, 0, es, FALSE))

PeerRst == \E sid \in Sids :
  /\ "rst" \in Ops
  /\ Take(Frame(T_RST, sid, FALSE, FALSE, 0, -1, 4), NoFx, Ev("rst", sid, 8, 0, FALSE, FALSE))

PeerWU == \E sid \in Sids \cup {0}, inc \in {0, 1, 3, MaxWinM} :
  /\ "wu" \in Ops
  /\ (inc \in {0, MaxWinM} => "wubad" \in Ops)
  /\ (WF => v.hb = 0 /\ (IF sid = 0 THEN TRUE ELSE v.s[sid].st \in {"open", "hc"}))
  /\ Take(Frame(T_WU, sid, FALSE, FALSE, inc, -1, 4), NoFx, Ev("wu", sid, inc, 0, FALSE, FALSE))

PeerPrio == \E sid \in Sids, self \in BOOLEAN :
  /\ "prio" \in Ops
  /\ Take(Frame(T_PRIORITY, sid, FALSE, FALSE, 0, IF self THEN sid ELSE 0, 5), NoFx, Ev("prio", sid, 0, IF self THEN 1 ELSE 0, FALSE, FALSE))

PeerSettings == \E iw \in {0, 1, InitWinM, InitWinM + 2, MaxWinM} :
  /\ "settings" \in Ops
  /\ (WF => v.hb = 0 /\ iw < MaxWinM)
  /\ Take([Frame(T_SETTINGS, 0, FALSE, FALSE, 0, -1, 6) EXCEPT !.iw = iw], NoFx, Ev("settings", 0, iw, 0, FALSE, FALSE))

PeerMisc == \E k \in {"ping", "unknown", "even", "pingsid", "data0"} :
  /\ "misc" \in Ops
  /\ LET f == CASE k = "ping" -> Frame(T_PING, 0, FALSE, FALSE, 0, -1, 8)
                [] k = "unknown" -> Frame(11, 0, FALSE, FALSE, 0, -1, 3)
                [] k = "even" -> Frame(T_HEADERS, 2, TRUE, TRUE, 0, -1, 1)
                [] k = "pingsid" -> Frame(T_PING, 1, FALSE, FALSE, 0, -1, 8)
                [] k = "data0" -> Frame(T_DATA, 0, FALSE, FALSE, 0, -1, 1)
     IN Take(f, NoFx, Ev(k, f.sid, 0, 0, FALSE, FALSE))

\* a handler returns: response of n units, buffered (k=0), streamed with declared length (1) or unknown length (2)
Finish == \E sid \in Sids, n \in RespSizes, k \in {0, 1, 2} :
  /\ "finish" \in Ops
  /\ ~v.dead
  /\ v.nf < MaxFrames
  /\ v.s[sid].running
  /\ LET x == v.s[sid]
         v1 == IF x.abandoned
               THEN [v EXCEPT !.s[sid].running = FALSE, !.s[sid].abandoned = FALSE, !.open = @ - 1]
               ELSE LET v2 == [v EXCEPT !.s[sid].running = FALSE, !.s[sid].hdrSent = TRUE, !.s[sid].pend = n,
                                        !.s[sid].pendEnd = TRUE, !.s[sid].replyN = n]
                    IN SendData(v2, sid)
     IN v' = [v1 EXCEPT !.judged = FALSE, !.obs = Out0, !.nf = v.nf + 1]
  /\ hist' = Append(hist, Ev("finish", sid, n, k, FALSE, FALSE))

Init == v = V0 /\ hist = <<>>
Next == PeerHeaders \/ PeerCont \/ PeerData \/ PeerRst \/ PeerWU \/ PeerPrio \/ PeerSettings \/ PeerMisc \/ Finish
Spec == Init /\ [][Next]_vars

View == v

-----------------------------------------------------------------------------
(* properties (ids refer to DESIGN.md section 6) *)
C08_Reaction == v.judged => ReactionOK(v.lf, v.obs, v.allowed)
C01_DispatchOnce == \A i \in Sids : v.dispCnt[i] <= 1
C01_DispatchLegal == \A i \in Sids : v.s[i].disp => (v.s[i].peerES /\ v.s[i].hdrDone /\ ~v.s[i].bad /\ (v.s[i].cl < 0 \/ v.s[i].cl = v.s[i].recv))
C01_EndOnce == \A i \in Sids : v.endCnt[i] <= 1
\* at the moment of every send the bytes fit what had been granted so far (a later
\* SETTINGS decrease may legitimately leave sent > grant: that is the negative window)
C06_StreamLedger == ~v.over
C06_ConnLedger == v.sentC <= v.grantC
C06_WinIsLedger == v.winC = v.grantC - v.sentC /\ \A i \in Sids : v.s[i].st \in {"open", "hc"} => v.s[i].win = v.grant[i] - v.sent[i]
\* no response is left blocked while both windows are open
C06_NoStall == ~v.dead => \A i \in Sids :
     (v.s[i].st = "hc" /\ v.s[i].hdrSent /\ ~v.s[i].running /\ v.s[i].pend > 0) => (v.s[i].win <= 0 \/ v.winC <= 0)
C10_GoAwayTruth == v.gaLast >= 0 => \A i \in Sids : v.dispCnt[i] > 0 => i <= v.gaLast
\* C14: a conforming sender is never left without connection credit
C14_ConnCredit == ("credit" \in Ops /\ ~v.dead) => v.credC >= 1
C14_StreamCredit == ("credit" \in Ops /\ ~v.dead) =>
                      \A i \in Sids : (v.s[i].st = "open" /\ ~v.s[i].peerES /\ ~v.s[i].bad) => v.credS[i] >= 1
C13_Slots == Cardinality(Running(v)) <= MaxConcM /\ v.open <= MaxConcM /\ v.open >= 0
C13_OpenIsSlots == v.open = Cardinality({i \in Sids : v.s[i].st \in {"open", "hc"} \/ v.s[i].running})

\* scenario output: one history per new abstract state (state constraint is evaluated once per distinct state)
EmitState == \/ hist = <<>>
             \/ EmitOneIn = 0
             \/ (EmitOneIn > 1 /\ RandomElement(1..EmitOneIn) # 1)
             \/ PrintT("SCEN " \o ToJson(hist))
=============================================================================
