SPECIFICATION Spec
CONSTANT Defects = {}
INVARIANTS NoUseAfterHandBack NoUseAcrossGenerations OneOutcome
CHECK_DEADLOCK FALSE
