---------------------------- MODULE HpackWire ----------------------------
(* RFC 7541 sections 5 and 6 on BYTES: prefix integers, string literals,    *)
(* and the five field representations.  Pure operators over byte strings    *)
(* (sequences of 0..255); string literals use Huffman.tla.                  *)
(*                                                                          *)
(* An instruction is the record                                             *)
(*   [kind  : "indexed" | "litinc" | "litnoidx" | "litnever" | "sizeupdate",*)
(*    index : indexed: the index; literal: name index (0 = literal name);   *)
(*            sizeupdate: the new maximum size,                             *)
(*    name, value : byte strings (name = <<>> when the name is indexed),    *)
(*    hn, hv : BOOLEAN  Huffman flag of the name / value string literal]    *)
(*                                                                          *)
(* Style: every loop is a FoldLeft with an accumulator record (TLC does not *)
(* cache the arguments of RECURSIVE operators).  TLC integers are 32 bit:   *)
(* a prefix integer saturates at HUGE - any such value is past every table, *)
(* every block and every limit, so the verdict is the same as for the true  *)
(* value.                                                                   *)
EXTENDS Huffman

HUGE == 1073741824          \* 2^30, saturated value

P2 == <<1, 2, 4, 8, 16, 32, 64, 128, 256>>      \* P2[n+1] = 2^n
PMax(n) == P2[n + 1] - 1                         \* 2^n - 1, all ones in an n-bit prefix

MinI(a, b) == IF a < b THEN a ELSE b

-----------------------------------------------------------------------------
(* 5.1 integer representation                                               *)

ContStep(a, x) ==
  IF a.done THEN a
  ELSE IF a.r < 128 THEN [r |-> 0, out |-> Append(a.out, a.r), done |-> TRUE]
  ELSE [r |-> a.r \div 128, out |-> Append(a.out, 128 + (a.r % 128)), done |-> FALSE]

\* EncInt(n, flags, v): v with an n-bit prefix; `flags` are the bits above the prefix.
EncInt(n, flags, v) ==
  IF v < PMax(n) THEN << flags + v >>
  ELSE << flags + PMax(n) >> \o FoldLeft(ContStep, [r |-> v - PMax(n), out |-> <<>>, done |-> FALSE], <<1, 2, 3, 4, 5>>).out

Mul == <<1, 128, 16384, 2097152>>

\* Continuation bytes: least significant group first.  The fifth and later groups
\* (2^28 and up) saturate when they carry anything.
IntStep(a, x) ==
  IF a.done THEN a
  ELSE LET pl == x % 128 IN
       [done |-> x < 128,
        k    |-> a.k + 1,
        v    |-> IF pl = 0 THEN a.v
                 ELSE IF a.k >= 4 \/ a.v = HUGE THEN HUGE
                 ELSE a.v + pl * Mul[a.k + 1]]

MaxCont == 9   \* implementation limit on the octet length (RFC 7541 5.1 last paragraph): nine
               \* continuation octets carry 63 bits; an integer that still continues is an error.

\* ParseInt(b, pos, n) -> [st: "ok" | "trunc" | "intoverflow", v, next]
ParseInt(b, pos, n) ==
  IF pos > Len(b) THEN [st |-> "trunc", v |-> 0, next |-> pos]
  ELSE LET p == b[pos] % P2[n + 1] IN
    IF p < PMax(n) THEN [st |-> "ok", v |-> p, next |-> pos + 1]
    ELSE LET r == FoldLeft(IntStep, [done |-> FALSE, k |-> 0, v |-> p],
                           SubSeq(b, pos + 1, MinI(Len(b), pos + MaxCont))) IN
      IF r.done THEN [st |-> "ok", v |-> r.v, next |-> pos + 1 + r.k]
      ELSE IF r.k >= MaxCont THEN [st |-> "intoverflow", v |-> 0, next |-> pos]
      ELSE [st |-> "trunc", v |-> 0, next |-> pos]

-----------------------------------------------------------------------------
(* 5.2 string literals                                                      *)

EncStr(s, h) ==
  IF h THEN LET e == Encode(s) IN EncInt(7, 128, Len(e)) \o e
  ELSE EncInt(7, 0, Len(s)) \o s

\* ParseStr(b, pos) -> [st: "ok" | "trunc" | "intoverflow" | "badhuff", s, h, next]
ParseStr(b, pos) ==
  LET l == ParseInt(b, pos, 7) IN
  IF l.st # "ok" THEN [st |-> l.st, s |-> <<>>, h |-> FALSE, next |-> pos]
  ELSE IF l.v > Len(b) - l.next + 1 THEN [st |-> "trunc", s |-> <<>>, h |-> FALSE, next |-> pos]
  ELSE LET raw == SubSeq(b, l.next, l.next + l.v - 1)
           h   == b[pos] >= 128 IN
    IF ~h THEN [st |-> "ok", s |-> raw, h |-> FALSE, next |-> l.next + l.v]
    ELSE LET d == Decode(raw) IN
      IF d.ok THEN [st |-> "ok", s |-> d.out, h |-> TRUE, next |-> l.next + l.v]
      ELSE [st |-> "badhuff", s |-> <<>>, h |-> TRUE, next |-> pos]

-----------------------------------------------------------------------------
(* 6 binary format                                                          *)

NoIns == [kind |-> "none", index |-> 0, name |-> <<>>, value |-> <<>>, hn |-> FALSE, hv |-> FALSE]

Indexed(i)            == [kind |-> "indexed", index |-> i, name |-> <<>>, value |-> <<>>, hn |-> FALSE, hv |-> FALSE]
SizeUpdate(n)         == [kind |-> "sizeupdate", index |-> n, name |-> <<>>, value |-> <<>>, hn |-> FALSE, hv |-> FALSE]
Lit(k, i, nm, hn, v, hv) == [kind |-> k, index |-> i, name |-> nm, value |-> v, hn |-> hn, hv |-> hv]

IsLit(k) == k \in {"litinc", "litnoidx", "litnever"}

\* result of ParseIns: st = "ok" or the error class ("trunc", "intoverflow", "badhuff", "index0");
\* c = first octet of the representation; coll = the first octet of the value string literal
\* equals c (only meaningful for literals; used by defect signatures, not by the semantics).
PRes(st, ins, next, c, coll) == [st |-> st, ins |-> ins, next |-> next, c |-> c, coll |-> coll]

ParseLit(b, pos, kind, n) ==
  LET c == b[pos]
      i == ParseInt(b, pos, n) IN
  IF i.st # "ok" THEN PRes(i.st, NoIns, pos, c, FALSE)
  ELSE LET nm == IF i.v = 0 THEN ParseStr(b, i.next)
                 ELSE [st |-> "ok", s |-> <<>>, h |-> FALSE, next |-> i.next] IN
    IF nm.st # "ok" THEN PRes(nm.st, NoIns, pos, c, FALSE)
    ELSE LET coll == nm.next <= Len(b) /\ b[nm.next] = c
             v == ParseStr(b, nm.next) IN
      IF v.st # "ok" THEN PRes(v.st, NoIns, pos, c, coll)
      ELSE PRes("ok", Lit(kind, i.v, nm.s, nm.h, v.s, v.h), v.next, c, coll)

\* ParseIns(b, pos): one representation starting at b[pos] (1 <= pos <= Len(b)).
\* A representation cut short by the end of b is "trunc" (the fragment API's "need more").
ParseIns(b, pos) ==
  LET c == b[pos] IN
  IF c >= 128 THEN
    LET i == ParseInt(b, pos, 7) IN
    IF i.st # "ok" THEN PRes(i.st, NoIns, pos, c, FALSE)
    ELSE IF i.v = 0 THEN PRes("index0", NoIns, pos, c, FALSE)
    ELSE PRes("ok", Indexed(i.v), i.next, c, FALSE)
  ELSE IF c >= 64 THEN ParseLit(b, pos, "litinc", 6)
  ELSE IF c >= 32 THEN
    LET i == ParseInt(b, pos, 5) IN
    IF i.st # "ok" THEN PRes(i.st, NoIns, pos, c, FALSE)
    ELSE PRes("ok", SizeUpdate(i.v), i.next, c, FALSE)
  ELSE IF c >= 16 THEN ParseLit(b, pos, "litnever", 4)
  ELSE ParseLit(b, pos, "litnoidx", 4)

\* The serializer (canonical: shortest integers).
LitBytes(n, flags, ins) ==
  EncInt(n, flags, ins.index)
    \o (IF ins.index = 0 THEN EncStr(ins.name, ins.hn) ELSE <<>>)
    \o EncStr(ins.value, ins.hv)

InsBytes(ins) ==
  CASE ins.kind = "indexed"    -> EncInt(7, 128, ins.index)
    [] ins.kind = "litinc"     -> LitBytes(6, 64, ins)
    [] ins.kind = "sizeupdate" -> EncInt(5, 32, ins.index)
    [] ins.kind = "litnever"   -> LitBytes(4, 16, ins)
    [] ins.kind = "litnoidx"   -> LitBytes(4, 0, ins)

-----------------------------------------------------------------------------
(* RFC 7541 Appendix C examples, evaluated once (ASSUME).                   *)
ASSUME EncInt(5, 0, 10) = <<10>>
ASSUME EncInt(5, 0, 1337) = <<31, 154, 10>>
ASSUME EncInt(8, 0, 42) = <<42>>
ASSUME EncInt(7, 128, 127) = <<255, 0>>
ASSUME ParseInt(<<31, 154, 10>>, 1, 5) = [st |-> "ok", v |-> 1337, next |-> 4]
ASSUME ParseInt(<<255, 0, 7>>, 1, 7) = [st |-> "ok", v |-> 127, next |-> 3]
ASSUME ParseInt(<<31, 154>>, 1, 5).st = "trunc"
ASSUME ParseInt(<<31, 128, 128, 128, 128, 128, 128, 128, 128, 128, 0>>, 1, 5).st = "intoverflow"
ASSUME ParseInt(<<31, 128, 128, 128, 128, 128, 128, 128, 128, 0>>, 1, 5).v = 31
ASSUME ParseInt(<<31, 128, 128, 128, 128, 1>>, 1, 5).v = HUGE
\* C.2.1  custom-key: custom-header, literal with indexing
ASSUME ParseIns(<<64, 10, 99, 117, 115, 116, 111, 109, 45, 107, 101, 121, 13, 99, 117, 115, 116, 111, 109, 45, 104, 101, 97, 100, 101, 114>>, 1).ins
         = Lit("litinc", 0, <<99, 117, 115, 116, 111, 109, 45, 107, 101, 121>>, FALSE,
               <<99, 117, 115, 116, 111, 109, 45, 104, 101, 97, 100, 101, 114>>, FALSE)
\* C.2.2  :path: /sample/path without indexing;  C.2.3 password: secret never indexed;  C.2.4 :method GET
ASSUME ParseIns(<<4, 12, 47, 115, 97, 109, 112, 108, 101, 47, 112, 97, 116, 104>>, 1).ins
         = Lit("litnoidx", 4, <<>>, FALSE, <<47, 115, 97, 109, 112, 108, 101, 47, 112, 97, 116, 104>>, FALSE)
ASSUME ParseIns(<<16, 8, 112, 97, 115, 115, 119, 111, 114, 100, 6, 115, 101, 99, 114, 101, 116>>, 1).ins.kind = "litnever"
ASSUME ParseIns(<<130>>, 1) = PRes("ok", Indexed(2), 2, 130, FALSE)
\* C.4.1  :authority www.example.com Huffman coded
ASSUME LET p == ParseIns(<<65, 140, 241, 227, 194, 229, 242, 58, 107, 160, 171, 144, 244, 255>>, 1) IN
         /\ p.st = "ok" /\ p.ins.index = 1 /\ p.ins.hv
         /\ p.ins.value = <<119, 119, 119, 46, 101, 120, 97, 109, 112, 108, 101, 46, 99, 111, 109>>
         /\ InsBytes(p.ins) = <<65, 140, 241, 227, 194, 229, 242, 58, 107, 160, 171, 144, 244, 255>>
ASSUME ParseIns(<<128>>, 1).st = "index0"
ASSUME ParseIns(<<63, 225, 31>>, 1).ins = SizeUpdate(4096)
ASSUME InsBytes(SizeUpdate(4096)) = <<63, 225, 31>>
=============================================================================
