------------------------------ MODULE Hpack ------------------------------
(* RFC 7541 sections 2-4 and 6 on INSTRUCTIONS: the decoding context (one   *)
(* per connection direction) and what each representation does to it.       *)
(*                                                                          *)
(* State:  [dyn   : dynamic table, NEWEST FIRST, entries <<name, value>>,   *)
(*          size  : sum of entry sizes (name + value + 32, section 4.1),    *)
(*          max   : current maximum size (changed by size updates),         *)
(*          limit : the SETTINGS_HEADER_TABLE_SIZE the decoder advertised]  *)
(*                                                                          *)
(* Apply(st, ins, canUpdate) -> [ok, cls, st, emit] : emit is <<>> or       *)
(* << <<name, value, sensitive>> >>; canUpdate says that no field           *)
(* representation has been seen yet in this header block (4.2: a size       *)
(* update is only allowed there).  Error classes: "index0", "indexrange",   *)
(* "updatelimit", "updateafterfield".                                       *)
(* DecodeBlock(st, bytes) composes HpackWire!ParseIns with Apply over one   *)
(* complete header block.                                                   *)
EXTENDS HpackWire, HpackStatic

StaticLen == 61
ASSUME Len(Static) = StaticLen

EntrySize(e) == Len(e[1]) + Len(e[2]) + 32
TableSize(dyn) == FoldLeft(LAMBDA a, e : a + EntrySize(e), 0, dyn)

InitState(limit) == [dyn |-> <<>>, size |-> 0, max |-> limit, limit |-> limit]

\* 2.3.3 index address space
HasIndex(st, i) == i >= 1 /\ i <= StaticLen + Len(st.dyn)
Entry(st, i) == IF i <= StaticLen THEN Static[i] ELSE st.dyn[i - StaticLen]

\* 4.3 / 4.4: entries are evicted from the END (oldest) until size <= max: what stays
\* is the longest newest-first prefix that fits.
KeepStep(a, e, max) ==
  IF a.stop \/ a.size + EntrySize(e) > max THEN [a EXCEPT !.stop = TRUE]
  ELSE [keep |-> Append(a.keep, e), size |-> a.size + EntrySize(e), stop |-> FALSE]

Fit(dyn, max) == FoldLeft(LAMBDA a, e : KeepStep(a, e, max), [keep |-> <<>>, size |-> 0, stop |-> FALSE], dyn)

Resize(st, n) == LET f == Fit(st.dyn, n) IN [st EXCEPT !.dyn = f.keep, !.size = f.size, !.max = n]

\* 4.4: evict until the new entry fits, then add it; an entry larger than max empties the table.
\* (<<e>> \o dyn cut to max is exactly that: if e alone does not fit nothing is kept.)
Insert(st, e) == LET f == Fit(<<e>> \o st.dyn, st.max) IN [st EXCEPT !.dyn = f.keep, !.size = f.size]

ARes(ok, cls, st, emit) == [ok |-> ok, cls |-> cls, st |-> st, emit |-> emit]

Apply(st, ins, canUpdate) ==
  CASE ins.kind = "indexed" ->
         IF ins.index = 0 THEN ARes(FALSE, "index0", st, <<>>)
         ELSE IF ~HasIndex(st, ins.index) THEN ARes(FALSE, "indexrange", st, <<>>)
         ELSE LET e == Entry(st, ins.index) IN ARes(TRUE, "", st, << <<e[1], e[2], FALSE>> >>)
    [] ins.kind = "sizeupdate" ->
         IF ~canUpdate THEN ARes(FALSE, "updateafterfield", st, <<>>)
         ELSE IF ins.index > st.limit THEN ARes(FALSE, "updatelimit", st, <<>>)
         ELSE ARes(TRUE, "", Resize(st, ins.index), <<>>)
    [] OTHER ->   \* the three literal representations
         IF ins.index # 0 /\ ~HasIndex(st, ins.index) THEN ARes(FALSE, "indexrange", st, <<>>)
         ELSE LET nm == IF ins.index = 0 THEN ins.name ELSE Entry(st, ins.index)[1]   \* name resolved BEFORE eviction
                  st2 == IF ins.kind = "litinc" THEN Insert(st, <<nm, ins.value>>) ELSE st IN
              ARes(TRUE, "", st2, << <<nm, ins.value, ins.kind = "litnever">> >>)

-----------------------------------------------------------------------------
(* One complete header block.  The fold runs over byte positions (a block   *)
(* of n octets has at most n representations) and stops at the first error. *)
(* Besides the semantic result it records, per emitted field, what the      *)
(* defect signatures of HpackTrace need: the state before the               *)
(* representation, whether its value-length octet collides with its first   *)
(* octet, whether a never-indexed literal came earlier in the block.        *)

Block0(st) == [st |-> st, pos |-> 1, out |-> <<>>, meta |-> <<>>, cls |-> "", stop |-> FALSE,
               canupd |-> TRUE, upd |-> <<>>, trail |-> FALSE, never |-> FALSE, anycoll |-> FALSE,
               fail |-> PRes("none", NoIns, 0, 0, FALSE), nins |-> 0]

BlockStep(a, b) ==
  IF a.stop \/ a.pos > Len(b) THEN a
  ELSE LET p == ParseIns(b, a.pos) IN
    IF p.st # "ok" THEN [a EXCEPT !.stop = TRUE, !.cls = p.st, !.fail = p, !.anycoll = @ \/ p.coll]
    ELSE LET r == Apply(a.st, p.ins, a.canupd) IN
      IF ~r.ok THEN [a EXCEPT !.stop = TRUE, !.cls = r.cls, !.fail = p, !.anycoll = @ \/ p.coll]
      ELSE LET isupd == p.ins.kind = "sizeupdate" IN
        [st |-> r.st, pos |-> p.next, out |-> a.out \o r.emit,
         meta |-> IF isupd THEN a.meta
                  ELSE Append(a.meta, [st |-> a.st, after |-> r.st, coll |-> p.coll, anycoll |-> a.anycoll \/ p.coll,
                                       never |-> a.never, kind |-> p.ins.kind, c |-> p.c, ins |-> p.ins]),
         cls |-> "", stop |-> FALSE,
         canupd |-> a.canupd /\ isupd,
         upd |-> IF isupd THEN Append(a.upd, p.ins.index) ELSE a.upd,
         trail |-> isupd, never |-> a.never \/ p.ins.kind = "litnever",
         anycoll |-> a.anycoll \/ p.coll, fail |-> a.fail, nins |-> a.nins + 1]

DecodeBlock(st, b) == FoldLeft(LAMBDA a, x : BlockStep(a, b), Block0(st), b)

-----------------------------------------------------------------------------
(* RFC 7541 Appendix C.3 (requests without Huffman), evaluated once.        *)
Str(s) == s   \* documentation only: byte strings are written as tuples
C31 == <<130, 134, 132, 65, 15, 119, 119, 119, 46, 101, 120, 97, 109, 112, 108, 101, 46, 99, 111, 109>>
C32 == <<130, 134, 132, 190, 88, 8, 110, 111, 45, 99, 97, 99, 104, 101>>
ASSUME LET d1 == DecodeBlock(InitState(4096), C31)
           d2 == DecodeBlock(d1.st, C32) IN
  /\ d1.cls = "" /\ Len(d1.out) = 4 /\ d1.st.size = 57
  /\ d1.out[1] = <<Static[2][1], Static[2][2], FALSE>>
  /\ d2.cls = "" /\ Len(d2.out) = 5 /\ d2.st.size = 110
  /\ d2.out[4] = d1.out[4]
  /\ d2.st.dyn[1] = << <<99, 97, 99, 104, 101, 45, 99, 111, 110, 116, 114, 111, 108>>, <<110, 111, 45, 99, 97, 99, 104, 101>> >>
ASSUME DecodeBlock(InitState(4096), <<130, 32>>).cls = "updateafterfield"
ASSUME DecodeBlock(InitState(64), <<63, 34>>).cls = "updatelimit"
ASSUME DecodeBlock(InitState(4096), <<190>>).cls = "indexrange"
ASSUME DecodeBlock(InitState(4096), <<32, 63, 225, 31, 130>>).upd = <<0, 4096>>
=============================================================================
