SPECIFICATION Spec
CONSTANTS
  Sids = {1, 3, 5}
  MaxConcM = 3
  InitWinM = 2
  ConnWinM = 5
  MaxWinM = 8
  MaxBodyM = 3
  RespSizes = {3, 7}
  MaxFrames = 8
  Ops = {"wf", "hdr", "wu", "settings", "finish"}
  EmitOneIn = 1
VIEW View
INVARIANTS C08_Reaction C01_DispatchOnce C01_DispatchLegal C01_EndOnce C06_StreamLedger C06_ConnLedger C06_WinIsLedger C06_NoStall C10_GoAwayTruth C13_Slots C13_OpenIsSlots
CONSTRAINT EmitState
CHECK_DEADLOCK FALSE
