SPECIFICATION Spec
CONSTANTS
  ReaderCap = 2
  WriterCap = 2
  MaxWire = 4
  MaxResp = 4
  Defects = {}
INVARIANT TypeOK
PROPERTIES C10_Returns C17_Exit NoLoopLeft
CHECK_DEADLOCK FALSE
