---- MODULE CliWriteExit_TTrace_1790233135 ----
EXTENDS Sequences, TLCExt, Toolbox, Naturals, TLC, CliWriteExit

_expression ==
    LET CliWriteExit_TEExpression == INSTANCE CliWriteExit_TEExpression
    IN CliWriteExit_TEExpression!expression
----

_trace ==
    LET CliWriteExit_TETrace == INSTANCE CliWriteExit_TETrace
    IN CliWriteExit_TETrace!trace
----

_inv ==
    ~(
        TLCGet("level") = Len(_TETrace)
        /\
        in = (<<"a">>)
        /\
        epc = ("gone")
        /\
        wpc = ([a |-> "ret", b |-> "ret", c |-> "ret"])
        /\
        done = (TRUE)
        /\
        resolved = ([a |-> 0, b |-> 1, c |-> 1])
    )
----

_init ==
    /\ done = _TETrace[1].done
    /\ wpc = _TETrace[1].wpc
    /\ resolved = _TETrace[1].resolved
    /\ in = _TETrace[1].in
    /\ epc = _TETrace[1].epc
----

_next ==
    /\ \E i,j \in DOMAIN _TETrace:
        /\ \/ /\ j = i + 1
              /\ i = TLCGet("level")
        /\ done  = _TETrace[i].done
        /\ done' = _TETrace[j].done
        /\ wpc  = _TETrace[i].wpc
        /\ wpc' = _TETrace[j].wpc
        /\ resolved  = _TETrace[i].resolved
        /\ resolved' = _TETrace[j].resolved
        /\ in  = _TETrace[i].in
        /\ in' = _TETrace[j].in
        /\ epc  = _TETrace[i].epc
        /\ epc' = _TETrace[j].epc

\* Uncomment the ASSUME below to write the states of the error trace
\* to the given file in Json format. Note that you can pass any tuple
\* to `JsonSerialize`. For example, a sub-sequence of _TETrace.
    \* ASSUME
    \*     LET J == INSTANCE Json
    \*         IN J!JsonSerialize("CliWriteExit_TTrace_1790233135.json", _TETrace)

=============================================================================

 Note that you can extract this module `CliWriteExit_TEExpression`
  to a dedicated file to reuse `expression` (the module in the 
  dedicated `CliWriteExit_TEExpression.tla` file takes precedence 
  over the module `CliWriteExit_TEExpression` below).

---- MODULE CliWriteExit_TEExpression ----
EXTENDS Sequences, TLCExt, Toolbox, Naturals, TLC, CliWriteExit

expression == 
    [
        \* To hide variables of the `CliWriteExit` spec from the error trace,
        \* remove the variables below.  The trace will be written in the order
        \* of the fields of this record.
        done |-> done
        ,wpc |-> wpc
        ,resolved |-> resolved
        ,in |-> in
        ,epc |-> epc
        
        \* Put additional constant-, state-, and action-level expressions here:
        \* ,_stateNumber |-> _TEPosition
        \* ,_doneUnchanged |-> done = done'
        
        \* Format the `done` variable as Json value.
        \* ,_doneJson |->
        \*     LET J == INSTANCE Json
        \*     IN J!ToJson(done)
        
        \* Lastly, you may build expressions over arbitrary sets of states by
        \* leveraging the _TETrace operator.  For example, this is how to
        \* count the number of times a spec variable changed up to the current
        \* state in the trace.
        \* ,_doneModCount |->
        \*     LET F[s \in DOMAIN _TETrace] ==
        \*         IF s = 1 THEN 0
        \*         ELSE IF _TETrace[s].done # _TETrace[s-1].done
        \*             THEN 1 + F[s-1] ELSE F[s-1]
        \*     IN F[_TEPosition - 1]
    ]

=============================================================================



Parsing and semantic processing can take forever if the trace below is long.
 In this case, it is advised to uncomment the module below to deserialize the
 trace from a generated binary file.

\*
\*---- MODULE CliWriteExit_TETrace ----
\*EXTENDS IOUtils, TLC, CliWriteExit
\*
\*trace == IODeserialize("CliWriteExit_TTrace_1790233135.bin", TRUE)
\*
\*=============================================================================
\*

---- MODULE CliWriteExit_TETrace ----
EXTENDS TLC, CliWriteExit

trace == 
    <<
    ([in |-> <<>>,epc |-> "running",wpc |-> [a |-> "W1", b |-> "W1", c |-> "W1"],done |-> FALSE,resolved |-> [a |-> 0, b |-> 0, c |-> 0]]),
    ([in |-> <<>>,epc |-> "E3",wpc |-> [a |-> "W1", b |-> "W1", c |-> "W1"],done |-> FALSE,resolved |-> [a |-> 0, b |-> 0, c |-> 0]]),
    ([in |-> <<>>,epc |-> "E1",wpc |-> [a |-> "W1", b |-> "W1", c |-> "W1"],done |-> FALSE,resolved |-> [a |-> 0, b |-> 0, c |-> 0]]),
    ([in |-> <<"a">>,epc |-> "E1",wpc |-> [a |-> "W2", b |-> "W1", c |-> "W1"],done |-> FALSE,resolved |-> [a |-> 0, b |-> 0, c |-> 0]]),
    ([in |-> <<"a">>,epc |-> "E1",wpc |-> [a |-> "ret", b |-> "W1", c |-> "W1"],done |-> FALSE,resolved |-> [a |-> 0, b |-> 0, c |-> 0]]),
    ([in |-> <<"a">>,epc |-> "gone",wpc |-> [a |-> "ret", b |-> "W1", c |-> "W1"],done |-> TRUE,resolved |-> [a |-> 0, b |-> 0, c |-> 0]]),
    ([in |-> <<"a">>,epc |-> "gone",wpc |-> [a |-> "ret", b |-> "ret", c |-> "W1"],done |-> TRUE,resolved |-> [a |-> 0, b |-> 1, c |-> 0]]),
    ([in |-> <<"a">>,epc |-> "gone",wpc |-> [a |-> "ret", b |-> "ret", c |-> "ret"],done |-> TRUE,resolved |-> [a |-> 0, b |-> 1, c |-> 1]])
    >>
----


=============================================================================

---- CONFIG CliWriteExit_TTrace_1790233135 ----
CONSTANTS
    Callers = { "a" , "b" , "c" }
    Cap = 2
    Defects = { "DrainBeforeClose" }

INVARIANT
    _inv

CHECK_DEADLOCK
    \* CHECK_DEADLOCK off because of PROPERTY or INVARIANT above.
    FALSE

INIT
    _init

NEXT
    _next

CONSTANT
    _TETrace <- _trace

ALIAS
    _expression
=============================================================================
\* Generated on Thu Sep 24 06:58:56 UTC 2026