--------------------------- MODULE H2ServerTrace ---------------------------
(* Trace validation for the server family (C01 C06 C08 C09 C10 C13 C14 C17   *)
(* C18 C20).  A trace is one connection: what an independent peer (x/net)    *)
(* sent and received on the wire, what the fasthttp handler saw and          *)
(* produced, and quiescence snapshots taken from the hooks, recorded by      *)
(* `h2v srv` from the REAL server.  The monitor below recomputes every       *)
(* judgement from the logged concrete data with the operators of RFC7540     *)
(* and HttpMsg and the flow-control / dispatch / GOAWAY ledgers; each        *)
(* violated clause is reported as "<property>:<clause>".                     *)
(* One initial state per trace; one TLC state per event.                     *)
EXTENDS RFC7540, HttpMsg, TLC, Json, IOUtils, SequencesExt

Traces == ndJsonDeserialize(IOEnv.VERIF_TRACE)

\* defects that this run tolerates (known findings being re-validated); a string of ids
Tolerated == IF "VERIF_DEFECTS" \in DOMAIN IOEnv THEN IOEnv.VERIF_DEFECTS ELSE ""

VARIABLES ti, l, m
vars == <<ti, l, m>>

ClosedCap == 256
NoObs == [rst |-> {}, goaway |-> {}, closed |-> FALSE, r4xx |-> {}]
NoFrame == [ty |-> -1, sid |-> 0, len |-> 0, fl |-> 0, es |-> FALSE, eh |-> FALSE, ack |-> FALSE,
            padbad |-> FALSE, pad |-> 0, dlen |-> 0, inc |-> 0, code |-> 0, last |-> 0, dep |-> -1,
            hbad |-> FALSE, sbad |-> 0, iw |-> -1, mfs |-> -1, mcs |-> -1, hts |-> -1, nset |-> 0,
            first |-> FALSE, fields |-> <<>>, hsz |-> 0, pat |-> TRUE, xfl |-> 0]

NoShape == [kind |-> "none", n |-> 0, status |-> 0, hdrs |-> <<>>]
NoSeen == [method |-> <<>>, path |-> <<>>, host |-> <<>>, scheme |-> <<>>, fields |-> <<>>, blen |-> 0, bodyok |-> TRUE]

S0 == [q |-> "idle", req |-> <<>>, hasReq |-> FALSE, blkOpen |-> FALSE, pblk |-> <<>>, pblkES |-> FALSE, pblkSz |-> 0,
       trl |-> <<>>, hasTrl |-> FALSE, peerES |-> FALSE, body |-> 0, flowSent |-> 0,
       hs |-> 0, hsJudged |-> FALSE, rawBody |-> FALSE, reqSz |-> 0, seen |-> NoSeen, he |-> 0, resp |-> NoShape,
       rh |-> 0, rfields |-> <<>>, rb |-> 0, res |-> 0, r4 |-> FALSE,
       grant |-> 0, sent |-> 0, srvGrant |-> 0, rstByUs |-> FALSE, rstByPeer |-> FALSE, refused |-> FALSE,
       closedAt |-> -1, errSeen |-> FALSE]

M0(tr) == [cfg |-> tr.cfg, s |-> << >>, hb |-> 0, rhb |-> 0, maxSid |-> 0,
           maxFrameSrv |-> 16384, srvIW |-> 65535, maxConcAdv |-> -1,
           peerIW |-> 65535, iwSent |-> 65535, peerMFS |-> 16384, mfsQ |-> <<>>,
           grantC |-> 65535, sentC |-> 0, srvGrantC |-> 65535, peerSentC |-> 0,
           goaways |-> <<>>, closed |-> FALSE, connErr |-> FALSE, peerGone |-> FALSE,
           cur |-> NoFrame, hasCur |-> FALSE, curAfterClose |-> FALSE, blkBad |-> FALSE, desync |-> FALSE, pings |-> <<>>, gaPc |-> "G1", gaRead |-> 0, slPub |-> 0, multi |-> FALSE, allowed |-> {}, obs |-> NoObs,
           mustErr |-> FALSE, disp |-> {}, setSent |-> 0, ackRecv |-> 0, closes |-> 0, settledMode |-> FALSE,
           bad |-> {}]

MaxConc(mm) == IF mm.cfg.maxConc > 0 THEN mm.cfg.maxConc ELSE 1024
MaxBody(mm) == IF mm.cfg.maxBody > 0 THEN mm.cfg.maxBody ELSE 4194304
MaxHdr(mm)  == IF mm.cfg.maxHdr > 0 THEN mm.cfg.maxHdr ELSE IF mm.cfg.maxHdr = 0 THEN 1048576 ELSE MaxWin

St(mm, sid) == IF sid \in DOMAIN mm.s THEN mm.s[sid] ELSE S0
Put(mm, sid, r) == [mm EXCEPT !.s = (sid :> r) @@ mm.s]
Flag(mm, c) == [mm EXCEPT !.bad = @ \cup {c}]
FlagIf(mm, cond, c) == IF cond THEN Flag(mm, c) ELSE mm

\* RFC state of a stream id as the oracle sees it
QOf(mm, sid) ==
  IF sid \in DOMAIN mm.s /\ mm.s[sid].q # "idle" THEN
       LET r == mm.s[sid] IN
       IF r.q \in ClosedStates /\ r.closedAt >= 0 /\ mm.closes - r.closedAt >= ClosedCap THEN "cOld" ELSE r.q
  ELSE IF sid > mm.maxSid THEN "idle" ELSE "cImpl"

Active(mm) == {sid \in DOMAIN mm.s : mm.s[sid].q \in {"open", "hcr"} \/ (mm.s[sid].hs >= 1 /\ mm.s[sid].he = 0)}
OpenSids(mm) == {sid \in DOMAIN mm.s : mm.s[sid].q \in {"open", "hcr"}}
MaxStrWin(mm) ==
  LET ws == {mm.s[sid].grant - mm.s[sid].sent : sid \in OpenSids(mm)} IN
  IF ws = {} THEN 0 ELSE CHOOSE w \in ws : \A x \in ws : x <= w

Ctx(mm) == [hb |-> mm.hb, maxSid |-> mm.maxSid, maxFrame |-> mm.maxFrameSrv, winC |-> mm.grantC - mm.sentC,
            maxStrWin |-> MaxStrWin(mm), iw |-> mm.iwSent]
SCtx(mm, sid) == [win |-> St(mm, sid).grant - St(mm, sid).sent,
                  refuse |-> Cardinality(Active(mm)) >= MaxConc(mm),
                  closing |-> mm.goaways # <<>>]

\* multiset equality of two sequences of fields
SameFields(a, b) ==
  /\ Len(a) = Len(b)
  /\ \A x \in {a[i] : i \in DOMAIN a} \cup {b[i] : i \in DOMAIN b} :
       Cardinality({i \in DOMAIN a : a[i] = x}) = Cardinality({i \in DOMAIN b : b[i] = x})
SubFields(a, b) ==   \* every field of a occurs in b at least as often
  \A x \in {a[i] : i \in DOMAIN a} :
       Cardinality({i \in DOMAIN a : a[i] = x}) <= Cardinality({i \in DOMAIN b : b[i] = x})

Regular(fields) == SelectSeq(fields, LAMBDA f : ~IsPseudo(f[1]))
ValueOf(fields, n) == LET vs == ValuesOf(fields, n) IN IF vs = {} THEN <<>> ELSE CHOOSE v \in vs : TRUE

-----------------------------------------------------------------------------
(* Request-level extras: reactions that section 8.1.2 / the configured       *)
(* limits additionally permit for the frame being sent.                      *)
ReqExtras(mm, f, r) ==
  LET blk == IF f.first THEN f.fields ELSE r.pblk
      blkSz == IF f.first THEN f.hsz ELSE r.pblkSz
      isHdr == f.ty \in {T_HEADERS, T_CONT}
      isTrailer == isHdr /\ r.hasReq
      malformed == isHdr /\ (IF isTrailer THEN \E i \in DOMAIN blk : IsPseudo(blk[i][1]) \/ HasUpper(blk[i][1])
                                          ELSE HdrDefects(blk) # {} \/ BadCLSyntax(blk))
      \* request fields and trailer fields share one MaxHeaderListSize budget (C13: "a header list larger than ...")
      before == IF isTrailer THEN (IF f.first THEN r.pblkSz ELSE r.reqSz) ELSE 0
      toolarge == isHdr /\ blkSz + before > MaxHdr(mm)
      clTooBig == isHdr /\ ~isTrailer /\ \E v \in ValuesOf(blk, B_contentlength) :
                     IsDigits(v) /\ (Len(StripZeros(v)) > 10 \/ (Len(StripZeros(v)) = Len(DigitsOf(MaxBody(mm))) /\ StripZeros(v) # DigitsOf(MaxBody(mm)) /\
                                       \E k \in 1..Len(StripZeros(v)) : (\A j \in 1..(k-1) : StripZeros(v)[j] = DigitsOf(MaxBody(mm))[j]) /\ StripZeros(v)[k] > DigitsOf(MaxBody(mm))[k])
                                     \/ Len(StripZeros(v)) > Len(DigitsOf(MaxBody(mm))))
      bodyTooBig == f.ty = T_DATA /\ r.body + f.dlen > MaxBody(mm)
      finalBody == r.body + (IF f.ty = T_DATA THEN f.dlen ELSE 0)
      clMismatch == ((f.es /\ f.ty \in {T_DATA, T_HEADERS}) \/ (f.ty = T_CONT /\ f.eh /\ r.pblkES)) /\ r.hasReq /\ ~ContentLengthOK(r.req, finalBody)
      clMismatch0 == ((f.es /\ f.ty = T_HEADERS /\ f.first) \/ (f.ty = T_CONT /\ f.eh /\ r.pblkES)) /\ ~r.hasReq /\ ~ContentLengthOK(blk, 0)
  IN (IF malformed \/ clMismatch \/ clMismatch0 THEN {SE(E_PROTO), RESP4} ELSE {}) \cup
     (IF toolarge THEN {CE(E_CALM), CE(E_PROTO), SE(AnyCode), RESP4} ELSE {}) \cup
     (IF clTooBig \/ bodyTooBig THEN {SE(AnyCode), RESP4} ELSE {})

------------------------------------------------------------------------(* Stream-state bookkeeping for frame f once its outcome is known: errOnSid = the server reset    *)
(* f.sid in reaction, connErrNow = it answered with GOAWAY / close.  Used at a quiescent point   *)
(* for the frame in flight, and for the earlier frames of a burst (assumed processed).           *)
Transition(mm, f, errOnSid, connErrNow) ==
  LET r == St(mm, f.sid)
      processed == ~errOnSid /\ ~connErrNow /\ P \in Tolerate(mm.allowed)
      q0 == QOf(mm, f.sid)
      q1 == IF f.sid = 0 THEN q0
            ELSE IF errOnSid THEN (IF f.ty = T_PRIORITY \/ q0 \in ClosedStates THEN q0 ELSE "cLocalRst")
            ELSE IF processed THEN NextOnProcess(f, q0)
            ELSE q0
      isReqBlockEnd == processed /\ f.ty \in {T_HEADERS, T_CONT} /\ f.eh /\ (f.ty = T_CONT \/ f.first)
      r1 == IF f.sid = 0 THEN r
            ELSE LET ra == [r EXCEPT !.q = IF q1 = "cImpl" \/ (q1 = "idle" /\ f.ty # T_HEADERS) THEN r.q ELSE q1,
                                     !.refused = @ \/ (errOnSid /\ q0 = "idle" /\ f.ty = T_HEADERS),
                                     !.rstByPeer = @ \/ (processed /\ f.ty = T_RST),
                                     !.closedAt = IF q1 \in ClosedStates /\ r.closedAt < 0 /\ q1 # "cImpl" THEN mm.closes ELSE @]
                     rb == IF processed /\ f.ty = T_HEADERS /\ q0 = "idle"
                           THEN [ra EXCEPT !.grant = mm.peerIW, !.srvGrant = mm.srvIW] ELSE ra
                     rc == IF isReqBlockEnd /\ ~r.hasReq THEN [rb EXCEPT !.req = rb.pblk, !.hasReq = TRUE, !.peerES = rb.pblkES]
                           ELSE IF isReqBlockEnd /\ r.hasReq THEN [rb EXCEPT !.trl = rb.pblk, !.hasTrl = TRUE, !.peerES = @ \/ rb.pblkES]
                           ELSE IF processed /\ f.ty = T_DATA /\ f.es THEN [rb EXCEPT !.peerES = TRUE]
                           ELSE rb
                 IN rc
      closedNow == f.sid # 0 /\ q1 \in ClosedStates /\ r.closedAt < 0 /\ q1 # "cImpl"
      m1 == IF f.sid # 0 /\ (f.sid \in DOMAIN mm.s \/ q1 # "idle") THEN Put(mm, f.sid, r1) ELSE mm
  IN [m1 EXCEPT !.maxSid = IF f.ty = T_HEADERS /\ f.sid % 2 = 1 /\ f.sid > @ /\ (processed \/ errOnSid) THEN f.sid ELSE @,
                !.closes = @ + (IF closedNow THEN 1 ELSE 0)]

-----
(* Ledgers: grant / grantC / srvGrant / srvGrantC hold the REMAINING window (they may go negative after a
   SETTINGS decrease); sent / sentC / flowSent / peerSentC are kept at 0 so that `grant - sent` reads as before.
   Cumulative totals would leave TLC's 32-bit integers on long transfers. *)
\* a change of the peer's INITIAL_WINDOW_SIZE by d takes effect in the ledger: every stream the server may still send on moves by d
ApplyIW(mm, d) ==
  [mm EXCEPT !.peerIW = @ + d,
             !.s = [sid \in DOMAIN mm.s |->
                      IF mm.s[sid].q \in {"open", "hcr"} /\ ~(d > 0 /\ Overflows(mm.s[sid].grant - mm.s[sid].sent, d))
                         /\ ~(d > 0 /\ mm.s[sid].grant > 0 /\ d > MaxWin - mm.s[sid].grant)
                      THEN [mm.s[sid] EXCEPT !.grant = @ + d] ELSE mm.s[sid]]]

(* send: the peer put frame f on the wire.                                   *)
OnSend(mm0, f0) ==
  LET mm == IF mm0.hasCur THEN [Transition(mm0, mm0.cur, FALSE, FALSE) EXCEPT !.multi = TRUE] ELSE mm0
      \* a header block is as bad as its worst fragment: the receiver may only find out when the block ends
      f == IF f0.ty = T_CONT /\ mm.blkBad THEN [f0 EXCEPT !.hbad = TRUE] ELSE f0
      r == St(mm, f.sid)
      q == QOf(mm, f.sid)
      al == Allowed(f, q, Ctx(mm), SCtx(mm, f.sid)) \cup
            (IF f.sid # 0 /\ f.sid % 2 = 1 THEN ReqExtras(mm, f, r) ELSE {})
      \* protocol-level header-block tracking (independent of how the server reacts)
      hb1 == IF f.ty = T_HEADERS /\ ~f.eh THEN f.sid
             ELSE IF f.ty = T_CONT /\ f.sid = mm.hb /\ f.eh THEN 0
             ELSE mm.hb
      \* the peer's flow-control spending (DATA counts with its padding)
      r1 == IF f.ty = T_DATA THEN [r EXCEPT !.srvGrant = @ - f.len, !.body = @ + f.dlen, !.rawBody = @ \/ ~f.pat] ELSE r
      r2 == IF f.ty = T_HEADERS /\ f.first
            THEN [r1 EXCEPT !.pblk = f.fields, !.pblkES = f.es, !.pblkSz = f.hsz, !.blkOpen = ~f.eh,
                            !.reqSz = IF r1.hasReq THEN r1.pblkSz ELSE 0]
            ELSE IF f.ty = T_CONT /\ f.eh THEN [r1 EXCEPT !.blkOpen = FALSE] ELSE r1
      \* grants: WINDOW_UPDATE and SETTINGS_INITIAL_WINDOW_SIZE
      r3 == IF f.ty = T_WU /\ f.sid # 0 /\ f.len = 4 /\ ~Overflows(r2.grant - r2.sent, f.inc)
            THEN [r2 EXCEPT !.grant = @ + f.inc] ELSE r2
      m1 == [mm EXCEPT !.cur = f, !.hasCur = TRUE, !.allowed = al, !.obs = NoObs, !.hb = hb1,
                       !.blkBad = IF f.ty \in {T_HEADERS, T_CONT} /\ ~f.eh THEN f.hbad ELSE FALSE,
                       !.curAfterClose = mm.closed,
                       \* a well-formed PING awaits its acknowledgement (6.7), in order, with the same opaque data
                       !.pings = IF f.ty = T_PING /\ ~f.ack /\ f.sid = 0 /\ f.len = 8 /\ al = {P} /\ ~mm.closed
                                 THEN Append(@, f.inc) ELSE @,      \* sent into a connection the server had already closed: nothing to judge
                       \* the only permitted reactions to this frame are connection errors
                       !.mustErr = @ \/ (al # {} /\ \A x \in al : x.k = "cerr"),
                       !.srvGrantC = @ - (IF f.ty = T_DATA THEN f.len ELSE 0),
                       !.setSent = @ + (IF f.ty = T_SETTINGS /\ ~f.ack /\ f.sid = 0 /\ f.len % 6 = 0 THEN 1 ELSE 0),
                       !.grantC = @ + (IF f.ty = T_WU /\ f.sid = 0 /\ f.len = 4 /\ ~Overflows(mm.grantC - mm.sentC, f.inc) THEN f.inc ELSE 0),
                       \* the peer's MAX_FRAME_SIZE binds the frames the server sends after its ACK; a larger one may be used at once
                       !.peerMFS = IF f.ty = T_SETTINGS /\ ~f.ack /\ f.mfs >= 0 /\ f.sbad = 0 /\ f.mfs > @ THEN f.mfs ELSE @,
                       \* one entry per SETTINGS frame, taken off when its ACK arrives: the smaller frame size and the
                       \* window DEcrease it carries bind the server from that ACK on (what is in flight before it is judged
                       \* by the old values); increases are the peer's commitment from the moment it sends them
                       !.mfsQ = IF f.ty = T_SETTINGS /\ ~f.ack /\ f.sid = 0 /\ f.len % 6 = 0
                                THEN Append(@, [mfs |-> IF f.sbad = 0 THEN f.mfs ELSE -1,
                                                iwd |-> IF f.sbad = 0 /\ f.iw >= 0 /\ f.iw < mm.iwSent THEN f.iw - mm.iwSent ELSE 0]) ELSE @,
                       !.iwSent = IF f.ty = T_SETTINGS /\ ~f.ack /\ f.iw >= 0 /\ f.sbad = 0 THEN f.iw ELSE @]
      m2 == IF f.sid # 0 THEN Put(m1, f.sid, r3) ELSE m1
      \* INITIAL_WINDOW_SIZE increase: delta on every stream the server may still send on, at once
      d == f.iw - mm.iwSent
      m3 == IF f.ty = T_SETTINGS /\ ~f.ack /\ f.iw >= 0 /\ f.sbad = 0 /\ d > 0
            THEN ApplyIW(m2, d)
            ELSE m2
  IN m3

-----------------------------------------------------------------------------
(* recv: the peer read frame f from the server.                              *)
OnRecv0(mm, f) ==
  LET r == St(mm, f.sid) IN
  IF f.ty = T_DATA THEN
     LET r1 == [r EXCEPT !.grant = @ - f.len, !.rb = @ + f.dlen, !.res = @ + (IF f.es THEN 1 ELSE 0)]
         m1 == [Put(mm, f.sid, r1) EXCEPT !.grantC = @ - f.len]
         c1 == FlagIf(m1, f.len > 0 /\ r1.grant < 0, "C06:stream-window-exceeded")
         c2 == FlagIf(c1, f.len > 0 /\ m1.grantC < 0, "C06:conn-window-exceeded")
         c3 == FlagIf(c2, f.len > mm.peerMFS, "C06:data-frame-over-max-frame-size")
         c4 == FlagIf(c3, r.rh = 0, "C01:data-before-headers")
         c5 == FlagIf(c4, r.res > 0, "C01:data-after-end-stream")
         c6 == FlagIf(c5, ~f.pat, "C01:response-body-bytes-differ")
         c7 == FlagIf(c6, r.he = 1 /\ r1.rb > r.resp.n, "C01:response-body-too-long")
         c8 == FlagIf(c7, f.es /\ r.he = 1 /\ r1.rb < r.resp.n, "C01:response-body-truncated")
         c9 == FlagIf(c8, r.he = 0 /\ ~r.r4, "C01:response-data-without-handler")
         c10 == FlagIf(c9, r.rstByUs \/ r.rstByPeer, "C01:data-after-reset")
     IN c10
  ELSE IF f.ty = T_HEADERS THEN
     LET st == ValueOf(f.fields, B_status)
         is4 == r.he = 0
         r1 == [r EXCEPT !.rh = @ + 1, !.rfields = f.fields, !.res = @ + (IF f.es THEN 1 ELSE 0), !.r4 = is4]
         m1 == Put(mm, f.sid, r1)
         m2 == IF is4 THEN [m1 EXCEPT !.obs.r4xx = @ \cup {f.sid}] ELSE m1
         c1 == FlagIf(m2, r.rh > 0, "C01:response-headers-twice")
         c2a == FlagIf(c1, f.hbad, "C01:response-block-undecodable")
         c2 == FlagIf(c2a, f.tsover, "C18:header-table-size-limit-not-obeyed (the encoder's table is larger than the limit it acknowledged)")
         c3 == FlagIf(c2, f.eh /\ ~f.hbad /\ ~WellFormedResponse(f.fields), "C01:response-malformed")
         c4 == FlagIf(c3, f.eh /\ ~f.hbad /\ ~is4 /\ st # DigitsOf(r.resp.status), "C01:status-differs")
         c5 == FlagIf(c4, f.eh /\ ~f.hbad /\ ~is4 /\ ~SubFields(r.resp.hdrs, Regular(f.fields)), "C01:response-field-lost")
         c6 == FlagIf(c5, f.len > mm.peerMFS, "C18:headers-frame-over-max-frame-size")
         c7 == FlagIf(c6, f.es /\ ~is4 /\ r.resp.n > 0, "C01:response-body-truncated")
         c8 == FlagIf(c7, f.eh /\ is4 /\ ~f.hbad /\ (Len(st) # 3 \/ st[1] \notin {52, 53}), "C20:unsolicited-non-error-response")
     IN c8
  ELSE IF f.ty = T_CONT THEN
     LET c1 == FlagIf(mm, f.len > mm.peerMFS, "C18:continuation-frame-over-max-frame-size")
         c2 == FlagIf(c1, f.hbad, "C01:response-block-undecodable")
         \* the block's END_HEADERS arrives here: the fields x/net decoded belong to the response
         r1 == IF f.eh /\ ~f.hbad THEN [r EXCEPT !.rfields = f.fields] ELSE r
         st == ValueOf(f.fields, B_status)
         c3 == FlagIf(c2, f.eh /\ ~f.hbad /\ r.he = 1 /\ st # DigitsOf(r.resp.status), "C01:status-differs")
         c4 == FlagIf(c3, f.eh /\ ~f.hbad /\ r.he = 1 /\ ~SubFields(r.resp.hdrs, Regular(f.fields)), "C01:response-field-lost")
     IN Put(c4, f.sid, r1)
  ELSE IF f.ty = T_RST THEN
     LET r1 == [r EXCEPT !.rstByUs = TRUE, !.errSeen = TRUE]
         m1 == [Put(mm, f.sid, r1) EXCEPT !.obs.rst = @ \cup {<<f.sid, f.code>>}]
     IN FlagIf(m1, f.sid = 0, "C08:rst-on-stream-0")
  ELSE IF f.ty = T_GOAWAY THEN
     LET m1 == [mm EXCEPT !.obs.goaway = @ \cup {f.code}, !.goaways = Append(@, [last |-> f.last, code |-> f.code]),
                          !.connErr = @ \/ f.code # E_NO]
         hi == IF mm.disp = {} THEN 0 ELSE CHOOSE x \in mm.disp : \A y \in mm.disp : y <= x
         c1 == FlagIf(m1, f.last < hi, "C10:goaway-last-stream-id-below-dispatched")
         c2 == FlagIf(c1, mm.goaways # <<>> /\ f.last > mm.goaways[Len(mm.goaways)].last, "C10:goaway-last-stream-id-increased")
     IN c2
  ELSE IF f.ty = T_SETTINGS THEN
     IF f.ack THEN
        LET m1 == IF mm.mfsQ = <<>> THEN mm
                  ELSE LET h == Head(mm.mfsQ)
                           m0 == [mm EXCEPT !.mfsQ = Tail(@), !.peerMFS = IF h.mfs >= 0 THEN h.mfs ELSE @]
                       IN IF h.iwd < 0 THEN ApplyIW(m0, h.iwd) ELSE m0
        IN FlagIf([m1 EXCEPT !.ackRecv = @ + 1], mm.ackRecv + 1 > mm.setSent, "C18:ack-without-settings")
     ELSE [mm EXCEPT !.maxFrameSrv = IF f.mfs >= 0 THEN f.mfs ELSE @,
                     !.srvIW = IF f.iw >= 0 THEN f.iw ELSE @,
                     !.maxConcAdv = IF f.mcs >= 0 THEN f.mcs ELSE @]
  ELSE IF f.ty = T_WU THEN
     IF f.sid = 0 THEN
        LET c1 == FlagIf(mm, f.inc = 0, "C14:zero-increment")
            c2 == FlagIf(c1, Overflows(mm.srvGrantC - mm.peerSentC, f.inc), "C14:window-above-max")
        IN [c2 EXCEPT !.srvGrantC = IF Overflows(mm.srvGrantC - mm.peerSentC, f.inc) THEN @ ELSE @ + f.inc]
     ELSE
        LET c1 == FlagIf(mm, f.inc = 0, "C14:zero-increment")
            c2 == FlagIf(c1, Overflows(r.srvGrant - r.flowSent, f.inc), "C14:window-above-max")
        IN Put(c2, f.sid, [r EXCEPT !.srvGrant = IF Overflows(r.srvGrant - r.flowSent, f.inc) THEN @ ELSE @ + f.inc])
  ELSE IF f.ty = T_PING /\ f.ack THEN
     \* acknowledgements come back in the order of the PINGs, each with the opaque data of its PING (6.7)
     IF mm.pings # <<>> /\ Head(mm.pings) = f.inc THEN [mm EXCEPT !.pings = Tail(@)]
     ELSE Flag(mm, "C08:ping-acknowledgement-without-matching-ping")
  ELSE mm


\* RFC 7540 section 4.3: a header block is one contiguous run of frames - nothing else, on any stream, comes between its
\* HEADERS and its last CONTINUATION (the write queue is shared by the stream loop, the read loop and the timers)
OnRecv(mm, f) ==
  LET inside == mm.rhb # 0 /\ ~(f.ty = T_CONT /\ f.sid = mm.rhb)
      orphan == mm.rhb = 0 /\ f.ty = T_CONT
      m1 == OnRecv0(mm, f)
      m2 == FlagIf(m1, inside, "C01:frame-inside-a-response-header-block (type " \o ToString(f.ty) \o " on stream " \o ToString(f.sid)
                                 \o " inside the block of stream " \o ToString(mm.rhb) \o ")")
      m3 == FlagIf(m2, orphan, "C01:continuation-without-an-open-response-header-block")
  IN [m3 EXCEPT !.rhb = IF f.ty \in {T_HEADERS, T_CONT} THEN (IF f.eh THEN 0 ELSE f.sid) ELSE @]

-----------------------------------------------------------------------------
OnHStart(mm, e) ==
  LET r == St(mm, e.sid)
      seen == [method |-> e.method, path |-> e.path, host |-> e.host, scheme |-> e.scheme,
               fields |-> e.fields, blen |-> e.blen, bodyok |-> e.bodyok]
      r1 == [r EXCEPT !.hs = @ + 1, !.seen = seen]
      m1 == [Put(mm, e.sid, r1) EXCEPT !.disp = @ \cup {e.sid}]
      c1 == FlagIf(m1, r.hs >= 1, "C01:handler-ran-twice")
      c2 == FlagIf(c1, mm.goaways # <<>> /\ e.sid > mm.goaways[1].last, "C10:dispatch-above-goaway-last-stream-id")
      c3 == FlagIf(c2, mm.connErr /\ e.sid \notin DOMAIN mm.s, "C10:dispatch-of-stream-first-seen-after-connection-error")
      c4 == FlagIf(c3, e.blen > MaxBody(mm), "C13:handler-given-body-over-max-request-body-size")
      c5 == FlagIf(c4, FoldLeft(LAMBDA acc, f : acc + Len(f[1]) + Len(f[2]) + 32, 0, e.fields) > MaxHdr(mm) + 64, "C13:handler-given-header-list-over-max-header-list-size")
  IN c5

OnHEnd(mm, e) ==
  LET r == St(mm, e.sid) IN
  \* a panicking handler is answered with an empty 500 (documented behaviour, as fasthttp does over HTTP/1)
  Put(mm, e.sid, [r EXCEPT !.he = @ + 1,
                           !.resp = IF e.kind = "panic" THEN [kind |-> "panic", n |-> 0, status |-> 500, hdrs |-> <<>>]
                                    ELSE [kind |-> e.kind, n |-> e.n, status |-> e.status, hdrs |-> e.hdrs]])

-----------------------------------------------------------------------------
(* q: a quiescence snapshot.  Judges the reaction to the frame in flight,    *)
(* applies the stream-state transition, and evaluates the progress clauses.  *)
ReqFieldsSent(r) == Regular(r.req) \o Regular(r.trl)
SeenRegular(r) == SelectSeq(r.seen.fields, LAMBDA f : f[1] # B_host)

JoinCookies(fs) == FoldLeft(LAMBDA acc, f : IF acc = <<>> THEN f[2] ELSE acc \o <<59, 32>> \o f[2], <<>>, fs)

JudgeDispatch(mm, sid) ==
  LET r == St(mm, sid)
      complete == r.hasReq /\ r.peerES /\ ~r.blkOpen
      wf == r.hasReq /\ WellFormedRequest(r.req, r.body, r.trl)
      underLimits == r.body <= MaxBody(mm) /\ r.pblkSz <= MaxHdr(mm)
      noErr == ~r.errSeen /\ ~r.r4 /\ ~mm.connErr /\ ~mm.closed /\ ~r.refused
      \* judged once, at the first quiescence after the dispatch; not at all once a raw header block has changed the
      \* server's dynamic table behind the peer encoder's back (what later blocks decode to is then unknown here)
      fresh == r.hs >= 1 /\ ~r.hsJudged /\ ~mm.desync
      c1 == FlagIf(mm, fresh /\ ~complete, "C08:dispatched-before-request-complete")
      c2 == FlagIf(c1, fresh /\ complete /\ ~wf, "C20:malformed-request-dispatched")
      c3 == FlagIf(c2, complete /\ wf /\ underLimits /\ noErr /\ r.hs = 0 /\ mm.goaways = <<>>, "C01:well-formed-request-not-dispatched")
      c3b == FlagIf(c3, complete /\ wf /\ underLimits /\ r.hs = 0 /\ (r.errSeen \/ r.r4) /\ ~r.refused /\ ~r.rstByPeer /\ ~mm.connErr /\ ~mm.closed /\ mm.goaways = <<>>,
                    "C20:well-formed-request-refused")
      c4 == FlagIf(c3b, complete /\ ~wf /\ r.hs = 0 /\ ~r.errSeen /\ ~r.r4 /\ ~mm.connErr /\ ~mm.closed, "C20:malformed-request-not-refused")
      c5 == FlagIf(c4, fresh /\ r.seen.method # ValueOf(r.req, B_method), "C01:method-differs")
      c6 == FlagIf(c5, fresh /\ r.seen.path # ValueOf(r.req, B_path), "C01:path-differs")
      c7 == FlagIf(c6, fresh /\ Count(r.req, B_authority) = 1 /\ r.seen.host # ValueOf(r.req, B_authority), "C01:authority-differs")
      \* cookie fields may be split by the client and are joined with "; " for the application (RFC 7540 8.1.2.5)
      sentF == SelectSeq(ReqFieldsSent(r), LAMBDA f : f[1] # B_cookie /\ (f[1] # B_host \/ Count(r.req, B_authority) = 0))
      seenF == SelectSeq(SeenRegular(r), LAMBDA f : f[1] # B_cookie)
      sentCk == JoinCookies(SelectSeq(ReqFieldsSent(r), LAMBDA f : f[1] = B_cookie))
      seenCk == JoinCookies(SelectSeq(SeenRegular(r), LAMBDA f : f[1] = B_cookie))
      c8 == FlagIf(c7, fresh /\ (~SameFields(seenF, sentF) \/ sentCk # seenCk), "C01:request-fields-differ")
      \* (octets of a raw DATA frame are not the stream's pattern: only their number is compared)
      c9 == FlagIf(c8, fresh /\ (r.seen.blen # r.body \/ (~r.seen.bodyok /\ ~r.rawBody)), "C01:request-body-differs")
  IN IF fresh THEN Put(c9, sid, [c9.s[sid] EXCEPT !.hsJudged = TRUE]) ELSE c9

Progress(mm, e) ==
  LET stalled == {sid \in DOMAIN mm.s :
                    LET r == mm.s[sid] IN
                    r.he = 1 /\ r.rh = 1 /\ r.res = 0 /\ ~r.rstByUs /\ ~r.rstByPeer /\ r.rb < r.resp.n /\ r.grant - r.sent > 0 /\ mm.grantC - mm.sentC > 0}
      noEnd == {sid \in DOMAIN mm.s :
                    LET r == mm.s[sid] IN
                    r.he = 1 /\ r.res = 0 /\ ~r.rstByUs /\ ~r.rstByPeer /\ (r.rh = 0 \/ r.rb >= r.resp.n)}
      starvedS == {sid \in DOMAIN mm.s : LET r == mm.s[sid] IN r.q = "open" /\ r.srvGrant - r.flowSent <= 0}
      live == ~mm.closed /\ ~mm.connErr /\ ~e.ret /\ ~e.settled /\ ~e.slx /\ ~mm.peerGone
      c1 == FlagIf(mm, live /\ stalled # {}, "C06:response-stalled-with-open-windows")
      c2 == FlagIf(c1, live /\ noEnd # {}, "C01:response-never-ended")
      c3a == FlagIf(c2, live /\ mm.srvGrantC - mm.peerSentC <= 0, "C14:connection-credit-not-returned")
      \* in the C09 catalogue every offence is stream-scoped: if it dries up the connection window, every other stream pays
      c3 == FlagIf(c3a, live /\ mm.cfg.noconnerr /\ mm.srvGrantC - mm.peerSentC <= 0, "C09:stream-scoped-offence-starves-the-connection-window")
      c4 == FlagIf(c3, live /\ starvedS # {}, "C14:stream-credit-not-returned")
      c5a == FlagIf(c4, live /\ mm.ackRecv # mm.setSent, "C18:settings-not-acknowledged-exactly-once")
      c5 == FlagIf(c5a, live /\ mm.pings # <<>> /\ ~mm.mustErr, "C08:ping-not-acknowledged")
      c6 == FlagIf(c5, e.running > MaxConc(mm), "C13:more-handlers-than-max-concurrent-streams")
      c7 == FlagIf(c6, e.strms > 2 * MaxConc(mm) + 16, "C13:stream-table-exceeds-bound")
      c8 == FlagIf(c7, e.ring > ClosedCap, "C13:closed-stream-memory-exceeds-bound")
      c9 == FlagIf(c8, e.hdrb > MaxHdr(mm) + 16384 + 9, "C13:buffered-header-bytes-exceed-bound")
      c9b == FlagIf(c9, e.strms <= 100 /\ MaxBody(mm) < 16000000 /\ e.bodyb > e.strms * (MaxBody(mm) + 16384),
                    "C13:buffered-request-body-bytes-exceed-bound")
      c10a0 == FlagIf(c9b, e.rdlen > 128 \/ e.wrlen > 128, "C13:queue-exceeds-capacity")
      \* goroutines: three loops, Serve itself and its timers, one per running handler - not one per frame received
      c10a == FlagIf(c10a0, e.gor > e.running + 12, "C13:goroutines-grow-with-the-frames-received")
      \* the server's own books against the ledger the monitor keeps from the wire: drift is a latent violation -
      \* a connection window the peer never granted (C06), a slot count that refuses or admits streams wrongly (C13)
      slots == {sid \in DOMAIN mm.s : sid # 0 /\ (mm.s[sid].q \in {"open", "hcr"} \/ (mm.s[sid].hs >= 1 /\ mm.s[sid].he = 0))}
      c10b == FlagIf(c10a, live /\ ~mm.multi /\ e.winc # mm.grantC - mm.sentC /\ mm.grantC - mm.sentC < 2147483647,
                     "C06:connection-send-window-as-the-server-sees-it-differs-from-the-ledger")
      c10 == FlagIf(c10b, live /\ e.open # Cardinality(slots), "C13:open-stream-count-differs-from-the-streams-that-hold-a-slot")
  IN c10

OnQ(mm, e) ==
  LET f == mm.cur
      \* no verdict on the reaction while the peer is not reading (settled): the server cannot show one
      judged == mm.hasCur /\ ~mm.multi /\ ~mm.connErrBefore /\ ~e.settled /\ ~mm.curAfterClose
      obs == [rst |-> mm.obs.rst, goaway |-> mm.obs.goaway, closed |-> mm.obs.closed /\ ~mm.peerGone]
      al == mm.allowed
      rOK == ReactionOK(f, obs, al)
            \/ (f.sid \in mm.obs.r4xx /\ RESP4 \in al /\ obs.rst \subseteq {} /\ obs.goaway = {})
      errOnSid == \E x \in mm.obs.rst : x[1] = f.sid
      connErrNow == mm.obs.goaway # {} \/ (mm.obs.closed /\ ~mm.peerGone)
      c0 == FlagIf(mm, judged /\ ~rOK,
                   "C08:reaction-not-allowed ty=" \o ToString(f.ty) \o " state=" \o QOf(mm, f.sid) \o
                   " rst=" \o ToString(obs.rst) \o " goaway=" \o ToString(obs.goaway) \o " closed=" \o ToString(obs.closed)
                   \o " allowed=" \o ToString(al))
      \* ... and when that unwarranted reaction ends the connection, the requests in progress on it are lost
      inProgress == {sid \in DOMAIN mm.s : mm.s[sid].q \in {"open", "hcr"} /\ mm.s[sid].hasReq /\ ~mm.s[sid].refused /\ ~mm.s[sid].errSeen
                                            /\ ~mm.s[sid].rstByPeer /\ mm.s[sid].res = 0}
      \* (the frame that was answered this way may itself be (part of) a request)
      own == IF f.ty \in {T_HEADERS, T_CONT, T_DATA} /\ f.sid # 0 /\ f.sid % 2 = 1 THEN {f.sid} ELSE {}
      c0b == FlagIf(c0, judged /\ ~rOK /\ connErrNow /\ ~(\E x \in Tolerate(al) : x.k = "cerr") /\ inProgress \cup own # {},
                    "C01:requests-in-progress-lost-to-a-connection-teardown-the-peer-did-not-cause")
      c1 == FlagIf(c0b, judged /\ obs.goaway # {} /\ ~(\E x \in Tolerate(al) : x.k = "cerr"), "C10:goaway-without-connection-offence")
      t1 == IF mm.hasCur THEN Transition(c1, f, errOnSid, connErrNow) ELSE c1
      \* in a burst the resets seen belong to earlier frames: those streams are locally reset too
      t2 == IF mm.multi
            THEN [t1 EXCEPT !.s = [sid \in DOMAIN t1.s |->
                     IF (\E x \in mm.obs.rst : x[1] = sid) /\ t1.s[sid].q \notin ClosedStates
                     THEN [t1.s[sid] EXCEPT !.q = "cLocalRst", !.closedAt = t1.closes] ELSE t1.s[sid]]]
            ELSE t1
      m2 == [t2 EXCEPT !.hasCur = FALSE, !.multi = FALSE, !.obs = NoObs,
                       !.connErrBefore = mm.connErrBefore \/ mm.connErr,
                       !.settledMode = e.settled]
      \* streams whose response completed leave hcr
      m3 == [m2 EXCEPT !.s = [sid \in DOMAIN m2.s |->
                  LET x == m2.s[sid] IN
                  IF x.q = "hcr" /\ x.res >= 1 THEN [x EXCEPT !.q = "cEnd", !.closedAt = m2.closes] ELSE x],
                  !.closes = @ + Cardinality({sid \in DOMAIN m2.s : m2.s[sid].q = "hcr" /\ m2.s[sid].res >= 1})]
      \* (nothing is judged about dispatch while the peer is not reading or a loop is parked in a scheduler gate)
      sidsToJudge == IF e.settled THEN {}
                     ELSE IF mm.multi THEN {sid \in DOMAIN m3.s : sid # 0}
                     ELSE IF mm.hasCur /\ f.sid # 0 /\ f.sid \in DOMAIN m3.s THEN {f.sid} ELSE {}
      m4 == FoldLeft(LAMBDA acc, sid : JudgeDispatch(acc, sid), m3, SetToSeq(sidsToJudge))
  IN Progress(m4, e)

OnEof(mm) == [mm EXCEPT !.obs.closed = TRUE, !.closed = TRUE, !.closedBeforePeer = @ \/ ~mm.peerGone]

OnEnd(mm, e) ==
  LET c0 == FlagIf(mm, mm.cfg.noconnerr /\ (mm.goaways # <<>> \/ mm.closedBeforePeer), "C09:connection-torn-down-by-stream-scoped-offence")
      c1 == FlagIf(c0, ~e.returned, "C17:serveconn-did-not-return-after-peer-gone")
      c2 == FlagIf(c1, e.leaked > 0, "C17:goroutines-left-behind")
      c3 == FlagIf(c2, e.panics - e.handlerpanics > 0, "C17:recovered-panic-in-connection-code")
      c4 == FlagIf(c3, e.qtimeout, "X:quiescence-timeout")
  IN c4

\* After a connection error (GOAWAY with an error code, or a bare close) the connection handler must
\* return once the streams it promised (ids up to last-stream-id) have finished.
OnRet(mm, e) ==
  LET last == IF mm.goaways = <<>> THEN 0 ELSE mm.goaways[1].last
      \* once the peer has seen the connection end only a handler that is still running counts as unfinished
      unfinished == {sid \in DOMAIN mm.s : sid <= last /\
                        ((mm.s[sid].hs >= 1 /\ mm.s[sid].he = 0) \/ (~mm.closed /\ mm.s[sid].q \in {"open", "hcr"}))}
  IN FlagIf(mm, ~e.intime /\ (mm.connErr \/ mm.closed \/ mm.mustErr) /\ unfinished = {},
            "C10:serveconn-did-not-return-after-connection-error " \o e.err)

(* hs: a step of the GOAWAY / new-stream handshake.  GoAwayHandshake.tla proves the last-stream-id true for the   *)
(* program orders  ga.flag -> ga.read -> ga.sent  (each writeGoAway call; calls are serialised by goAwayLck) and *)
(* sl.publish(n) -> sl.refuse(n) | sl.accept(n)  (stream loop, each new stream); the recording must show exactly  *)
(* these orders.                                                                                                  *)
OnHs(mm, e) ==
  CASE e.ev = "ga.flag" -> [FlagIf(mm, mm.gaPc # "G1", "C10:goaway-handshake-out-of-order (ga.flag at " \o mm.gaPc \o ")") EXCEPT !.gaPc = "G2"]
    [] e.ev = "ga.read" -> [FlagIf(mm, mm.gaPc # "G2", "C10:goaway-handshake-out-of-order (last-stream-id read before the closing flag was raised)")
                             EXCEPT !.gaPc = "G3", !.gaRead = e.v]
    [] e.ev = "ga.sent" -> [FlagIf(mm, mm.gaPc # "G3", "C10:goaway-handshake-out-of-order (ga.sent at " \o mm.gaPc \o ")") EXCEPT !.gaPc = "G1"]
    [] e.ev = "sl.publish" -> [FlagIf(mm, mm.slPub # 0, "C10:goaway-handshake-out-of-order (two ids published, none decided)") EXCEPT !.slPub = e.v]
    [] e.ev \in {"sl.refuse", "sl.accept"} ->
         [FlagIf(mm, mm.slPub # e.v, "C10:goaway-handshake-out-of-order (stream decided before its id was published)") EXCEPT !.slPub = 0]
    [] OTHER -> mm

Step(mm, e) ==
  CASE e.k = "send"  -> OnSend(mm, e.f)
    [] e.k = "hs" -> OnHs(mm, e)
    [] e.k = "recv"  -> OnRecv(mm, e.f)
    [] e.k = "hstart" -> OnHStart(mm, e)
    [] e.k = "hend"  -> OnHEnd(mm, e)
    [] e.k = "q"     -> OnQ(mm, e)
    [] e.k = "eof"   -> OnEof(mm)
    [] e.k = "desync" -> [mm EXCEPT !.desync = TRUE]
    [] e.k = "peerclose" -> [mm EXCEPT !.peerGone = TRUE]
    [] e.k = "end"   -> OnEnd(mm, e)
    [] e.k = "ret"   -> OnRet(mm, e)
    [] e.k = "runaway" -> Flag(Flag(mm, "C06:runaway-output"), "C01:runaway-output")
    [] e.k = "peerproto" -> Flag(mm, "C14:zero-increment (frame rejected by the peer's framer, code=" \o ToString(e.code) \o ")")
    \* the peer's framer (x/net) refused what the server sent as a connection error: frame order (another frame inside
    \* a header block), a frame over the maximum size, ...: the response cannot be received at all
    [] e.k = "rderr" -> IF e.conn THEN Flag(mm, "C01:server-output-is-not-a-legal-frame-sequence (" \o e.msg \o ")") ELSE mm
    [] e.k = "qtimeout" -> Flag(mm, "X:quiescence-timeout")
    [] e.k = "driverpanic" -> Flag(mm, "X:driver-panic")
    [] OTHER -> mm

Init == /\ ti \in 1..Len(Traces)
        /\ l = 1
        /\ m = [M0(Traces[ti]) EXCEPT !.bad = {}] @@ [connErrBefore |-> FALSE, closedBeforePeer |-> FALSE]

Next ==
  \/ /\ l <= Len(Traces[ti].evs)
     /\ m' = Step(m, Traces[ti].evs[l])
     /\ l' = l + 1
     /\ ti' = ti
  \/ /\ l = Len(Traces[ti].evs) + 1
     /\ IF m.bad = {} THEN TRUE ELSE PrintT("BAD " \o ToString(Traces[ti].t) \o " " \o ToJson(m.bad))
     /\ l' = l + 1
     /\ UNCHANGED <<ti, m>>

Spec == Init /\ [][Next]_vars
=============================================================================
