---- MODULE CtxOwnership_TTrace_1790228561 ----
EXTENDS CtxOwnership, Sequences, TLCExt, Toolbox, Naturals, TLC

_expression ==
    LET CtxOwnership_TEExpression == INSTANCE CtxOwnership_TEExpression
    IN CtxOwnership_TEExpression!expression
----

_trace ==
    LET CtxOwnership_TETrace == INSTANCE CtxOwnership_TETrace
    IN CtxOwnership_TETrace!trace
----

_inv ==
    ~(
        TLCGet("level") = Len(_TETrace)
        /\
        gen = (1)
        /\
        timer = ("done")
        /\
        touched = ({<<"rl", 0, 0, FALSE>>, <<"timer", 0, 1, FALSE>>})
        /\
        caller = ("pooled")
        /\
        err = ("ok")
        /\
        lck = ("none")
        /\
        wl = ("idle")
        /\
        rl = ("doneR")
        /\
        finished = (TRUE)
        /\
        done = (TRUE)
        /\
        got = ("ok")
        /\
        resolved = (TRUE)
    )
----

_init ==
    /\ lck = _TETrace[1].lck
    /\ touched = _TETrace[1].touched
    /\ rl = _TETrace[1].rl
    /\ gen = _TETrace[1].gen
    /\ done = _TETrace[1].done
    /\ err = _TETrace[1].err
    /\ caller = _TETrace[1].caller
    /\ timer = _TETrace[1].timer
    /\ resolved = _TETrace[1].resolved
    /\ got = _TETrace[1].got
    /\ wl = _TETrace[1].wl
    /\ finished = _TETrace[1].finished
----

_next ==
    /\ \E i,j \in DOMAIN _TETrace:
        /\ \/ /\ j = i + 1
              /\ i = TLCGet("level")
        /\ lck  = _TETrace[i].lck
        /\ lck' = _TETrace[j].lck
        /\ touched  = _TETrace[i].touched
        /\ touched' = _TETrace[j].touched
        /\ rl  = _TETrace[i].rl
        /\ rl' = _TETrace[j].rl
        /\ gen  = _TETrace[i].gen
        /\ gen' = _TETrace[j].gen
        /\ done  = _TETrace[i].done
        /\ done' = _TETrace[j].done
        /\ err  = _TETrace[i].err
        /\ err' = _TETrace[j].err
        /\ caller  = _TETrace[i].caller
        /\ caller' = _TETrace[j].caller
        /\ timer  = _TETrace[i].timer
        /\ timer' = _TETrace[j].timer
        /\ resolved  = _TETrace[i].resolved
        /\ resolved' = _TETrace[j].resolved
        /\ got  = _TETrace[i].got
        /\ got' = _TETrace[j].got
        /\ wl  = _TETrace[i].wl
        /\ wl' = _TETrace[j].wl
        /\ finished  = _TETrace[i].finished
        /\ finished' = _TETrace[j].finished

\* Uncomment the ASSUME below to write the states of the error trace
\* to the given file in Json format. Note that you can pass any tuple
\* to `JsonSerialize`. For example, a sub-sequence of _TETrace.
    \* ASSUME
    \*     LET J == INSTANCE Json
    \*         IN J!JsonSerialize("CtxOwnership_TTrace_1790228561.json", _TETrace)

=============================================================================

 Note that you can extract this module `CtxOwnership_TEExpression`
  to a dedicated file to reuse `expression` (the module in the 
  dedicated `CtxOwnership_TEExpression.tla` file takes precedence 
  over the module `CtxOwnership_TEExpression` below).

---- MODULE CtxOwnership_TEExpression ----
EXTENDS CtxOwnership, Sequences, TLCExt, Toolbox, Naturals, TLC

expression == 
    [
        \* To hide variables of the `CtxOwnership` spec from the error trace,
        \* remove the variables below.  The trace will be written in the order
        \* of the fields of this record.
        lck |-> lck
        ,touched |-> touched
        ,rl |-> rl
        ,gen |-> gen
        ,done |-> done
        ,err |-> err
        ,caller |-> caller
        ,timer |-> timer
        ,resolved |-> resolved
        ,got |-> got
        ,wl |-> wl
        ,finished |-> finished
        
        \* Put additional constant-, state-, and action-level expressions here:
        \* ,_stateNumber |-> _TEPosition
        \* ,_lckUnchanged |-> lck = lck'
        
        \* Format the `lck` variable as Json value.
        \* ,_lckJson |->
        \*     LET J == INSTANCE Json
        \*     IN J!ToJson(lck)
        
        \* Lastly, you may build expressions over arbitrary sets of states by
        \* leveraging the _TETrace operator.  For example, this is how to
        \* count the number of times a spec variable changed up to the current
        \* state in the trace.
        \* ,_lckModCount |->
        \*     LET F[s \in DOMAIN _TETrace] ==
        \*         IF s = 1 THEN 0
        \*         ELSE IF _TETrace[s].lck # _TETrace[s-1].lck
        \*             THEN 1 + F[s-1] ELSE F[s-1]
        \*     IN F[_TEPosition - 1]
    ]

=============================================================================



Parsing and semantic processing can take forever if the trace below is long.
 In this case, it is advised to uncomment the module below to deserialize the
 trace from a generated binary file.

\*
\*---- MODULE CtxOwnership_TETrace ----
\*EXTENDS CtxOwnership, IOUtils, TLC
\*
\*trace == IODeserialize("CtxOwnership_TTrace_1790228561.bin", TRUE)
\*
\*=============================================================================
\*

---- MODULE CtxOwnership_TETrace ----
EXTENDS CtxOwnership, TLC

trace == 
    <<
    ([gen |-> 0,timer |-> "armed",touched |-> {},caller |-> "waiting",err |-> "none",lck |-> "none",wl |-> "idle",rl |-> "idle",finished |-> FALSE,done |-> FALSE,got |-> "none",resolved |-> FALSE]),
    ([gen |-> 0,timer |-> "fired",touched |-> {},caller |-> "waiting",err |-> "none",lck |-> "none",wl |-> "idle",rl |-> "idle",finished |-> FALSE,done |-> FALSE,got |-> "none",resolved |-> FALSE]),
    ([gen |-> 0,timer |-> "fired",touched |-> {},caller |-> "waiting",err |-> "none",lck |-> "rl",wl |-> "idle",rl |-> "holding",finished |-> FALSE,done |-> FALSE,got |-> "none",resolved |-> FALSE]),
    ([gen |-> 0,timer |-> "fired",touched |-> {<<"rl", 0, 0, FALSE>>},caller |-> "waiting",err |-> "ok",lck |-> "none",wl |-> "idle",rl |-> "doneR",finished |-> TRUE,done |-> FALSE,got |-> "none",resolved |-> FALSE]),
    ([gen |-> 0,timer |-> "fired",touched |-> {<<"rl", 0, 0, FALSE>>},caller |-> "returned",err |-> "ok",lck |-> "none",wl |-> "idle",rl |-> "doneR",finished |-> TRUE,done |-> TRUE,got |-> "ok",resolved |-> TRUE]),
    ([gen |-> 1,timer |-> "fired",touched |-> {<<"rl", 0, 0, FALSE>>},caller |-> "pooled",err |-> "ok",lck |-> "none",wl |-> "idle",rl |-> "doneR",finished |-> TRUE,done |-> TRUE,got |-> "ok",resolved |-> TRUE]),
    ([gen |-> 1,timer |-> "done",touched |-> {<<"rl", 0, 0, FALSE>>, <<"timer", 0, 1, FALSE>>},caller |-> "pooled",err |-> "ok",lck |-> "none",wl |-> "idle",rl |-> "doneR",finished |-> TRUE,done |-> TRUE,got |-> "ok",resolved |-> TRUE])
    >>
----


=============================================================================

---- CONFIG CtxOwnership_TTrace_1790228561 ----
CONSTANTS
    Defects = { "IgnoreTimerStop" }

INVARIANT
    _inv

CHECK_DEADLOCK
    \* CHECK_DEADLOCK off because of PROPERTY or INVARIANT above.
    FALSE

INIT
    _init

NEXT
    _next

CONSTANT
    _TETrace <- _trace

ALIAS
    _expression
=============================================================================
\* Generated on Thu Sep 24 05:42:42 UTC 2026