---------------------------- MODULE CliWriteExit ----------------------------
(* Conn.Write (any caller goroutine) against the write loop leaving          *)
(* (conn.go writeLoop, after runWriteLoop has returned with an error):       *)
(*                                                                           *)
(*   Write(r)                               write loop, leaving              *)
(*     W1  select  in <- r   |  <-done: resolve r, return                    *)
(*     W2  select  <-done: resolve r | default                               *)
(*                                            E1  Close(): close(done)       *)
(*                                            E2  resolve the request table  *)
(*                                            E3  drain: r := <-in: resolve r, again | default: return *)
(*                                                                           *)
(* Both sides again write first and read second: the caller puts its request *)
(* in the queue and then looks at done, the loop closes done and then looks  *)
(* at the queue - one of them sees the other, so every request handed to     *)
(* Write is resolved (C12).  Defect "DrainBeforeClose" (seeded change C12-6) *)
(* swaps E1 and E3.  The scenario family write-storm (lib/cliprop.py) is the *)
(* code side: callers on many goroutines while the socket starts to fail.    *)
EXTENDS Integers, Sequences, FiniteSets, TLC

CONSTANTS Callers, Cap, Defects

VARIABLES in, done, wpc, resolved, epc
vars == <<in, done, wpc, resolved, epc>>

Bad(d) == d \in Defects
EOrder == IF Bad("DrainBeforeClose") THEN <<"E3", "E1", "gone">> ELSE <<"E1", "E3", "gone">>
ENext(p) == LET i == CHOOSE k \in 1..2 : EOrder[k] = p IN EOrder[i + 1]

Init == /\ in = <<>> /\ done = FALSE
        /\ wpc = [c \in Callers |-> "W1"] /\ resolved = [c \in Callers |-> 0]
        /\ epc = "running"

\* the write loop serves requests until its socket fails (requests it took are in the table: E2, not modelled apart from E3)
Serve == /\ epc = "running" /\ in # <<>>
         /\ resolved' = [resolved EXCEPT ![Head(in)] = @ + 1] /\ in' = Tail(in)
         /\ UNCHANGED <<done, wpc, epc>>
Fail == /\ epc = "running" /\ epc' = EOrder[1] /\ UNCHANGED <<in, done, wpc, resolved>>

E1 == /\ epc = "E1" /\ done' = TRUE /\ epc' = ENext("E1") /\ UNCHANGED <<in, wpc, resolved>>
E3 == /\ epc = "E3"
      /\ IF in # <<>>
         THEN /\ resolved' = [resolved EXCEPT ![Head(in)] = @ + 1] /\ in' = Tail(in) /\ UNCHANGED epc
         ELSE /\ epc' = ENext("E3") /\ UNCHANGED <<in, resolved>>
      /\ UNCHANGED <<done, wpc>>

\* select: whichever case is ready; both ready = either
W1send(c) == /\ wpc[c] = "W1" /\ Len(in) < Cap
             /\ in' = Append(in, c) /\ wpc' = [wpc EXCEPT ![c] = "W2"] /\ UNCHANGED <<done, resolved, epc>>
W1done(c) == /\ wpc[c] = "W1" /\ done
             /\ resolved' = [resolved EXCEPT ![c] = @ + 1] /\ wpc' = [wpc EXCEPT ![c] = "ret"] /\ UNCHANGED <<in, done, epc>>
W2(c) == /\ wpc[c] = "W2"
         /\ resolved' = IF done THEN [resolved EXCEPT ![c] = @ + 1] ELSE resolved
         /\ wpc' = [wpc EXCEPT ![c] = "ret"] /\ UNCHANGED <<in, done, epc>>

Next == Serve \/ Fail \/ E1 \/ E3 \/ \E c \in Callers : W1send(c) \/ W1done(c) \/ W2(c)
Spec == Init /\ [][Next]_vars

\* C12: once the loop is gone and every Write has returned, every request has been resolved (twice is harmless: Err is
\* buffered and read once)
AllResolved == (epc = "gone" /\ \A c \in Callers : wpc[c] = "ret") => \A c \in Callers : resolved[c] >= 1
\* no Write is left blocked on a full queue after the loop has gone: done is closed by then
NoCallerStuck == epc = "gone" => \A c \in Callers : wpc[c] = "W1" => done
=============================================================================
