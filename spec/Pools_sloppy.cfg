SPECIFICATION Spec
CONSTANTS
  Objs = {1, 2, 3}
  Holders = {"a", "b"}
  Sloppy = TRUE
INVARIANTS SingleOwner NoDuplicates
CHECK_DEADLOCK FALSE
