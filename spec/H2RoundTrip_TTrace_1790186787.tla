---- MODULE H2RoundTrip_TTrace_1790186787 ----
EXTENDS Sequences, TLCExt, H2RoundTrip, Toolbox, Naturals, TLC

_expression ==
    LET H2RoundTrip_TEExpression == INSTANCE H2RoundTrip_TEExpression
    IN H2RoundTrip_TEExpression!expression
----

_trace ==
    LET H2RoundTrip_TETrace == INSTANCE H2RoundTrip_TETrace
    IN H2RoundTrip_TETrace!trace
----

_inv ==
    ~(
        TLCGet("level") = Len(_TETrace)
        /\
        conns = (<<[cliClosed |-> TRUE, cliGA |-> FALSE, cliGALast |-> 0, open |-> 1, next |-> 3, srvClosed |-> TRUE, srvGA |-> FALSE, srvGALast |-> 0, wire |-> <<>>], [cliClosed |-> FALSE, cliGA |-> FALSE, cliGALast |-> 0, open |-> 1, next |-> 3, srvClosed |-> FALSE, srvGA |-> FALSE, srvGALast |-> 0, wire |-> <<[sid |-> 1, k |-> "resp"]>>]>>)
        /\
        arr = (<<[conn |-> 1, sid |-> 1, r |-> 1, react |-> "close", disc |-> FALSE], [conn |-> 2, sid |-> 1, r |-> 1, react |-> "ok", disc |-> FALSE]>>)
        /\
        rq = (<<[ok |-> FALSE, pc |-> "sent", att |-> 1, conn |-> 2, sid |-> 1, err |-> "", retry |-> FALSE], [ok |-> FALSE, pc |-> "pick", att |-> 0, conn |-> 0, sid |-> 0, err |-> "", retry |-> FALSE]>>)
    )
----

_init ==
    /\ conns = _TETrace[1].conns
    /\ rq = _TETrace[1].rq
    /\ arr = _TETrace[1].arr
----

_next ==
    /\ \E i,j \in DOMAIN _TETrace:
        /\ \/ /\ j = i + 1
              /\ i = TLCGet("level")
        /\ conns  = _TETrace[i].conns
        /\ conns' = _TETrace[j].conns
        /\ rq  = _TETrace[i].rq
        /\ rq' = _TETrace[j].rq
        /\ arr  = _TETrace[i].arr
        /\ arr' = _TETrace[j].arr

\* Uncomment the ASSUME below to write the states of the error trace
\* to the given file in Json format. Note that you can pass any tuple
\* to `JsonSerialize`. For example, a sub-sequence of _TETrace.
    \* ASSUME
    \*     LET J == INSTANCE Json
    \*         IN J!JsonSerialize("H2RoundTrip_TTrace_1790186787.json", _TETrace)

=============================================================================

 Note that you can extract this module `H2RoundTrip_TEExpression`
  to a dedicated file to reuse `expression` (the module in the 
  dedicated `H2RoundTrip_TEExpression.tla` file takes precedence 
  over the module `H2RoundTrip_TEExpression` below).

---- MODULE H2RoundTrip_TEExpression ----
EXTENDS Sequences, TLCExt, H2RoundTrip, Toolbox, Naturals, TLC

expression == 
    [
        \* To hide variables of the `H2RoundTrip` spec from the error trace,
        \* remove the variables below.  The trace will be written in the order
        \* of the fields of this record.
        conns |-> conns
        ,rq |-> rq
        ,arr |-> arr
        
        \* Put additional constant-, state-, and action-level expressions here:
        \* ,_stateNumber |-> _TEPosition
        \* ,_connsUnchanged |-> conns = conns'
        
        \* Format the `conns` variable as Json value.
        \* ,_connsJson |->
        \*     LET J == INSTANCE Json
        \*     IN J!ToJson(conns)
        
        \* Lastly, you may build expressions over arbitrary sets of states by
        \* leveraging the _TETrace operator.  For example, this is how to
        \* count the number of times a spec variable changed up to the current
        \* state in the trace.
        \* ,_connsModCount |->
        \*     LET F[s \in DOMAIN _TETrace] ==
        \*         IF s = 1 THEN 0
        \*         ELSE IF _TETrace[s].conns # _TETrace[s-1].conns
        \*             THEN 1 + F[s-1] ELSE F[s-1]
        \*     IN F[_TEPosition - 1]
    ]

=============================================================================



Parsing and semantic processing can take forever if the trace below is long.
 In this case, it is advised to uncomment the module below to deserialize the
 trace from a generated binary file.

\*
\*---- MODULE H2RoundTrip_TETrace ----
\*EXTENDS IOUtils, H2RoundTrip, TLC
\*
\*trace == IODeserialize("H2RoundTrip_TTrace_1790186787.bin", TRUE)
\*
\*=============================================================================
\*

---- MODULE H2RoundTrip_TETrace ----
EXTENDS H2RoundTrip, TLC

trace == 
    <<
    ([conns |-> <<>>,arr |-> <<>>,rq |-> <<[ok |-> FALSE, pc |-> "idle", att |-> 0, conn |-> 0, sid |-> 0, err |-> "", retry |-> FALSE], [ok |-> FALSE, pc |-> "idle", att |-> 0, conn |-> 0, sid |-> 0, err |-> "", retry |-> FALSE]>>]),
    ([conns |-> <<>>,arr |-> <<>>,rq |-> <<[ok |-> FALSE, pc |-> "idle", att |-> 0, conn |-> 0, sid |-> 0, err |-> "", retry |-> FALSE], [ok |-> FALSE, pc |-> "pick", att |-> 0, conn |-> 0, sid |-> 0, err |-> "", retry |-> FALSE]>>]),
    ([conns |-> <<>>,arr |-> <<>>,rq |-> <<[ok |-> FALSE, pc |-> "pick", att |-> 0, conn |-> 0, sid |-> 0, err |-> "", retry |-> FALSE], [ok |-> FALSE, pc |-> "pick", att |-> 0, conn |-> 0, sid |-> 0, err |-> "", retry |-> FALSE]>>]),
    ([conns |-> <<[cliClosed |-> FALSE, cliGA |-> FALSE, cliGALast |-> 0, open |-> 0, next |-> 1, srvClosed |-> FALSE, srvGA |-> FALSE, srvGALast |-> 0, wire |-> <<>>]>>,arr |-> <<>>,rq |-> <<[ok |-> FALSE, pc |-> "queued", att |-> 0, conn |-> 1, sid |-> 0, err |-> "", retry |-> FALSE], [ok |-> FALSE, pc |-> "pick", att |-> 0, conn |-> 0, sid |-> 0, err |-> "", retry |-> FALSE]>>]),
    ([conns |-> <<[cliClosed |-> FALSE, cliGA |-> FALSE, cliGALast |-> 0, open |-> 1, next |-> 3, srvClosed |-> TRUE, srvGA |-> FALSE, srvGALast |-> 0, wire |-> <<[k |-> "eof"]>>]>>,arr |-> <<[conn |-> 1, sid |-> 1, r |-> 1, react |-> "close", disc |-> FALSE]>>,rq |-> <<[ok |-> FALSE, pc |-> "sent", att |-> 0, conn |-> 1, sid |-> 1, err |-> "", retry |-> FALSE], [ok |-> FALSE, pc |-> "pick", att |-> 0, conn |-> 0, sid |-> 0, err |-> "", retry |-> FALSE]>>]),
    ([conns |-> <<[cliClosed |-> TRUE, cliGA |-> FALSE, cliGALast |-> 0, open |-> 1, next |-> 3, srvClosed |-> TRUE, srvGA |-> FALSE, srvGALast |-> 0, wire |-> <<>>]>>,arr |-> <<[conn |-> 1, sid |-> 1, r |-> 1, react |-> "close", disc |-> FALSE]>>,rq |-> <<[ok |-> FALSE, pc |-> "resolved", att |-> 0, conn |-> 1, sid |-> 1, err |-> "eof", retry |-> FALSE], [ok |-> FALSE, pc |-> "pick", att |-> 0, conn |-> 0, sid |-> 0, err |-> "", retry |-> FALSE]>>]),
    ([conns |-> <<[cliClosed |-> TRUE, cliGA |-> FALSE, cliGALast |-> 0, open |-> 1, next |-> 3, srvClosed |-> TRUE, srvGA |-> FALSE, srvGALast |-> 0, wire |-> <<>>]>>,arr |-> <<[conn |-> 1, sid |-> 1, r |-> 1, react |-> "close", disc |-> FALSE]>>,rq |-> <<[ok |-> FALSE, pc |-> "pick", att |-> 1, conn |-> 0, sid |-> 0, err |-> "", retry |-> FALSE], [ok |-> FALSE, pc |-> "pick", att |-> 0, conn |-> 0, sid |-> 0, err |-> "", retry |-> FALSE]>>]),
    ([conns |-> <<[cliClosed |-> TRUE, cliGA |-> FALSE, cliGALast |-> 0, open |-> 1, next |-> 3, srvClosed |-> TRUE, srvGA |-> FALSE, srvGALast |-> 0, wire |-> <<>>], [cliClosed |-> FALSE, cliGA |-> FALSE, cliGALast |-> 0, open |-> 0, next |-> 1, srvClosed |-> FALSE, srvGA |-> FALSE, srvGALast |-> 0, wire |-> <<>>]>>,arr |-> <<[conn |-> 1, sid |-> 1, r |-> 1, react |-> "close", disc |-> FALSE]>>,rq |-> <<[ok |-> FALSE, pc |-> "queued", att |-> 1, conn |-> 2, sid |-> 0, err |-> "", retry |-> FALSE], [ok |-> FALSE, pc |-> "pick", att |-> 0, conn |-> 0, sid |-> 0, err |-> "", retry |-> FALSE]>>]),
    ([conns |-> <<[cliClosed |-> TRUE, cliGA |-> FALSE, cliGALast |-> 0, open |-> 1, next |-> 3, srvClosed |-> TRUE, srvGA |-> FALSE, srvGALast |-> 0, wire |-> <<>>], [cliClosed |-> FALSE, cliGA |-> FALSE, cliGALast |-> 0, open |-> 1, next |-> 3, srvClosed |-> FALSE, srvGA |-> FALSE, srvGALast |-> 0, wire |-> <<[sid |-> 1, k |-> "resp"]>>]>>,arr |-> <<[conn |-> 1, sid |-> 1, r |-> 1, react |-> "close", disc |-> FALSE], [conn |-> 2, sid |-> 1, r |-> 1, react |-> "ok", disc |-> FALSE]>>,rq |-> <<[ok |-> FALSE, pc |-> "sent", att |-> 1, conn |-> 2, sid |-> 1, err |-> "", retry |-> FALSE], [ok |-> FALSE, pc |-> "pick", att |-> 0, conn |-> 0, sid |-> 0, err |-> "", retry |-> FALSE]>>])
    >>
----


=============================================================================

---- CONFIG H2RoundTrip_TTrace_1790186787 ----
CONSTANTS
    NReq = 2
    MaxAttempts = 4
    MCS = 1
    MaxConns = 6
    Reactions = { "ok" , "refuse" , "rst" , "ga_below" , "ga_at_ok" , "close" , "silence" }
    Defects = { "RetryOnEOF" }

INVARIANT
    _inv

CHECK_DEADLOCK
    \* CHECK_DEADLOCK off because of PROPERTY or INVARIANT above.
    FALSE

INIT
    _init

NEXT
    _next

CONSTANT
    _TETrace <- _trace

ALIAS
    _expression
=============================================================================
\* Generated on Wed Sep 23 18:06:29 UTC 2026