SPECIFICATION Spec
CONSTANTS
  Ids = {1, 3, 5}
  Senders = {"rl", "idle", "ping"}
  Defects = {"NoRepeat"}
INVARIANT NeverGrows
CHECK_DEADLOCK FALSE
