SPECIFICATION Spec
CONSTANT Defects = {"ReleaseBeforeWrite"}
INVARIANTS NoUseAfterHandBack NoUseAcrossGenerations OneOutcome
CHECK_DEADLOCK FALSE
