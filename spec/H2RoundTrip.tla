---------------------------- MODULE H2RoundTrip ----------------------------
(* Design model of the client above a single connection: Client.RoundTrip,   *)
(* roundTripOnce, pickConn (client.go) and what Conn.Write / the two loops   *)
(* of each connection do with a request, against servers that may answer,    *)
(* refuse, reset, say GOAWAY (below / at the stream), hang up or stay silent.*)
(*                                                                           *)
(* The point of the model is the *knowledge gap*: the server acts (srv.. fields), *)
(* the client's read loop learns about it later (ClientReads), and in        *)
(* between callers keep picking connections and the write loop keeps writing.*)
(* C11 says that across every such race a request's HEADERS reach a server   *)
(* at most once unless a server disclaimed them, and that "retryable" is     *)
(* only ever said of a request no server may have processed.                 *)
(*                                                                           *)
(* Every behaviour's reactions (per request, in arrival order) are printed   *)
(* as a scenario for `h2v rt`, which plays them against the real client.     *)
EXTENDS RoundTripRules, TLC, Json, SequencesExt

CONSTANTS NReq, MaxAttempts, MCS, MaxConns, Reactions, Defects
Req == 1..NReq

VARIABLES
  conns,  \* Seq of connection records (index = dial order)
  rq,     \* per request: where its RoundTrip call is
  arr     \* HEADERS that reached a server, in arrival order: [r, conn, sid, react, disc]
vars == <<conns, rq, arr>>

Conn0 == [cliClosed |-> FALSE, cliGA |-> FALSE, cliGALast |-> 0, open |-> 0, next |-> 1,
          srvClosed |-> FALSE, srvGA |-> FALSE, srvGALast |-> 0,
          wire |-> <<>>]      \* what the server has written and the client's read loop has not read yet
R0 == [pc |-> "pick", att |-> 0, conn |-> 0, sid |-> 0, err |-> "", ok |-> FALSE, retry |-> FALSE]

Init == conns = <<>> /\ rq = [r \in Req |-> R0] /\ arr = <<>>

Retryable(err) == err \in RetryableClass
                  \/ ("RetryOnEOF" \in Defects /\ err = "eof")            \* seeded design errors, for the _bad cfg
                  \/ ("RetryOnRst" \in Defects /\ err = "rst")

\* The request's Ctx is resolved with err ("" = complete response) and RoundTrip's loop - code local to the
\* caller, no shared state, hence the same step - decides: a retryable error goes round again on another
\* connection, the fourth time it is reported as retryable.
Resolve(r, err) ==
  IF err = "" \/ ~Retryable(err) THEN [rq[r] EXCEPT !.pc = "done", !.err = err, !.ok = (err = ""), !.retry = FALSE]
  ELSE IF rq[r].att = MaxAttempts - 1 THEN [rq[r] EXCEPT !.pc = "done", !.err = err, !.retry = TRUE]
  ELSE [rq[r] EXCEPT !.pc = "pick", !.att = @ + 1, !.conn = 0, !.sid = 0, !.err = ""]

-----------------------------------------------------------------------------
\* pickConn: first connection that is not closed and can open a stream, else dial
Usable(c) == ~conns[c].cliClosed /\ ~conns[c].cliGA /\ conns[c].open < MCS
Pick(r) ==
  /\ rq[r].pc = "pick"
  /\ LET us == {c \in DOMAIN conns : Usable(c)} IN
     IF us # {} THEN
        /\ rq' = [rq EXCEPT ![r].pc = "queued", ![r].conn = CHOOSE c \in us : \A d \in us : c <= d]
        /\ UNCHANGED conns
     ELSE IF Len(conns) < MaxConns THEN
        /\ conns' = Append(conns, Conn0)
        /\ rq' = [rq EXCEPT ![r].pc = "queued", ![r].conn = Len(conns) + 1]
     ELSE
        /\ rq' = [rq EXCEPT ![r] = Resolve(r, "dial")]
        /\ UNCHANGED conns
  /\ UNCHANGED arr

\* the connection's write loop takes the request from c.in
Write(r) ==
  /\ rq[r].pc = "queued"
  /\ LET c == rq[r].conn  cn == conns[c] IN
     IF cn.cliClosed THEN
        /\ rq' = [rq EXCEPT ![r] = Resolve(r, "connclosed")] /\ UNCHANGED <<conns, arr>>
     ELSE IF cn.cliGA THEN
        /\ rq' = [rq EXCEPT ![r] = Resolve(r, "goaway-unprocessed")] /\ UNCHANGED <<conns, arr>>
     ELSE IF cn.open >= MCS THEN
        /\ rq' = [rq EXCEPT ![r] = Resolve(r, "nostreams")] /\ UNCHANGED <<conns, arr>>
     ELSE
        LET sid == cn.next IN
        /\ rq' = [rq EXCEPT ![r].pc = "sent", ![r].sid = sid]
        /\ IF cn.srvClosed THEN                      \* written into a connection the server has left: lost
              /\ conns' = [conns EXCEPT ![c].open = @ + 1, ![c].next = @ + 2]
              /\ UNCHANGED arr
           ELSE IF cn.srvGA /\ DisclaimedByGoAway(cn.srvGALast, sid) THEN   \* arrives, born disclaimed, ignored
              /\ conns' = [conns EXCEPT ![c].open = @ + 1, ![c].next = @ + 2]
              /\ arr' = Append(arr, [r |-> r, conn |-> c, sid |-> sid, react |-> "ignored", disc |-> TRUE])
           ELSE \E react \in Reactions :
              LET gl == GoAwayLast(react, sid)
                  msgs == (IF gl >= 0 THEN << [k |-> "goaway", last |-> gl] >> ELSE <<>>)
                          \o (IF Answers(react) THEN << [k |-> "resp", sid |-> sid] >> ELSE <<>>)
                          \o (IF react \in {"refuse", "rst", "hdrrst"} THEN << [k |-> "rst", sid |-> sid] >> ELSE <<>>)
                          \o (IF react \in {"close", "partial", "ga_at_close"} THEN << [k |-> "eof"] >> ELSE <<>>)
              IN
              /\ conns' = [conns EXCEPT ![c].open = @ + 1, ![c].next = @ + 2, ![c].wire = @ \o msgs,
                                        ![c].srvGA = @ \/ gl >= 0,
                                        ![c].srvGALast = IF gl >= 0 THEN (IF cn.srvGA /\ cn.srvGALast < gl THEN cn.srvGALast ELSE gl) ELSE @,
                                        ![c].srvClosed = @ \/ react \in {"close", "partial", "ga_at_close"}]
              /\ arr' = LET a1 == Append(arr, [r |-> r, conn |-> c, sid |-> sid, react |-> react, disc |-> react = "refuse"])
                        IN IF gl >= 0
                           THEN [i \in DOMAIN a1 |-> IF a1[i].conn = c /\ DisclaimedByGoAway(gl, a1[i].sid) THEN [a1[i] EXCEPT !.disc = TRUE] ELSE a1[i]]
                           ELSE a1

\* the connection's read loop takes the next thing the server wrote
OnConn(c) == {r \in Req : rq[r].conn = c /\ rq[r].pc = "sent"}
ClientReads(c) ==
  /\ conns[c].wire # <<>> /\ ~conns[c].cliClosed
  /\ LET msg == Head(conns[c].wire)  rest == Tail(conns[c].wire) IN
     CASE msg.k = "resp" ->
            /\ conns' = [conns EXCEPT ![c].wire = rest, ![c].open = IF \E r \in OnConn(c) : rq[r].sid = msg.sid THEN @ - 1 ELSE @]
            /\ rq' = [r \in Req |-> IF r \in OnConn(c) /\ rq[r].sid = msg.sid THEN Resolve(r, "") ELSE rq[r]]
       [] msg.k = "rst" ->
            /\ conns' = [conns EXCEPT ![c].wire = rest, ![c].open = IF \E r \in OnConn(c) : rq[r].sid = msg.sid THEN @ - 1 ELSE @]
            /\ rq' = [r \in Req |-> IF r \in OnConn(c) /\ rq[r].sid = msg.sid THEN Resolve(r, "rst") ELSE rq[r]]
       [] msg.k = "goaway" ->
            LET above == {r \in OnConn(c) : rq[r].sid > msg.last} IN
            /\ conns' = [conns EXCEPT ![c].wire = rest, ![c].cliGA = TRUE, ![c].cliGALast = msg.last, ![c].open = @ - Cardinality(above)]
            /\ rq' = [r \in Req |-> IF r \in above THEN Resolve(r, "goaway-unprocessed") ELSE rq[r]]
       [] msg.k = "eof" ->
            /\ conns' = [conns EXCEPT ![c].wire = <<>>, ![c].cliClosed = TRUE]
            /\ rq' = [r \in Req |-> IF r \in OnConn(c) THEN Resolve(r, "eof") ELSE rq[r]]
  /\ UNCHANGED arr

\* MaxResponseTime: the request's timer fires (only ever needed when nothing is coming)
Timeout(r) ==
  /\ rq[r].pc = "sent"
  /\ \A i \in DOMAIN conns[rq[r].conn].wire : LET msg == conns[rq[r].conn].wire[i] IN
        ~(msg.k = "eof" \/ (msg.k \in {"resp", "rst"} /\ msg.sid = rq[r].sid) \/ (msg.k = "goaway" /\ msg.last < rq[r].sid))
  /\ rq' = [rq EXCEPT ![r] = Resolve(r, "timeout")]
  /\ conns' = [conns EXCEPT ![rq[r].conn].open = @ - 1]
  /\ UNCHANGED arr

Next == \/ \E r \in Req : Pick(r) \/ Write(r) \/ Timeout(r)
        \/ \E c \in DOMAIN conns : ClientReads(c)

Spec == Init /\ [][Next]_vars /\ WF_vars(Next)

-----------------------------------------------------------------------------
ArrOf(r) == SelectSeq(arr, LAMBDA a : a.r = r)

\* C11: a request's HEADERS reach a server again only after every earlier arrival was disclaimed
C11_AtMostOnce == \A r \in Req : LET s == ArrOf(r) IN \A i \in 1..(Len(s) - 1) : s[i].disc
\* C11: "retryable" is only said of a request no server may have processed
C11_RetryTruth == \A r \in Req : rq[r].pc = "done" /\ rq[r].retry => \A i \in DOMAIN arr : arr[i].r = r => arr[i].disc
\* C12 / C02: success means a server answered this very request
C12_SuccessTruth == \A r \in Req : rq[r].pc = "done" /\ rq[r].ok =>
                       LET s == ArrOf(r) IN Len(s) > 0 /\ Answers(s[Len(s)].react)
\* C11: a request at or below last-stream-id that the server answered completes
C11_AnsweredCompletes == \A r \in Req : rq[r].pc = "done" /\ ~rq[r].ok =>
                       LET s == ArrOf(r) IN Len(s) > 0 => ~(s[Len(s)].react = "ga_at_ok") \/ rq[r].err = "eof"
\* C12: every call returns
C12_AllReturn == <>(\A r \in Req : rq[r].pc = "done")

Terminal == \A r \in Req : rq[r].pc = "done"
ReactLists == [r \in Req |-> LET s == ArrOf(r) IN [i \in DOMAIN s |-> s[i].react]]
EmitState == IF Terminal THEN PrintT("SCEN " \o ToJson([react |-> ReactLists, mcs |-> MCS, n |-> NReq])) ELSE TRUE
=============================================================================
