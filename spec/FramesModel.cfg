SPECIFICATION Spec
CONSTANTS
  Types = {0, 1, 2, 3, 4, 5, 6, 7, 8, 9, 10, 255}
  Flags = {0, 1, 5, 45, 210, 255}
  Sids = {0, 1, 2147483647}
  BodyLens = {0, 1, 7}
  Pads = {0, 1, 255}
  Halves = {0, 13, 65535}
INVARIANTS IRoundTrip IConsumed IResync IRIgnored IPaddingStripped ISizeLimit ITruncated IFixedSizes IPadBounds
CHECK_DEADLOCK FALSE
