---------------------------- MODULE HpackTrace ----------------------------
(* Trace validation for C03 (HPACK decoder) and C04 (HPACK encoder).        *)
(* Every ndjson line is one connection history recorded by the harness      *)
(* (`h2v hpackdec` / `h2v hpackenc`, see harness/hpack.go for the schema)   *)
(* and is judged by the RFC 7541 operators of HpackWire.tla / Hpack.tla.    *)
(* Histories are independent: each line is its own initial state, TLC's     *)
(* workers judge them in parallel.                                          *)
(*                                                                          *)
(* C03  the spec re-decodes the recorded input bytes from its OWN state and *)
(*      requires of the real decoder (both ways it is called in the         *)
(*      library: block-aware VerifNextField = "srv", public Next = "nxt"):  *)
(*      same accept/reject per block; when accepted the same                *)
(*      (name, value, sensitive) triples in order, the same dynamic table   *)
(*      and the same current maximum size.  A block the spec rejects ends   *)
(*      the history (connection error).                                     *)
(* C04  the spec parses the bytes the real AppendHeader produced (must be a *)
(*      complete valid block), applies them to an RFC decoder whose limit   *)
(*      follows the SetMaxTableSize calls, and requires: decoded fields =   *)
(*      input fields, sensitive input => never-indexed literal, decoder     *)
(*      table = logged encoder table, same current maximum, table size <=   *)
(*      the peer's limit, and RFC 7541 4.2: if the limit went below the     *)
(*      current maximum since the last block (at its MINIMUM over several   *)
(*      changes) the block starts with a size update <= that minimum.       *)
(*                                                                          *)
(* Verdict lines:  "BAD <t> <classes> <mode> <block>"   a real-code trace   *)
(*                 the spec rejects; <classes> = "none" or the comma list   *)
(*                 of known-defect INPUT signatures the failing point       *)
(*                 exhibits (see the *Class operators: each is as narrow as *)
(*                 the defect, so any other failure stays "none").          *)
(*                 "SELFBAD <t> <block>"  the spec disagrees with x/net on  *)
(*                 the pure decoding of the same bytes: a SPEC problem.     *)
EXTENDS Hpack, Json, IOUtils

Trace == ndJsonDeserialize(IOEnv.VERIF_TRACE)

VARIABLES i, done
vars == <<i, done>>

Idx(n) == [k \in 1..n |-> k]

\* first index where a and b differ; 0 if equal; shorter length + 1 if one is a proper prefix
FirstDiff(a, b) ==
  LET m == MinI(Len(a), Len(b))
      r == FoldLeft(LAMBDA acc, k : IF acc # 0 THEN acc ELSE IF a[k] # b[k] THEN k ELSE 0, 0, Idx(m)) IN
  IF r # 0 THEN r ELSE IF Len(a) = Len(b) THEN 0 ELSE m + 1

MinOf(s) == FoldLeft(LAMBDA acc, x : IF x < acc THEN x ELSE acc, HUGE, s)

\* (explicit cases: a FoldLeft over strings with \o was measured at seconds per call in TLC)
Join(ss) == CASE Len(ss) = 0 -> "none"
              [] Len(ss) = 1 -> ss[1]
              [] Len(ss) = 2 -> ss[1] \o "," \o ss[2]
              [] Len(ss) = 3 -> ss[1] \o "," \o ss[2] \o "," \o ss[3]
              [] OTHER       -> ss[1] \o "," \o ss[2] \o "," \o ss[3] \o "," \o ss[4]

Msg(kind, t, cls, mode, bi) == kind \o " " \o ToString(t) \o " " \o cls \o " " \o mode \o " " \o ToString(bi)

-----------------------------------------------------------------------------
(* C03                                                                      *)

\* r = what the real decoder did with the block; D = DecodeBlock of the same bytes
DecVerdict(D, r) ==
  IF D.cls # "" THEN (IF r.err THEN "ok" ELSE "bad")          \* RFC 7541 makes the block invalid: must be rejected
  ELSE IF r.err THEN "bad"
  ELSE IF r.got = D.out /\ r.tab = D.st.dyn /\ r.max = D.st.max THEN "ok" ELSE "bad"

\* Defect signatures (INPUT conditions at the failing point of the block):
\*  D04  at or before the failing representation the block has a literal whose value string
\*       literal starts with the same octet as the representation itself
\*  D05  the only difference is sensitive = TRUE on a field that is not never-indexed, and a
\*       never-indexed literal was decoded earlier on the connection
\*  D06  public Next ("nxt"): the block has a size update after a field representation
\*  D06b a prefix integer with more than nine continuation octets
\*  D11  the block ends in a size update and the decoder reported one extra field
DecClass(D, r, mode, neverBefore) ==
  LET k  == FirstDiff(r.got, D.out)
      kk == IF k = 0 THEN Len(D.out) + 1 ELSE k
      coll == IF kk <= Len(D.meta) THEN D.meta[kk].anycoll ELSE D.anycoll
      d05 == /\ k # 0 /\ k <= Len(D.out) /\ k <= Len(r.got)
             /\ r.got[k][1] = D.out[k][1] /\ r.got[k][2] = D.out[k][2]
             /\ r.got[k][3] = TRUE /\ D.out[k][3] = FALSE
             /\ (neverBefore \/ D.meta[k].never)
      d06 == mode = "nxt" /\ D.cls = "updateafterfield"
      d06b == D.cls = "intoverflow"
      d11 == D.cls = "" /\ D.trail /\ ~r.err /\ Len(r.got) = Len(D.out) + 1 /\ k = Len(D.out) + 1 IN
  \* most specific failure shape first: the check takes the first listed signature that is still a
  \* known finding; D04 (any failure at or after a colliding literal) is the least specific
  Join((IF d05 THEN <<"D05_sensitive_sticks">> ELSE <<>>)
       \o (IF d06 THEN <<"D06_next_update_after_field">> ELSE <<>>)
       \o (IF d06b THEN <<"D06b_int_over_nine_continuations">> ELSE <<>>)
       \o (IF d11 THEN <<"D11_phantom_field_after_trailing_update">> ELSE <<>>)
       \o (IF coll THEN <<"D04_valuelen_eq_repr">> ELSE <<>>))

\* Oracle self-check against golang.org/x/net (pure decoding).  Two documented deviations of
\* x/net are tolerated: it lets a size update through after a field when its table is empty,
\* and it refuses a second size update at the start of a block when its table is not empty.
\* "stop": x/net's state may have diverged, it is not consulted any further on this history.
SelfVerdict(D, x) ==
  IF D.cls # "" THEN (IF x.err \/ D.cls = "updateafterfield" THEN "stop" ELSE "bad")
  ELSE IF x.err THEN (IF Len(D.upd) >= 2 THEN "stop" ELSE "bad")
  ELSE IF x.got = D.out THEN "ok" ELSE "bad"

DecAcc0(lim) == [st |-> InitState(lim), dead |-> FALSE, srv |-> TRUE, nxt |-> TRUE, x |-> TRUE,
                 never |-> FALSE, msgs |-> <<>>, bi |-> 1]

DecBlockStep(a, blk, t) ==
  IF a.dead THEN a
  ELSE LET D  == DecodeBlock(a.st, blk.in)
           rn == IF blk.same THEN blk.srv ELSE blk.nxt     \* the harness omits "nxt" when it equals "srv"
           sv == IF a.srv THEN DecVerdict(D, blk.srv) ELSE "skip"
           nv == IF a.nxt THEN DecVerdict(D, rn) ELSE "skip"
           xv == IF a.x THEN SelfVerdict(D, blk.x) ELSE "skip"
           srvl == a.srv /\ sv = "ok"
           nxtl == a.nxt /\ nv = "ok" IN
    [st |-> D.st,
     dead |-> D.cls # "" \/ (~srvl /\ ~nxtl),
     srv |-> srvl, nxt |-> nxtl, x |-> a.x /\ xv = "ok",
     never |-> a.never \/ D.never,
     msgs |-> a.msgs
              \o (IF sv = "bad" THEN << Msg("BAD", t, DecClass(D, blk.srv, "srv", a.never), "srv", a.bi) >> ELSE <<>>)
              \o (IF nv = "bad" THEN << Msg("BAD", t, DecClass(D, rn, "nxt", a.never), "nxt", a.bi) >> ELSE <<>>)
              \o (IF xv = "bad" THEN << Msg("SELFBAD", t, "x", "x", a.bi) >> ELSE <<>>),
     bi |-> a.bi + 1]

JudgeDec(e) == FoldLeft(LAMBDA a, blk : DecBlockStep(a, blk, e.t), DecAcc0(e.lim), e.blocks).msgs

-----------------------------------------------------------------------------
(* C04                                                                      *)

LastOf(s) == s[Len(s)]

\* What the encoder under test looks up for a field (HPACK.search): a full match in the
\* dynamic table (the OLDEST one), else the first full match in the static table, else the
\* first static entry with that name.  Only used to phrase the defect signatures in terms
\* of the INPUT (which table index the field maps to).
SimSearch(st, n, v) ==
  LET dj == FoldLeft(LAMBDA acc, j : IF st.dyn[j] = <<n, v>> THEN j ELSE acc, 0, Idx(Len(st.dyn)))
      sf == FoldLeft(LAMBDA acc, j : IF acc # 0 THEN acc ELSE IF Static[j] = <<n, v>> THEN j ELSE 0, 0, Idx(StaticLen))
      sn == FoldLeft(LAMBDA acc, j : IF acc # 0 THEN acc ELSE IF Static[j][1] = n THEN j ELSE 0, 0, Idx(StaticLen)) IN
  IF dj # 0 THEN [idx |-> StaticLen + dj, full |-> TRUE]
  ELSE IF sf # 0 THEN [idx |-> sf, full |-> TRUE]
  ELSE [idx |-> sn, full |-> FALSE]

\* Signatures for the field f = <<name, value, sensitive, store>> that is the first one not
\* decoded back correctly, st = decoder (= encoder) table just before it (for the first field of a
\* block: the table at the end of the previous block cut to the smallest limit set since, which is
\* what the encoder has left; otherwise the table after the previous field's representation):
\*  D08  the RFC encoding of the representation the encoder picks contains a prefix integer
\*       equal to 2^N-1 (index 15 / 63 / 127 for N = 4 / 6 / 7, string length 127, size 31)
\*  D07  the field is sent as a literal and the octets before the value string end in 0x00
\*       (literal name whose string literal ends in 0x00 - raw NUL, Huffman form ending in a
\*       zero octet, empty name - or a name index equal to 2^N-1, whose integer ends in 0x00)
\*  D09  sensitive field whose name has a table index >= 16 (does not fit the 4-bit prefix)
EncFieldClasses(st, f, nocomp, first, nset) ==
  LET s    == SimSearch(st, f[1], f[2])
      sens == f[3]
      store == f[4]
      idx  == s.idx
      isIndexed == ~sens /\ idx > 0 /\ s.full
      n    == IF sens THEN 4 ELSE IF isIndexed THEN 7 ELSE IF idx > 0 /\ ~store THEN 4 ELSE 6
      huff == ~nocomp /\ ~sens
      nameLit == EncStr(f[1], huff)
      valLen == IF huff THEN Len(Encode(f[2])) ELSE Len(f[2])
      nameLen == IF huff THEN Len(Encode(f[1])) ELSE Len(f[1])
      intMax == \/ (idx > 0 /\ idx = PMax(n))
                \/ (~isIndexed /\ valLen = 127)
                \/ (~isIndexed /\ idx = 0 /\ nameLen = 127)
                \/ (first /\ nset > 0 /\ st.limit = 31)
      d07 == /\ ~isIndexed
             /\ \/ (idx = 0 /\ LastOf(nameLit) = 0)
                \/ (idx > 0 /\ idx = PMax(n))
      d09 == sens /\ idx >= 16 IN
  (IF intMax THEN <<"D08_int_eq_prefix_max">> ELSE <<>>)
  \o (IF d07 THEN <<"D07_name_ends_in_zero">> ELSE <<>>)
  \o (IF d09 THEN <<"D09_sensitive_index_ge16">> ELSE <<>>)

\* comparable projections of decoded and input fields over their common length
EncK(D, F) ==
  LET m == MinI(Len(D.out), Len(F))
      \* (the triple is compared whole: a field the caller did not mark sensitive must not come out never-indexed either -
      \* it would stay uncompressed at every hop behind this one)
      A == [k \in 1..m |-> <<D.out[k][1], D.out[k][2], F[k][3] = D.out[k][3]>>]
      B == [k \in 1..m |-> <<F[k][1], F[k][2], TRUE>>]
      kd == FirstDiff(A, B) IN
  IF kd # 0 THEN kd ELSE IF Len(D.out) = Len(F) THEN 0 ELSE m + 1

\* RFC 7541 4.2 as seen by the peer: a.minlim = smallest limit set since the last block
UpdateOK(a, D) == (a.nset > 0 /\ a.minlim < a.st.max) => (D.upd # <<>> /\ MinOf(D.upd) <= a.minlim)

EncVerdict(a, D, op) ==
  /\ D.cls = ""
  /\ EncK(D, op.fields) = 0
  /\ D.st.dyn = op.tab
  /\ D.st.max = op.max
  /\ TableSize(op.tab) <= a.st.limit
  /\ UpdateOK(a, D)

\*  D10  no field is wrong, but the limit was changed twice or more since the last block and the
\*       minimum is below the last value (only the last value gets announced)
EncClass(a, D, op, nocomp) ==
  LET F == op.fields
      k == EncK(D, F)
      d10 == D.cls = "" /\ k = 0 /\ a.nset >= 2 /\ a.minlim < a.st.limit
      \* table before field j as the ENCODER has it (see EncFieldClasses)
      Before(j) == IF j = 1 THEN (IF a.nset > 0 THEN Resize(a.st, a.minlim) ELSE a.st) ELSE D.meta[j - 1].after
      At(j) == EncFieldClasses(Before(j), F[j], nocomp, j = 1, a.nset) IN
  IF d10 THEN "D10_two_size_changes_announce_last"
  ELSE IF k >= 1 /\ k <= Len(F)
       \* the first field that does not decode back, or the one just before it: a mis-encoded field
       \* can decode to itself by taking octets of its successor (e.g. sensitive accept-charset with an
       \* empty value: `1f 00` reads as index 15 and the value is taken from the next field)
       THEN Join(At(k) \o (IF k >= 2 THEN At(k - 1) ELSE <<>>))
       ELSE "none"

EncSelf(D, x) ==
  IF D.cls # "" THEN (IF x.err \/ D.cls = "updateafterfield" THEN "stop" ELSE "bad")
  ELSE IF x.err THEN (IF Len(D.upd) >= 2 THEN "stop" ELSE "bad")
  ELSE IF x.got = D.out THEN "ok" ELSE "bad"

EncAcc0 == [st |-> InitState(4096), dead |-> FALSE, x |-> TRUE, minlim |-> 0, nset |-> 0, msgs |-> <<>>, bi |-> 1]

EncOpStep(a, op, e) ==
  IF a.dead THEN a
  ELSE IF op.op = "setmax"
  THEN [a EXCEPT !.st = [a.st EXCEPT !.limit = op.n],
                 !.minlim = IF a.nset = 0 THEN op.n ELSE MinI(a.minlim, op.n),
                 !.nset = a.nset + 1, !.bi = a.bi + 1]
  ELSE LET D  == DecodeBlock(a.st, op.out)
           ok == EncVerdict(a, D, op)
           xv == IF a.x THEN EncSelf(D, op.x) ELSE "skip" IN
    [st |-> D.st, dead |-> ~ok, x |-> a.x /\ xv = "ok", minlim |-> 0, nset |-> 0,
     msgs |-> a.msgs
              \o (IF ~ok THEN << Msg("BAD", e.t, EncClass(a, D, op, e.nocomp), "enc", a.bi) >> ELSE <<>>)
              \o (IF xv = "bad" THEN << Msg("SELFBAD", e.t, "x", "x", a.bi) >> ELSE <<>>),
     bi |-> a.bi + 1]

JudgeEnc(e) == FoldLeft(LAMBDA a, op : EncOpStep(a, op, e), EncAcc0, e.ops).msgs

-----------------------------------------------------------------------------
Judge(e) == IF e.k = "dec" THEN JudgeDec(e) ELSE JudgeEnc(e)

Init == i \in 1..Len(Trace) /\ done = FALSE
Next == /\ ~done
        /\ done' = TRUE
        /\ i' = i
        /\ LET msgs == Judge(Trace[i]) IN \A j \in 1..Len(msgs) : PrintT(msgs[j])
Spec == Init /\ [][Next]_vars
=============================================================================
