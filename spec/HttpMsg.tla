----------------------------- MODULE HttpMsg -----------------------------
(* RFC 7540 section 8.1.2: well-formedness of HTTP/2 request and response  *)
(* header lists (C20).  Pure operators.  A field is <<name, value>> with    *)
(* name and value sequences of bytes 0..255.  CONNECT and names/values      *)
(* outside the token / field-value grammar are out of scope (the property   *)
(* leaves them out).                                                        *)
EXTENDS Integers, Sequences, SequencesExt, FiniteSets, Bytes

IsPseudo(n) == Len(n) > 0 /\ n[1] = 58
HasUpper(n) == \E i \in DOMAIN n : n[i] \in 65..90
IsDigits(v) == Len(v) > 0 /\ \A i \in DOMAIN v : v[i] \in 48..57

ConnSpecific == {B_connection, B_keepalive, B_proxyconn, B_transferenc, B_upgrade}
ReqPseudo == {B_method, B_scheme, B_path, B_authority}

Names(fields) == [i \in DOMAIN fields |-> fields[i][1]]
Count(fields, n) == Cardinality({i \in DOMAIN fields : fields[i][1] = n})
ValuesOf(fields, n) == {fields[i][2] : i \in {j \in DOMAIN fields : fields[j][1] = n}}

\* all pseudo-header fields come before all regular fields
PseudoFirst(fields) ==
  \A i, j \in DOMAIN fields : (i < j /\ IsPseudo(fields[j][1])) => IsPseudo(fields[i][1])

\* decimal digits of a natural number < 2^31 (at most 10 digits), no leading zeros ("0" for 0)
DigitsOf(n) ==
  LET step(acc, k) == IF acc.n = 0 /\ acc.d # <<>> THEN acc
                      ELSE [n |-> acc.n \div 10, d |-> <<48 + (acc.n % 10)>> \o acc.d]
  IN FoldLeft(step, [n |-> n, d |-> <<>>], <<1,2,3,4,5,6,7,8,9,10>>).d

StripZeros(v) ==
  LET step(acc, b) == IF acc = <<>> /\ b = 48 THEN acc ELSE Append(acc, b)
      r == FoldLeft(step, <<>>, v)
  IN IF r = <<>> THEN <<48>> ELSE r

\* the content-length fields (if any) are decimal and all equal bodyLen
ContentLengthOK(fields, bodyLen) ==
  \A v \in ValuesOf(fields, B_contentlength) : IsDigits(v) /\ StripZeros(v) = DigitsOf(bodyLen)

RegularOK(fields) ==
  /\ \A i \in DOMAIN fields : ~HasUpper(fields[i][1])
  /\ \A i \in DOMAIN fields : fields[i][1] \notin ConnSpecific
  /\ \A v \in ValuesOf(fields, B_te) : v = B_trailers

\* reasons a request is malformed (empty set = well-formed); named for diagnostics
ReqDefects(fields, bodyLen, trailers) ==
  (IF \E i \in DOMAIN fields : HasUpper(fields[i][1]) THEN {"upper"} ELSE {}) \cup
  (IF \E i \in DOMAIN fields : IsPseudo(fields[i][1]) /\ fields[i][1] \notin ReqPseudo THEN {"badpseudo"} ELSE {}) \cup
  (IF \E n \in ReqPseudo : Count(fields, n) > 1 THEN {"duppseudo"} ELSE {}) \cup
  (IF ~PseudoFirst(fields) THEN {"pseudoafter"} ELSE {}) \cup
  (IF Count(fields, B_method) = 0 \/ Count(fields, B_scheme) = 0 \/ Count(fields, B_path) = 0 THEN {"missing"} ELSE {}) \cup
  (IF <<>> \in ValuesOf(fields, B_path) THEN {"emptypath"} ELSE {}) \cup
  (IF \E i \in DOMAIN fields : fields[i][1] \in ConnSpecific THEN {"connspecific"} ELSE {}) \cup
  (IF \E v \in ValuesOf(fields, B_te) : v # B_trailers THEN {"te"} ELSE {}) \cup
  (IF ~ContentLengthOK(fields, bodyLen) THEN {"contentlength"} ELSE {}) \cup
  (IF \E i \in DOMAIN trailers : IsPseudo(trailers[i][1]) \/ HasUpper(trailers[i][1]) THEN {"trailers"} ELSE {})

\* header-level defects only (those detectable before the body is complete)
HdrDefects(fields) == ReqDefects(fields, 0, <<>>) \ {"contentlength"}
\* content-length syntactically invalid (detectable at the header block)
BadCLSyntax(fields) == \E v \in ValuesOf(fields, B_contentlength) : ~IsDigits(v)

WellFormedRequest(fields, bodyLen, trailers) == ReqDefects(fields, bodyLen, trailers) = {}

RespDefects(fields) ==
  (IF \E i \in DOMAIN fields : HasUpper(fields[i][1]) THEN {"upper"} ELSE {}) \cup
  (IF \E i \in DOMAIN fields : IsPseudo(fields[i][1]) /\ fields[i][1] # B_status THEN {"badpseudo"} ELSE {}) \cup
  (IF Count(fields, B_status) # 1 THEN {"status"} ELSE {}) \cup
  (IF ~PseudoFirst(fields) THEN {"pseudoafter"} ELSE {}) \cup
  (IF \E v \in ValuesOf(fields, B_status) : ~(Len(v) = 3 /\ IsDigits(v) /\ v[1] # 48) THEN {"statusvalue"} ELSE {}) \cup
  (IF \E i \in DOMAIN fields : fields[i][1] \in ConnSpecific THEN {"connspecific"} ELSE {}) \cup
  (IF \E v \in ValuesOf(fields, B_contentlength) : ~IsDigits(v) THEN {"contentlength"} ELSE {})

WellFormedResponse(fields) == RespDefects(fields) = {}
=============================================================================
