---------------------------- MODULE CtxOwnership ----------------------------
(* Ownership of one client request context (client.go: Ctx) between the      *)
(* caller of RoundTrip, the connection's write loop, its read loop and the   *)
(* request's timer - the protocol behind C12 ("resolves exactly once") and   *)
(* the client half of C19 ("never handed to a new owner while a previous     *)
(* owner can still touch it").                                               *)
(*                                                                           *)
(*   caller     Write(ctx); wait for Err; takeBack (lck; done := TRUE);      *)
(*              stop the timer; if the connection has let go of the Ctx and  *)
(*              the timer was stopped in time, put it back in the pool;      *)
(*              the next request may then get the same Ctx                   *)
(*   write loop acquire (lck, unless done) - read Request, write frames -    *)
(*              release                                                      *)
(*   read loop  acquire (lck, unless done) - fill Response - resolve -       *)
(*              release; markFinished once the stream is out of the table    *)
(*   timer      fires after MaxResponseTime: resolve(timeout)                *)
(*                                                                           *)
(* Request / Response belong to the caller again the moment takeBack has     *)
(* returned.  Defects switches reproduce two seeded changes the checks had   *)
(* to learn to see (C19-1, C19-5) and show what each breaks.                 *)
EXTENDS Integers, FiniteSets, TLC

CONSTANTS Defects   \* subset of {"ReleaseBeforeWrite", "IgnoreTimerStop"}

VARIABLES
  lck,        \* who holds Ctx.lck: "none" | "wl" | "rl" | "caller"
  done,       \* Ctx.done: the caller has taken Request / Response back
  err,        \* what is in the (buffered, size 1) Err channel: "none" | "ok" | "timeout"
  resolved,   \* Ctx.resolved (under resLck): set by takeBack, makes later resolves no-ops
  finished,   \* the connection has dropped the stream from its tables
  caller,     \* "waiting" | "returned" | "pooled"
  wl,         \* write loop: "idle" | "holding" | "writing" (touching Request) | "doneW"
  rl,         \* read loop: "idle" | "holding" | "doneR"
  timer,      \* "armed" | "fired" (callback running or about to) | "stopped" | "done"
  gen,        \* generation of the Ctx: bumped when it leaves the pool for the next request
  got,        \* what the caller received for generation 0
  touched     \* set of <<who, generation the toucher thought it had, generation at the time>> for every use of Request / Response
vars == <<lck, done, err, resolved, finished, caller, wl, rl, timer, gen, got, touched>>

Init == /\ lck = "none" /\ done = FALSE /\ err = "none" /\ resolved = FALSE /\ finished = FALSE
        /\ caller = "waiting" /\ wl = "idle" /\ rl = "idle" /\ timer = "armed" /\ gen = 0 /\ got = "none" /\ touched = {}

Resolve(e) == IF ~resolved /\ err = "none" THEN e ELSE err      \* select { case Err <- e: default: } under resLck

\* ---- write loop: send the body (the only place the caller's Request is read)
WAcquire == /\ wl = "idle" /\ lck = "none" /\ gen = 0
            /\ IF done THEN wl' = "doneW" /\ UNCHANGED lck ELSE wl' = "holding" /\ lck' = "wl"
            /\ UNCHANGED <<done, err, resolved, finished, caller, rl, timer, gen, got, touched>>
WWrite == /\ wl = "holding"
          /\ IF "ReleaseBeforeWrite" \in Defects
             THEN lck' = "none"                 \* C19-1: the Ctx is let go before the (possibly long) write
             ELSE UNCHANGED lck
          /\ wl' = "writing"
          /\ UNCHANGED <<done, err, resolved, finished, caller, rl, timer, gen, got, touched>>
WTouch == /\ wl = "writing"
          /\ touched' = touched \cup {<<"wl", 0, gen, done>>}
          /\ wl' = "doneW" /\ lck' = IF lck = "wl" THEN "none" ELSE lck
          /\ UNCHANGED <<done, err, resolved, finished, caller, rl, timer, gen, got>>

\* ---- read loop: the response arrives (or never does: then only the timer resolves)
RAcquire == /\ rl = "idle" /\ lck = "none" /\ gen = 0
            /\ IF done THEN rl' = "doneR" /\ finished' = TRUE /\ UNCHANGED lck
               ELSE rl' = "holding" /\ lck' = "rl" /\ UNCHANGED finished
            /\ UNCHANGED <<done, err, resolved, caller, wl, timer, gen, got, touched>>
RFinish == /\ rl = "holding"
           /\ touched' = touched \cup {<<"rl", 0, gen, done>>}
           /\ err' = Resolve("ok") /\ finished' = TRUE
           /\ rl' = "doneR" /\ lck' = "none"
           /\ UNCHANGED <<done, resolved, caller, wl, timer, gen, got>>

\* ---- timer
Fire == /\ timer = "armed" /\ timer' = "fired"
        /\ UNCHANGED <<lck, done, err, resolved, finished, caller, wl, rl, gen, got, touched>>
FireRun == /\ timer = "fired"
           /\ err' = Resolve("timeout")
           /\ touched' = touched \cup {<<"timer", 0, gen, FALSE>>}    \* the callback uses the Ctx it was armed for
           /\ timer' = "done"
           /\ UNCHANGED <<lck, done, resolved, finished, caller, wl, rl, gen, got>>

\* ---- caller
Receive == /\ caller = "waiting" /\ err # "none" /\ lck = "none"        \* <-ctx.Err, then takeBack needs lck
           /\ got' = err /\ done' = TRUE /\ resolved' = TRUE
           /\ caller' = "returned"
           /\ timer' = IF timer = "armed" THEN "stopped" ELSE timer      \* timer.Stop(): too late if it has fired
           /\ UNCHANGED <<lck, err, finished, wl, rl, gen, touched>>
\* reusable(): back into the pool only when the connection has finished with it and the timer will not run
Pool == /\ caller = "returned"
        /\ finished
        /\ ("IgnoreTimerStop" \in Defects \/ timer \in {"stopped", "done"})     \* C19-5 drops the second condition
        /\ caller' = "pooled" /\ gen' = gen + 1
        /\ UNCHANGED <<lck, done, err, resolved, finished, wl, rl, timer, got, touched>>

Next == WAcquire \/ WWrite \/ WTouch \/ RAcquire \/ RFinish \/ Fire \/ FireRun \/ Receive \/ Pool
Spec == Init /\ [][Next]_vars

\* C19 (client): nobody uses Request / Response after the caller has taken them back ...
NoUseAfterHandBack == \A t \in touched : t[1] \in {"wl", "rl"} => ~t[4]
\* ... and nobody reaches the Ctx of one request once the next request owns it
NoUseAcrossGenerations == \A t \in touched : t[2] = t[3]
\* C12: the caller gets exactly one outcome; once it has returned nothing else is delivered to it
OneOutcome == caller # "waiting" => got \in {"ok", "timeout"}
=============================================================================
