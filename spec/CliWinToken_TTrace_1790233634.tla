---- MODULE CliWinToken_TTrace_1790233634 ----
EXTENDS Sequences, TLCExt, Toolbox, CliWinToken, Naturals, TLC

_expression ==
    LET CliWinToken_TEExpression == INSTANCE CliWinToken_TEExpression
    IN CliWinToken_TEExpression!expression
----

_trace ==
    LET CliWinToken_TETrace == INSTANCE CliWinToken_TETrace
    IN CliWinToken_TETrace!trace
----

_inv ==
    ~(
        TLCGet("level") = Len(_TETrace)
        /\
        todo = ({})
        /\
        winC = (1)
        /\
        grants = (2)
        /\
        pc = ("idle")
        /\
        need = ([x |-> 2, y |-> 2, z |-> 2])
        /\
        win = ([x |-> 1, y |-> 0, z |-> 0])
        /\
        token = (FALSE)
    )
----

_init ==
    /\ need = _TETrace[1].need
    /\ todo = _TETrace[1].todo
    /\ token = _TETrace[1].token
    /\ win = _TETrace[1].win
    /\ winC = _TETrace[1].winC
    /\ pc = _TETrace[1].pc
    /\ grants = _TETrace[1].grants
----

_next ==
    /\ \E i,j \in DOMAIN _TETrace:
        /\ \/ /\ j = i + 1
              /\ i = TLCGet("level")
        /\ need  = _TETrace[i].need
        /\ need' = _TETrace[j].need
        /\ todo  = _TETrace[i].todo
        /\ todo' = _TETrace[j].todo
        /\ token  = _TETrace[i].token
        /\ token' = _TETrace[j].token
        /\ win  = _TETrace[i].win
        /\ win' = _TETrace[j].win
        /\ winC  = _TETrace[i].winC
        /\ winC' = _TETrace[j].winC
        /\ pc  = _TETrace[i].pc
        /\ pc' = _TETrace[j].pc
        /\ grants  = _TETrace[i].grants
        /\ grants' = _TETrace[j].grants

\* Uncomment the ASSUME below to write the states of the error trace
\* to the given file in Json format. Note that you can pass any tuple
\* to `JsonSerialize`. For example, a sub-sequence of _TETrace.
    \* ASSUME
    \*     LET J == INSTANCE Json
    \*         IN J!JsonSerialize("CliWinToken_TTrace_1790233634.json", _TETrace)

=============================================================================

 Note that you can extract this module `CliWinToken_TEExpression`
  to a dedicated file to reuse `expression` (the module in the 
  dedicated `CliWinToken_TEExpression.tla` file takes precedence 
  over the module `CliWinToken_TEExpression` below).

---- MODULE CliWinToken_TEExpression ----
EXTENDS Sequences, TLCExt, Toolbox, CliWinToken, Naturals, TLC

expression == 
    [
        \* To hide variables of the `CliWinToken` spec from the error trace,
        \* remove the variables below.  The trace will be written in the order
        \* of the fields of this record.
        need |-> need
        ,todo |-> todo
        ,token |-> token
        ,win |-> win
        ,winC |-> winC
        ,pc |-> pc
        ,grants |-> grants
        
        \* Put additional constant-, state-, and action-level expressions here:
        \* ,_stateNumber |-> _TEPosition
        \* ,_needUnchanged |-> need = need'
        
        \* Format the `need` variable as Json value.
        \* ,_needJson |->
        \*     LET J == INSTANCE Json
        \*     IN J!ToJson(need)
        
        \* Lastly, you may build expressions over arbitrary sets of states by
        \* leveraging the _TETrace operator.  For example, this is how to
        \* count the number of times a spec variable changed up to the current
        \* state in the trace.
        \* ,_needModCount |->
        \*     LET F[s \in DOMAIN _TETrace] ==
        \*         IF s = 1 THEN 0
        \*         ELSE IF _TETrace[s].need # _TETrace[s-1].need
        \*             THEN 1 + F[s-1] ELSE F[s-1]
        \*     IN F[_TEPosition - 1]
    ]

=============================================================================



Parsing and semantic processing can take forever if the trace below is long.
 In this case, it is advised to uncomment the module below to deserialize the
 trace from a generated binary file.

\*
\*---- MODULE CliWinToken_TETrace ----
\*EXTENDS IOUtils, CliWinToken, TLC
\*
\*trace == IODeserialize("CliWinToken_TTrace_1790233634.bin", TRUE)
\*
\*=============================================================================
\*

---- MODULE CliWinToken_TETrace ----
EXTENDS CliWinToken, TLC

trace == 
    <<
    ([todo |-> {},winC |-> 0,grants |-> 0,pc |-> "idle",need |-> [x |-> 2, y |-> 2, z |-> 2],win |-> [x |-> 0, y |-> 0, z |-> 0],token |-> FALSE]),
    ([todo |-> {},winC |-> 0,grants |-> 1,pc |-> "idle",need |-> [x |-> 2, y |-> 2, z |-> 2],win |-> [x |-> 1, y |-> 0, z |-> 0],token |-> TRUE]),
    ([todo |-> {"x", "y", "z"},winC |-> 0,grants |-> 1,pc |-> "pass",need |-> [x |-> 2, y |-> 2, z |-> 2],win |-> [x |-> 1, y |-> 0, z |-> 0],token |-> FALSE]),
    ([todo |-> {"y", "z"},winC |-> 0,grants |-> 1,pc |-> "pass",need |-> [x |-> 2, y |-> 2, z |-> 2],win |-> [x |-> 1, y |-> 0, z |-> 0],token |-> FALSE]),
    ([todo |-> {"z"},winC |-> 0,grants |-> 1,pc |-> "pass",need |-> [x |-> 2, y |-> 2, z |-> 2],win |-> [x |-> 1, y |-> 0, z |-> 0],token |-> FALSE]),
    ([todo |-> {},winC |-> 0,grants |-> 1,pc |-> "pass",need |-> [x |-> 2, y |-> 2, z |-> 2],win |-> [x |-> 1, y |-> 0, z |-> 0],token |-> FALSE]),
    ([todo |-> {},winC |-> 1,grants |-> 2,pc |-> "pass",need |-> [x |-> 2, y |-> 2, z |-> 2],win |-> [x |-> 1, y |-> 0, z |-> 0],token |-> TRUE]),
    ([todo |-> {},winC |-> 1,grants |-> 2,pc |-> "idle",need |-> [x |-> 2, y |-> 2, z |-> 2],win |-> [x |-> 1, y |-> 0, z |-> 0],token |-> FALSE])
    >>
----


=============================================================================

---- CONFIG CliWinToken_TTrace_1790233634 ----
CONSTANTS
    Streams = { "x" , "y" , "z" }
    Need = 2
    MaxGrants = 5
    Defects = { "SwallowToken" }

INVARIANT
    _inv

CHECK_DEADLOCK
    \* CHECK_DEADLOCK off because of PROPERTY or INVARIANT above.
    FALSE

INIT
    _init

NEXT
    _next

CONSTANT
    _TETrace <- _trace

ALIAS
    _expression
=============================================================================
\* Generated on Thu Sep 24 07:07:18 UTC 2026