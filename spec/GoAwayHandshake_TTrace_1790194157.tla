---- MODULE GoAwayHandshake_TTrace_1790194157 ----
EXTENDS Sequences, TLCExt, GoAwayHandshake, Toolbox, Naturals, TLC

_expression ==
    LET GoAwayHandshake_TEExpression == INSTANCE GoAwayHandshake_TEExpression
    IN GoAwayHandshake_TEExpression!expression
----

_trace ==
    LET GoAwayHandshake_TETrace == INSTANCE GoAwayHandshake_TETrace
    IN GoAwayHandshake_TETrace!trace
----

_inv ==
    ~(
        TLCGet("level") = Len(_TETrace)
        /\
        todo = ({3, 5})
        /\
        cur = (1)
        /\
        flag = (FALSE)
        /\
        refused = ({})
        /\
        lastID = (1)
        /\
        accepted = ({1})
        /\
        slPc = ("idle")
        /\
        sent = (0)
        /\
        gaPc = ("G1")
        /\
        seen = (FALSE)
        /\
        gaLast = (0)
    )
----

_init ==
    /\ flag = _TETrace[1].flag
    /\ seen = _TETrace[1].seen
    /\ todo = _TETrace[1].todo
    /\ lastID = _TETrace[1].lastID
    /\ refused = _TETrace[1].refused
    /\ gaLast = _TETrace[1].gaLast
    /\ sent = _TETrace[1].sent
    /\ accepted = _TETrace[1].accepted
    /\ cur = _TETrace[1].cur
    /\ gaPc = _TETrace[1].gaPc
    /\ slPc = _TETrace[1].slPc
----

_next ==
    /\ \E i,j \in DOMAIN _TETrace:
        /\ \/ /\ j = i + 1
              /\ i = TLCGet("level")
        /\ flag  = _TETrace[i].flag
        /\ flag' = _TETrace[j].flag
        /\ seen  = _TETrace[i].seen
        /\ seen' = _TETrace[j].seen
        /\ todo  = _TETrace[i].todo
        /\ todo' = _TETrace[j].todo
        /\ lastID  = _TETrace[i].lastID
        /\ lastID' = _TETrace[j].lastID
        /\ refused  = _TETrace[i].refused
        /\ refused' = _TETrace[j].refused
        /\ gaLast  = _TETrace[i].gaLast
        /\ gaLast' = _TETrace[j].gaLast
        /\ sent  = _TETrace[i].sent
        /\ sent' = _TETrace[j].sent
        /\ accepted  = _TETrace[i].accepted
        /\ accepted' = _TETrace[j].accepted
        /\ cur  = _TETrace[i].cur
        /\ cur' = _TETrace[j].cur
        /\ gaPc  = _TETrace[i].gaPc
        /\ gaPc' = _TETrace[j].gaPc
        /\ slPc  = _TETrace[i].slPc
        /\ slPc' = _TETrace[j].slPc

\* Uncomment the ASSUME below to write the states of the error trace
\* to the given file in Json format. Note that you can pass any tuple
\* to `JsonSerialize`. For example, a sub-sequence of _TETrace.
    \* ASSUME
    \*     LET J == INSTANCE Json
    \*         IN J!JsonSerialize("GoAwayHandshake_TTrace_1790194157.json", _TETrace)

=============================================================================

 Note that you can extract this module `GoAwayHandshake_TEExpression`
  to a dedicated file to reuse `expression` (the module in the 
  dedicated `GoAwayHandshake_TEExpression.tla` file takes precedence 
  over the module `GoAwayHandshake_TEExpression` below).

---- MODULE GoAwayHandshake_TEExpression ----
EXTENDS Sequences, TLCExt, GoAwayHandshake, Toolbox, Naturals, TLC

expression == 
    [
        \* To hide variables of the `GoAwayHandshake` spec from the error trace,
        \* remove the variables below.  The trace will be written in the order
        \* of the fields of this record.
        flag |-> flag
        ,seen |-> seen
        ,todo |-> todo
        ,lastID |-> lastID
        ,refused |-> refused
        ,gaLast |-> gaLast
        ,sent |-> sent
        ,accepted |-> accepted
        ,cur |-> cur
        ,gaPc |-> gaPc
        ,slPc |-> slPc
        
        \* Put additional constant-, state-, and action-level expressions here:
        \* ,_stateNumber |-> _TEPosition
        \* ,_flagUnchanged |-> flag = flag'
        
        \* Format the `flag` variable as Json value.
        \* ,_flagJson |->
        \*     LET J == INSTANCE Json
        \*     IN J!ToJson(flag)
        
        \* Lastly, you may build expressions over arbitrary sets of states by
        \* leveraging the _TETrace operator.  For example, this is how to
        \* count the number of times a spec variable changed up to the current
        \* state in the trace.
        \* ,_flagModCount |->
        \*     LET F[s \in DOMAIN _TETrace] ==
        \*         IF s = 1 THEN 0
        \*         ELSE IF _TETrace[s].flag # _TETrace[s-1].flag
        \*             THEN 1 + F[s-1] ELSE F[s-1]
        \*     IN F[_TEPosition - 1]
    ]

=============================================================================



Parsing and semantic processing can take forever if the trace below is long.
 In this case, it is advised to uncomment the module below to deserialize the
 trace from a generated binary file.

\*
\*---- MODULE GoAwayHandshake_TETrace ----
\*EXTENDS IOUtils, GoAwayHandshake, TLC
\*
\*trace == IODeserialize("GoAwayHandshake_TTrace_1790194157.bin", TRUE)
\*
\*=============================================================================
\*

---- MODULE GoAwayHandshake_TETrace ----
EXTENDS GoAwayHandshake, TLC

trace == 
    <<
    ([todo |-> {1, 3, 5},cur |-> 0,flag |-> FALSE,refused |-> {},lastID |-> 0,accepted |-> {},slPc |-> "idle",sent |-> -1,gaPc |-> "G2",seen |-> FALSE,gaLast |-> -1]),
    ([todo |-> {1, 3, 5},cur |-> 0,flag |-> FALSE,refused |-> {},lastID |-> 0,accepted |-> {},slPc |-> "idle",sent |-> -1,gaPc |-> "G3",seen |-> FALSE,gaLast |-> 0]),
    ([todo |-> {3, 5},cur |-> 1,flag |-> FALSE,refused |-> {},lastID |-> 0,accepted |-> {},slPc |-> "S1",sent |-> -1,gaPc |-> "G3",seen |-> FALSE,gaLast |-> 0]),
    ([todo |-> {3, 5},cur |-> 1,flag |-> FALSE,refused |-> {},lastID |-> 1,accepted |-> {},slPc |-> "S2",sent |-> -1,gaPc |-> "G3",seen |-> FALSE,gaLast |-> 0]),
    ([todo |-> {3, 5},cur |-> 1,flag |-> FALSE,refused |-> {},lastID |-> 1,accepted |-> {},slPc |-> "S3",sent |-> -1,gaPc |-> "G3",seen |-> FALSE,gaLast |-> 0]),
    ([todo |-> {3, 5},cur |-> 1,flag |-> FALSE,refused |-> {},lastID |-> 1,accepted |-> {1},slPc |-> "idle",sent |-> -1,gaPc |-> "G3",seen |-> FALSE,gaLast |-> 0]),
    ([todo |-> {3, 5},cur |-> 1,flag |-> FALSE,refused |-> {},lastID |-> 1,accepted |-> {1},slPc |-> "idle",sent |-> 0,gaPc |-> "G1",seen |-> FALSE,gaLast |-> 0])
    >>
----


=============================================================================

---- CONFIG GoAwayHandshake_TTrace_1790194157 ----
CONSTANTS
    Ids = { 1 , 3 , 5 }
    Defects = { "FlagAfterSend" }

INVARIANT
    _inv

CHECK_DEADLOCK
    \* CHECK_DEADLOCK off because of PROPERTY or INVARIANT above.
    FALSE

INIT
    _init

NEXT
    _next

CONSTANT
    _TETrace <- _trace

ALIAS
    _expression
=============================================================================
\* Generated on Wed Sep 23 20:09:18 UTC 2026