SPECIFICATION Spec
CONSTANTS
  Ids = {1, 3, 5}
  Defects = {"PublishAfterDecide"}
INVARIANT GoAwayTruth
CHECK_DEADLOCK FALSE
