SPECIFICATION Spec
CONSTANTS
  Sids = {1, 3, 5}
  MaxConcM = 2
  InitWinM = 2
  ConnWinM = 5
  MaxWinM = 8
  MaxBodyM = 3
  RespSizes = {0, 1}
  MaxFrames = 4
  Ops = {"hdr", "cont", "data", "rst", "wu", "wubad", "prio", "settings", "misc", "finish", "bad", "cl"}
  EmitOneIn = 12
VIEW View
INVARIANTS C08_Reaction C01_DispatchOnce C01_DispatchLegal C01_EndOnce C06_StreamLedger C06_ConnLedger C06_WinIsLedger C06_NoStall C10_GoAwayTruth C13_Slots C13_OpenIsSlots
CONSTRAINT EmitState
CHECK_DEADLOCK FALSE
