SPECIFICATION Spec
CONSTANTS
  Callers = {"a", "b", "c"}
  Cap = 2
  Defects = {}
INVARIANTS AllResolved NoCallerStuck
CHECK_DEADLOCK FALSE
