SPECIFICATION Spec
CONSTANTS
  NReq = 2
  MaxAttempts = 4
  MCS = 1
  MaxConns = 6
  Reactions = {"ok", "refuse", "rst", "ga_below", "ga_at_ok", "close", "silence"}
  Defects = {"RetryOnEOF"}
INVARIANTS C11_AtMostOnce C11_RetryTruth C12_SuccessTruth C11_AnsweredCompletes
CHECK_DEADLOCK FALSE
