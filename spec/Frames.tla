------------------------------ MODULE Frames ------------------------------
(* RFC 7540 section 4.1 (frame header) and section 6 (the ten frame types):  *)
(* the wire layout as two pure operators over byte strings (sequences of     *)
(* 0..255), FrameBytes(f) and ParseFrame(bytes, maxLen).  Written from the   *)
(* RFC, independent of the code under test.  Used (1) by FramesModel.tla as  *)
(* a small state space whose invariants show the transcription is            *)
(* self-consistent, (2) by FramesTrace.tla as the judge of recorded calls of *)
(* the real FrameHeader.WriteTo / ReadFrameFrom[WithSize] (C05, C16).        *)
(*                                                                           *)
(* TLC integers are 32 bit signed: every 31-bit quantity is an Int, every    *)
(* 32-bit quantity (error codes, SETTINGS values) is a pair of 16-bit halves.*)
(* No RECURSIVE operators (see Huffman.tla): loops are FoldLeft or function  *)
(* constructors.                                                             *)
EXTENDS Integers, Sequences, SequencesExt, FiniteSets, TLC

TData == 0
THeaders == 1
TPriority == 2
TRst == 3
TSettings == 4
TPushPromise == 5
TPing == 6
TGoAway == 7
TWindowUpdate == 8
TContinuation == 9

FEndStream == 1
FAck == 1
FEndHeaders == 4
FPadded == 8
FPriority == 32

Has(fl, bit) == (fl \div bit) % 2 = 1

U16(b, o) == b[o] * 256 + b[o + 1]
U24(b, o) == b[o] * 65536 + b[o + 1] * 256 + b[o + 2]
U31(b, o) == (b[o] % 128) * 16777216 + b[o + 1] * 65536 + b[o + 2] * 256 + b[o + 3]
RBit(b, o) == b[o] \div 128
Hi(v) == v \div 65536
Lo(v) == v % 65536

B16(v) == << v \div 256, v % 256 >>
B24(v) == << v \div 65536, (v \div 256) % 256, v % 256 >>
\* 4 bytes of a 31-bit value with the (reserved / exclusive) top bit r
B31(r, v) == << r * 128 + v \div 16777216, (v \div 65536) % 256, (v \div 256) % 256, v % 256 >>

Zeros(n) == [i \in 1..n |-> 0]
From(s, k) == SubSeq(s, k, Len(s))              \* k is 1-based

\* The parse result: one record shape for every outcome.
\*   ok      the frame is well formed (for an unknown type: skip = TRUE)
\*   err     "none" | "trunc" (fewer bytes than 9+length) | "toobig" (length > maxLen)
\*           | "size" (impossible fixed size) | "pad" (impossible padding) | "setval"
\*   positioned  a reader is expected to stand at the next frame afterwards
\*   pad     -1 = no PADDED section, else the pad length;  padding = the padding octets
\*   prio/excl/dep/wt   priority section;  body = data / fragment / opaque / debug / raw payload
\*   psid/pr promised or last stream id and its reserved bit;  ch/cl error code halves
\*   inc/ir  window increment and its reserved bit;  st = <<id, hi, lo>> per setting, in order
Blank == [ok |-> FALSE, skip |-> FALSE, err |-> "none", positioned |-> FALSE, consumed |-> 0,
          ty |-> 0, fl |-> 0, r |-> 0, sid |-> 0, len |-> 0,
          pad |-> -1, padding |-> <<>>, prio |-> 0, excl |-> 0, dep |-> 0, wt |-> 0, body |-> <<>>,
          psid |-> 0, pr |-> 0, ch |-> 0, cl |-> 0, inc |-> 0, ir |-> 0, st |-> <<>>]

\* --- sections shared by DATA / HEADERS / PUSH_PROMISE ---------------------
\* Strip the PADDED section.  Result [ok, pad, rest (payload after the pad
\* length octet, padding still attached)].
Unpad(fl, p) ==
  IF ~Has(fl, FPadded) THEN [ok |-> TRUE, pad |-> -1, rest |-> p]
  ELSE IF Len(p) < 1 THEN [ok |-> FALSE, pad |-> -1, rest |-> <<>>]
  ELSE [ok |-> TRUE, pad |-> p[1], rest |-> From(p, 2)]

\* Cut pad octets from the end of rest (after the fixed sections were taken).
PadN(u) == IF u.pad < 0 THEN 0 ELSE u.pad

SettingsOf(p) == [k \in 1..(Len(p) \div 6) |-> << U16(p, 6 * k - 5), U16(p, 6 * k - 3), U16(p, 6 * k - 1) >>]

\* RFC 7540 6.5.2: values that are connection errors.
BadSetting(s) ==
  \/ s[1] = 2 /\ (s[2] # 0 \/ s[3] > 1)
  \/ s[1] = 4 /\ s[2] >= 32768
  \/ s[1] = 5 /\ ((s[2] = 0 /\ s[3] < 16384) \/ s[2] > 255)

Err(h, e) == [h EXCEPT !.ok = FALSE, !.err = e]

ParsePayload(h, p) ==
  LET ty == h.ty  fl == h.fl  n == Len(p) IN
  CASE ty = TData ->
         LET u == Unpad(fl, p) IN
         IF ~u.ok \/ PadN(u) > Len(u.rest) THEN Err(h, "pad")
         ELSE [h EXCEPT !.ok = TRUE, !.pad = u.pad,
                        !.body = SubSeq(u.rest, 1, Len(u.rest) - PadN(u)),
                        !.padding = From(u.rest, Len(u.rest) - PadN(u) + 1)]
    [] ty = THeaders ->
         LET u == Unpad(fl, p) IN
         IF ~u.ok THEN Err(h, "pad")
         ELSE LET pr == Has(fl, FPriority)
                  r1 == IF pr THEN From(u.rest, 6) ELSE u.rest IN
              IF pr /\ Len(u.rest) < 5 THEN Err(h, "size")
              ELSE IF PadN(u) > Len(r1) THEN Err(h, "pad")
              ELSE [h EXCEPT !.ok = TRUE, !.pad = u.pad,
                             !.prio = IF pr THEN 1 ELSE 0,
                             !.excl = IF pr THEN RBit(u.rest, 1) ELSE 0,
                             !.dep = IF pr THEN U31(u.rest, 1) ELSE 0,
                             !.wt = IF pr THEN u.rest[5] ELSE 0,
                             !.body = SubSeq(r1, 1, Len(r1) - PadN(u)),
                             !.padding = From(r1, Len(r1) - PadN(u) + 1)]
    [] ty = TPriority ->
         IF n # 5 THEN Err(h, "size")
         ELSE [h EXCEPT !.ok = TRUE, !.prio = 1, !.excl = RBit(p, 1), !.dep = U31(p, 1), !.wt = p[5]]
    [] ty = TRst ->
         IF n # 4 THEN Err(h, "size")
         ELSE [h EXCEPT !.ok = TRUE, !.ch = U16(p, 1), !.cl = U16(p, 3)]
    [] ty = TSettings ->
         IF n % 6 # 0 \/ (Has(fl, FAck) /\ n > 0) THEN Err(h, "size")
         ELSE LET st == SettingsOf(p) IN
              IF \E k \in 1..Len(st) : BadSetting(st[k]) THEN [Err(h, "setval") EXCEPT !.st = st]
              ELSE [h EXCEPT !.ok = TRUE, !.st = st]
    [] ty = TPushPromise ->
         LET u == Unpad(fl, p) IN
         IF ~u.ok THEN Err(h, "pad")
         ELSE IF Len(u.rest) < 4 THEN Err(h, "size")
         ELSE LET r1 == From(u.rest, 5) IN
              IF PadN(u) > Len(r1) THEN Err(h, "pad")
              ELSE [h EXCEPT !.ok = TRUE, !.pad = u.pad, !.psid = U31(u.rest, 1), !.pr = RBit(u.rest, 1),
                             !.body = SubSeq(r1, 1, Len(r1) - PadN(u)),
                             !.padding = From(r1, Len(r1) - PadN(u) + 1)]
    [] ty = TPing ->
         IF n # 8 THEN Err(h, "size") ELSE [h EXCEPT !.ok = TRUE, !.body = p]
    [] ty = TGoAway ->
         IF n < 8 THEN Err(h, "size")
         ELSE [h EXCEPT !.ok = TRUE, !.psid = U31(p, 1), !.pr = RBit(p, 1), !.ch = U16(p, 5), !.cl = U16(p, 7),
                        !.body = From(p, 9)]
    [] ty = TWindowUpdate ->
         IF n # 4 THEN Err(h, "size")
         ELSE [h EXCEPT !.ok = TRUE, !.inc = U31(p, 1), !.ir = RBit(p, 1)]
    [] ty = TContinuation -> [h EXCEPT !.ok = TRUE, !.body = p]
    [] OTHER -> [h EXCEPT !.ok = TRUE, !.skip = TRUE, !.body = p]   \* unknown type: ignored and discarded (4.1)

\* maxLen = 0: no limit (beyond the 24-bit field itself).
ParseFrame(bytes, maxLen) ==
  IF Len(bytes) < 9 THEN Err(Blank, "trunc")
  ELSE LET len == U24(bytes, 1)
           h == [Blank EXCEPT !.len = len, !.ty = bytes[4], !.fl = bytes[5],
                              !.r = RBit(bytes, 6), !.sid = U31(bytes, 6)] IN
       IF maxLen # 0 /\ len > maxLen THEN [Err(h, "toobig") EXCEPT !.consumed = 9]
       ELSE IF Len(bytes) < 9 + len THEN Err(h, "trunc")
       ELSE [ParsePayload(h, SubSeq(bytes, 10, 9 + len)) EXCEPT !.consumed = 9 + len, !.positioned = TRUE]

-----------------------------------------------------------------------------
\* The writer: f is a record of the Blank shape describing a well-formed frame
\* (f.padding gives the padding octets when f.pad >= 0; f.r, f.pr, f.ir, f.excl
\* are the reserved / exclusive bits to put on the wire).
PadPre(f) == IF f.pad >= 0 THEN << f.pad >> ELSE <<>>
PadSuf(f) == IF f.pad >= 0 THEN f.padding ELSE <<>>
SettingsBytes(st) == FoldLeft(LAMBDA acc, s : acc \o B16(s[1]) \o B16(s[2]) \o B16(s[3]), <<>>, st)

PayloadBytes(f) ==
  CASE f.ty = TData -> PadPre(f) \o f.body \o PadSuf(f)
    [] f.ty = THeaders -> PadPre(f) \o (IF f.prio = 1 THEN B31(f.excl, f.dep) \o << f.wt >> ELSE <<>>) \o f.body \o PadSuf(f)
    [] f.ty = TPriority -> B31(f.excl, f.dep) \o << f.wt >>
    [] f.ty = TRst -> B16(f.ch) \o B16(f.cl)
    [] f.ty = TSettings -> SettingsBytes(f.st)
    [] f.ty = TPushPromise -> PadPre(f) \o B31(f.pr, f.psid) \o f.body \o PadSuf(f)
    [] f.ty = TPing -> f.body
    [] f.ty = TGoAway -> B31(f.pr, f.psid) \o B16(f.ch) \o B16(f.cl) \o f.body
    [] f.ty = TWindowUpdate -> B31(f.ir, f.inc)
    [] OTHER -> f.body

HeaderBytes(len, ty, fl, r, sid) == B24(len) \o << ty, fl >> \o B31(r, sid)

FrameBytes(f) == LET p == PayloadBytes(f) IN HeaderBytes(Len(p), f.ty, f.fl, f.r, f.sid) \o p

-----------------------------------------------------------------------------
\* Helpers shared by the trace spec.
\* order-sensitive digest of a byte string (stays far below 2^31)
Digest(s) == FoldLeft(LAMBDA a, b : (a * 31 + b + 1) % 65521, 7, s)

\* the value a SETTINGS list gives to parameter id: <<present, hi, lo>> (last occurrence wins)
SettingVal(st, id) == FoldLeft(LAMBDA a, s : IF s[1] = id THEN << 1, s[2], s[3] >> ELSE a, << 0, 0, 0 >>, st)
=============================================================================
