SPECIFICATION Spec
CONSTANTS
  NReq = 3
  MaxAttempts = 3
  MCS = 2
  MaxConns = 5
  Reactions = {"ok", "refuse", "ga_below", "ga_at_ok", "close"}
  Defects = {}
INVARIANTS C11_AtMostOnce C11_RetryTruth C12_SuccessTruth C11_AnsweredCompletes
CONSTRAINT EmitState
CHECK_DEADLOCK FALSE
