---------------------------- MODULE HpackModel ----------------------------
(* Design-level state space for C03 / C04: ANY conforming RFC 7541 encoder  *)
(* composed with the RFC decoder of Hpack.tla through the wire format of    *)
(* HpackWire.tla.                                                           *)
(*                                                                          *)
(* The encoder sends header lists over a small field universe.  For every   *)
(* field it picks nondeterministically any representation that is valid for *)
(* its current table: indexed (any matching static or dynamic index),       *)
(* literal with incremental indexing / without indexing / never indexed,    *)
(* name by any matching index or as a literal, Huffman or raw strings.      *)
(* Between blocks the decoder side may change SETTINGS_HEADER_TABLE_SIZE     *)
(* (up to twice); the encoder then starts the next block with size updates  *)
(* as RFC 7541 4.2 prescribes (first one <= the smallest limit seen), and    *)
(* may also resize voluntarily at a block start.  Each representation goes   *)
(* through InsBytes -> ParseIns -> Apply; at every point of a block the      *)
(* bytes so far are also decoded in one go with DecodeBlock (the operator    *)
(* the trace specification uses).                                           *)
(*                                                                          *)
(* Invariants: DecodedEqualsInput, WireRoundTrip, TablesEqual,              *)
(* SizeWithinLimit, BlockDecode, NoDecodeError.                              *)
EXTENDS Hpack

CONSTANTS Fields,      \* set of <<name, value>> byte-string pairs the application sends
          Limits,      \* table sizes used by SETTINGS changes and size updates
          MaxBlocks, MaxFields, MaxUpd, SplitHuff   \* SplitHuff: choose the Huffman flag of name and value separately

VARIABLES enc,    \* encoder's table: same record shape as the decoder state (limit = what the peer allows)
          dec,    \* decoder state
          dec0,   \* decoder state at the start of the current block
          bb,     \* bytes of the current block so far
          bf,     \* fields of the current block so far: <<name, value, sensitive>>
          nu,     \* size updates emitted in the current block
          nb,     \* completed blocks
          pend,   \* SETTINGS changes not yet announced: [n |-> count, min |-> smallest limit]
          last,   \* [set, in, out, wire]: the most recent field as sent / as decoded / wire round trip ok
          ok      \* the decoder has not reported an error

vars == <<enc, dec, dec0, bb, bf, nu, nb, pend, last, ok>>

Init ==
  /\ enc = InitState(4096) /\ dec = InitState(4096) /\ dec0 = InitState(4096)
  /\ bb = <<>> /\ bf = <<>> /\ nu = 0 /\ nb = 0
  /\ pend = [n |-> 0, min |-> 0]
  /\ last = [set |-> FALSE, in |-> <<>>, out |-> <<>>, wire |-> TRUE]
  /\ ok = TRUE

\* one representation over the wire into the decoder
Transmit(ins) ==
  LET bytes == InsBytes(ins)
      p == ParseIns(bytes, 1)
      r == Apply(dec, p.ins, bf = <<>>) IN
  [wire |-> p.st = "ok" /\ p.next = Len(bytes) + 1 /\ p.ins = ins, bytes |-> bytes, r |-> r]

\* the decoder side advertises a new limit (between blocks); the encoder learns it at once
Settings(n) ==
  /\ bb = <<>> /\ nb < MaxBlocks /\ pend.n < MaxUpd
  /\ dec' = [dec EXCEPT !.limit = n]
  /\ dec0' = [dec0 EXCEPT !.limit = n]
  /\ enc' = [enc EXCEPT !.limit = n]
  /\ pend' = [n |-> pend.n + 1, min |-> IF pend.n = 0 THEN n ELSE MinI(pend.min, n)]
  /\ UNCHANGED <<bb, bf, nu, nb, last, ok>>

\* size update at the start of a block: the first one after SETTINGS changes is at most the
\* smallest limit seen, any further one just has to respect the current limit
Update(n) ==
  /\ bf = <<>> /\ nu < MaxUpd /\ nb < MaxBlocks
  /\ n <= enc.limit
  /\ pend.n > 0 => n <= pend.min
  /\ LET t == Transmit(SizeUpdate(n)) IN
       /\ ok' = (ok /\ t.r.ok)
       /\ dec' = t.r.st
       /\ bb' = bb \o t.bytes
       /\ last' = [last EXCEPT !.wire = last.wire /\ t.wire]
  /\ enc' = Resize(enc, n)
  /\ pend' = [n |-> 0, min |-> 0]
  /\ nu' = nu + 1
  /\ UNCHANGED <<dec0, bf, nb>>

NameIdx(st, nm) == {j \in 1..(StaticLen + Len(st.dyn)) : Entry(st, j)[1] = nm}
FullIdx(st, f)  == {j \in 1..(StaticLen + Len(st.dyn)) : Entry(st, j) = f}

Reps(st, f) ==
  {Indexed(j) : j \in FullIdx(st, f)}
  \cup {Lit(k, j, IF j = 0 THEN f[1] ELSE <<>>, IF j = 0 THEN hn ELSE FALSE, f[2], hv) :
          k \in {"litinc", "litnoidx", "litnever"}, j \in NameIdx(st, f[1]) \cup {0},
          hn \in BOOLEAN, hv \in BOOLEAN}

SendField(f, ins) ==
  /\ nb < MaxBlocks /\ Len(bf) < MaxFields
  /\ pend.n = 0 \/ pend.min >= enc.max         \* otherwise the block has to start with a size update
  /\ SplitHuff \/ ins.index # 0 \/ ins.kind = "indexed" \/ ins.hn = ins.hv
  /\ LET t == Transmit(ins)
         triple == <<f[1], f[2], ins.kind = "litnever">> IN
       /\ ok' = (ok /\ t.r.ok)
       /\ dec' = t.r.st
       /\ bb' = bb \o t.bytes
       /\ bf' = Append(bf, triple)
       /\ last' = [set |-> TRUE, in |-> triple, out |-> IF t.r.emit = <<>> THEN <<>> ELSE t.r.emit[1], wire |-> t.wire]
  /\ enc' = IF ins.kind = "litinc" THEN Insert(enc, f) ELSE enc
  /\ pend' = [n |-> 0, min |-> 0]
  /\ UNCHANGED <<dec0, nu, nb>>

EndBlock ==
  /\ bf # <<>>
  /\ nb' = nb + 1 /\ bb' = <<>> /\ bf' = <<>> /\ nu' = 0 /\ dec0' = dec
  /\ UNCHANGED <<enc, dec, pend, last, ok>>

Next ==
  \/ \E n \in Limits : Settings(n) \/ Update(n)
  \/ \E f \in Fields : \E ins \in Reps(enc, f) : SendField(f, ins)
  \/ EndBlock

Spec == Init /\ [][Next]_vars

-----------------------------------------------------------------------------
DecodedEqualsInput == last.set => last.out = last.in
WireRoundTrip      == last.wire
NoDecodeError      == ok
TablesEqual        == enc.dyn = dec.dyn /\ enc.max = dec.max /\ enc.size = dec.size
SizeWithinLimit    == /\ dec.size = TableSize(dec.dyn) /\ dec.size <= dec.max
                      /\ pend.n = 0 => dec.max <= dec.limit
BlockDecode        == LET d == DecodeBlock(dec0, bb) IN
                        d.cls = "" /\ d.out = bf /\ d.st = dec /\ Len(d.upd) = nu

-----------------------------------------------------------------------------
(* Constant values for the .cfg files (nested tuples cannot be written there). *)
\* :method GET (static 2, full match)  :path /x (static name 4, 5)  a: b (34 octets)  a: "" (33)
\* bb: 31 x "c" (65 octets: larger than a 64-octet table)
ModelFields == { << <<58,109,101,116,104,111,100>>, <<71,69,84>> >>,
                 << <<58,112,97,116,104>>, <<47,120>> >>,
                 << <<97>>, <<98>> >>,
                 << <<97>>, <<>> >>,
                 << <<98,98>>, [k \in 1..31 |-> 99] >> }
ModelFieldsSmall == { << <<58,109,101,116,104,111,100>>, <<71,69,84>> >>,
                      << <<58,112,97,116,104>>, <<47,120>> >>,
                      << <<97>>, <<98>> >>,
                      << <<98,98>>, [k \in 1..31 |-> 99] >> }
ModelFieldsTiny == { << <<58,112,97,116,104>>, <<47,120>> >>,
                     << <<97>>, <<98>> >>,
                     << <<98,98>>, [k \in 1..31 |-> 99] >> }
=============================================================================
