------------------------- MODULE HuffmanModel -------------------------
(* Design-level check of the transcribed Huffman code (C15): a small state  *)
(* space of strings over a boundary alphabet, with losslessness, canonical  *)
(* length and strict-padding invariants.                                    *)
EXTENDS Huffman
(* A small state space: strings over a boundary alphabet grown one symbol at *)
(* a time.  Invariants: lossless, canonical padding, length.                 *)
CONSTANTS Alphabet, MaxStr
VARIABLE s

Init == s = <<>>
Next == /\ Len(s) < MaxStr
        /\ \E a \in Alphabet : s' = Append(s, a)
Spec == Init /\ [][Next]_s

TotalBits(x) == FoldLeft(LAMBDA acc, b : acc + Len(CodeBits[b + 1]), 0, x)

RoundTrip == LET d == Decode(Encode(s)) IN d.ok /\ d.out = s
Canonical == Len(Encode(s)) = (TotalBits(s) + 7) \div 8
\* flipping the last padding bit (when there is padding) must be rejected
StrictPad == LET e == Encode(s) IN
               (TotalBits(s) % 8 # 0) => ~Accepts([e EXCEPT ![Len(e)] = e[Len(e)] - 1])
\* a whole octet of padding must be rejected
NoLongPad == ~Accepts(Encode(s) \o <<255>>)
=============================================================================
