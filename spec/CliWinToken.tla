---------------------------- MODULE CliWinToken ----------------------------
(* How a WINDOW_UPDATE reaches a request body that is waiting for window     *)
(* (conn.go): the read loop adds the increment to the stream's (or the       *)
(* connection's) send window under sendLck and then drops a token into winCh *)
(* (capacity 1, non-blocking: one token is enough); the write loop, woken by *)
(* the token, makes one pass over the waiting bodies (flushPending ->         *)
(* sendPending for each) and sends what the windows allow.                   *)
(*                                                                           *)
(*   read loop                         write loop                            *)
(*     Grant(s)  win[s] += k             Take    token := FALSE; todo := all waiting *)
(*               token := TRUE           Visit(s) send min(need[s], win[s], winC)    *)
(*                                       EndPass todo = {} -> idle                   *)
(*                                                                           *)
(* A grant that lands after the pass has visited its stream leaves a token   *)
(* behind, so another pass follows: NoLostGrant - whenever the write loop is  *)
(* idle and no token is waiting, no body has both data and window left (C07: *)
(* "whenever both windows are positive and body bytes remain, they are       *)
(* eventually sent").  Defect "SwallowToken" (seeded change C07-7): EndPass   *)
(* takes a waiting token away as stale.  Code side: the grant-during-read    *)
(* scenarios (lib/cliprop.py), where the pass is held inside a slow Read of  *)
(* one body while grants for the others arrive.                              *)
EXTENDS Integers, FiniteSets, TLC

CONSTANTS Streams, Need, MaxGrants, Defects

VARIABLES need, win, winC, token, pc, todo, grants
vars == <<need, win, winC, token, pc, todo, grants>>

Min(a, b) == IF a < b THEN a ELSE b
Init == /\ need = [s \in Streams |-> Need] /\ win = [s \in Streams |-> 0] /\ winC = 0
        /\ token = FALSE /\ pc = "idle" /\ todo = {} /\ grants = 0

GrantS(s) == /\ grants < MaxGrants /\ win' = [win EXCEPT ![s] = @ + 1] /\ token' = TRUE /\ grants' = grants + 1
             /\ UNCHANGED <<need, winC, pc, todo>>
GrantC == /\ grants < MaxGrants /\ winC' = winC + 1 /\ token' = TRUE /\ grants' = grants + 1
          /\ UNCHANGED <<need, win, pc, todo>>

Take == /\ pc = "idle" /\ token /\ token' = FALSE /\ pc' = "pass" /\ todo' = {s \in Streams : need[s] > 0}
        /\ UNCHANGED <<need, win, winC, grants>>
Visit(s) == /\ pc = "pass" /\ s \in todo
            /\ LET n == Min(need[s], Min(win[s], winC)) IN
                 /\ need' = [need EXCEPT ![s] = @ - n] /\ win' = [win EXCEPT ![s] = @ - n] /\ winC' = winC - n
            /\ todo' = todo \ {s} /\ UNCHANGED <<token, pc, grants>>
EndPass == /\ pc = "pass" /\ todo = {} /\ pc' = "idle"
           /\ token' = IF "SwallowToken" \in Defects THEN FALSE ELSE token
           /\ UNCHANGED <<need, win, winC, todo, grants>>

Next == (\E s \in Streams : GrantS(s) \/ Visit(s)) \/ GrantC \/ Take \/ EndPass
Spec == Init /\ [][Next]_vars /\ WF_vars(Take) /\ WF_vars(EndPass) /\ \A s \in Streams : WF_vars(Visit(s))

NoLostGrant == (pc = "idle" /\ ~token) => \A s \in Streams : need[s] = 0 \/ win[s] = 0 \/ winC = 0
\* the ledger: nothing is sent that was not granted
WithinGrants == winC >= 0 /\ \A s \in Streams : win[s] >= 0 /\ need[s] >= 0
\* liveness: a body with data, stream window and connection window is eventually sent some more (or the windows are used up by others)
Progress == \A s \in Streams : [](need[s] > 0 /\ win[s] > 0 /\ winC > 0 => <>(need[s] = 0 \/ win[s] = 0 \/ winC = 0))
=============================================================================
