--------------------------- MODULE FramesModel ---------------------------
(* Design-level check of Frames.tla (C05/C16): a small state space of        *)
(* abstract frames built in two steps (header choice, then a type-specific   *)
(* payload choice) over boundary values.  Invariants: the writer and the     *)
(* parser are inverse, consumed = 9 + length, reserved bits are ignored,     *)
(* padding is stripped, and the parser is strict on size limit, truncation,  *)
(* fixed sizes and padding.  This checks the specification against itself;   *)
(* the real code is judged by FramesTrace.tla.                               *)
EXTENDS Frames

CONSTANTS Types,      \* frame type octets (0..9 and unknown ones)
          Flags,      \* base flag octets (defined and undefined bits)
          Sids,       \* stream ids / 31-bit boundary values
          BodyLens,   \* body lengths
          Pads,       \* pad lengths (besides "not padded")
          Halves      \* 16-bit halves for 32-bit fields

VARIABLES f, phase
vars == <<f, phase>>

Clear(fl, bit) == IF Has(fl, bit) THEN fl - bit ELSE fl
SetBit(fl, bit) == IF Has(fl, bit) THEN fl ELSE fl + bit

BodyOf(n) == [i \in 1..n |-> (37 * i + n) % 256]
PadOf(n, nz) == [i \in 1..n |-> IF nz THEN (200 + i) % 256 ELSE 0]

Init == f = Blank /\ phase = "header"

Header ==
  /\ phase = "header"
  /\ \E ty \in Types, fl \in Flags, sid \in Sids, r \in {0, 1} :
       f' = [Blank EXCEPT !.ty = ty, !.fl = fl, !.sid = sid, !.r = r]
  /\ phase' = "payload"

\* padded variants of a frame g (types 0, 1, 5): flag and section kept consistent
Padded(g) ==
  {[g EXCEPT !.fl = Clear(g.fl, FPadded)]} \cup
  {[g EXCEPT !.fl = SetBit(g.fl, FPadded), !.pad = n, !.padding = PadOf(n, nz)] : n \in Pads, nz \in BOOLEAN}

Payloads(g) ==
  CASE g.ty = TData -> UNION {Padded([g EXCEPT !.body = BodyOf(n)]) : n \in BodyLens}
    [] g.ty = THeaders ->
         UNION {Padded(h) : h \in
           {[g EXCEPT !.fl = Clear(g.fl, FPriority), !.body = BodyOf(n)] : n \in BodyLens} \cup
           {[g EXCEPT !.fl = SetBit(g.fl, FPriority), !.body = BodyOf(n), !.prio = 1, !.excl = e, !.dep = d, !.wt = w] :
               n \in BodyLens, e \in {0, 1}, d \in Sids, w \in {0, 255}}}
    [] g.ty = TPriority -> {[g EXCEPT !.prio = 1, !.excl = e, !.dep = d, !.wt = w] : e \in {0, 1}, d \in Sids, w \in {0, 16, 255}}
    [] g.ty = TRst -> {[g EXCEPT !.ch = a, !.cl = b] : a \in Halves, b \in Halves}
    [] g.ty = TSettings ->
         IF Has(g.fl, FAck) THEN {g}
         ELSE {[g EXCEPT !.st = s] : s \in
                 {<<>>, << <<1, 0, 0>> >>, << <<2, 0, 1>>, <<2, 0, 0>> >>, << <<4, 32767, 65535>>, <<5, 0, 16384>> >>,
                  << <<5, 255, 65535>>, <<99, 65535, 65535>>, <<3, 0, 0>>, <<6, 65535, 65535>>, <<1, 65535, 65535>> >>}}
    [] g.ty = TPushPromise ->
         UNION {Padded([g EXCEPT !.body = BodyOf(n), !.psid = d, !.pr = e]) : n \in BodyLens, d \in Sids, e \in {0, 1}}
    [] g.ty = TPing -> {[g EXCEPT !.body = b] : b \in {Zeros(8), BodyOf(8), [i \in 1..8 |-> 255]}}
    [] g.ty = TGoAway -> {[g EXCEPT !.psid = d, !.pr = e, !.ch = a, !.cl = b, !.body = BodyOf(n)] :
                             d \in Sids, e \in {0, 1}, a \in Halves, b \in {0, 65535}, n \in BodyLens}
    [] g.ty = TWindowUpdate -> {[g EXCEPT !.inc = d, !.ir = e] : d \in Sids, e \in {0, 1}}
    [] OTHER -> {[g EXCEPT !.body = BodyOf(n)] : n \in BodyLens}

Payload ==
  /\ phase = "payload"
  /\ f' \in Payloads(f)
  /\ phase' = "done"

Next == Header \/ Payload
Spec == Init /\ [][Next]_vars

-----------------------------------------------------------------------------
Trailer == << 0, 0, 8, 6, 0, 0, 0, 0, 0, 83, 69, 78, 84, 73, 78, 69, 76 >>
P == PayloadBytes(f)
W == FrameBytes(f)
Norm(g, n) == [g EXCEPT !.ok = TRUE, !.positioned = TRUE, !.consumed = 9 + n, !.len = n, !.skip = g.ty > 9]

\* writer and parser are inverse; what follows the frame does not matter
RoundTrip == ParseFrame(W \o Trailer, 0) = Norm(f, Len(P))
Consumed == LET q == ParseFrame(W \o Trailer, 0) IN q.consumed = 9 + q.len /\ q.len = Len(P) /\ q.positioned
\* the next frame starts exactly there
Resync == LET q == ParseFrame(W \o Trailer, 0) IN ParseFrame(From(W \o Trailer, q.consumed + 1), 0).ty = TPing

\* reserved bits do not change what is read
RIgnored ==
  /\ [ParseFrame(FrameBytes([f EXCEPT !.r = 1 - f.r]), 0) EXCEPT !.r = f.r] = Norm(f, Len(P))
  /\ f.ty \in {TPushPromise, TGoAway} =>
       [ParseFrame(FrameBytes([f EXCEPT !.pr = 1 - f.pr]), 0) EXCEPT !.pr = f.pr] = Norm(f, Len(P))
  /\ f.ty = TWindowUpdate =>
       [ParseFrame(FrameBytes([f EXCEPT !.ir = 1 - f.ir]), 0) EXCEPT !.ir = f.ir] = Norm(f, Len(P))

\* padding content is irrelevant and never reaches the body
PaddingStripped ==
  f.pad >= 0 =>
    LET g == [f EXCEPT !.padding = [i \in 1..f.pad |-> 255 - i]]
        q == ParseFrame(FrameBytes(g), 0) IN
      q.ok /\ q.body = f.body /\ q.pad = f.pad /\ Len(q.padding) = f.pad /\ q.len = Len(P)

\* the size limit is exact, and checked before anything else
SizeLimit ==
  /\ ParseFrame(W, IF Len(P) = 0 THEN 0 ELSE Len(P)).ok
  /\ Len(P) > 1 => LET q == ParseFrame(W, Len(P) - 1) IN ~q.ok /\ q.err = "toobig" /\ ~q.positioned
  /\ Len(P) > 1 => ParseFrame(SubSeq(W, 1, 9), Len(P) - 1).err = "toobig"

\* every proper prefix is a truncation, never a frame
Truncated == \A k \in 0..(Len(W) - 1) : LET q == ParseFrame(SubSeq(W, 1, k), 0) IN ~q.ok /\ q.err = "trunc"

\* fixed-size types reject one octet more or less
Resized(d) == IF d > 0 THEN HeaderBytes(Len(P) + 1, f.ty, f.fl, f.r, f.sid) \o P \o << 0 >>
              ELSE HeaderBytes(Len(P) - 1, f.ty, f.fl, f.r, f.sid) \o SubSeq(P, 1, Len(P) - 1)
FixedSizes ==
  /\ f.ty \in {TPriority, TRst, TPing, TWindowUpdate} =>
       /\ ParseFrame(Resized(1), 0).err = "size" /\ ParseFrame(Resized(1), 0).positioned
       /\ ParseFrame(Resized(-1), 0).err = "size"
  /\ f.ty = TSettings => ParseFrame(Resized(1), 0).err = "size"
  /\ (f.ty = TSettings /\ Len(P) > 0) => ParseFrame(Resized(-1), 0).err = "size"
  /\ (f.ty = TSettings /\ ~Has(f.fl, FAck) /\ Len(P) > 0) =>
        ParseFrame(FrameBytes([f EXCEPT !.fl = f.fl + 1]), 0).err = "size"
  /\ (f.ty = TGoAway /\ Len(P) = 8) => ParseFrame(Resized(-1), 0).err = "size"
  /\ (f.ty = TPushPromise /\ f.pad < 0 /\ Len(P) = 4) => ParseFrame(Resized(-1), 0).err = "size"

\* a pad length that does not leave room for the fixed sections is an error;
\* a pad length that exactly fills the rest is not
PadBounds ==
  (f.pad >= 0 /\ Len(P) < 250) =>
    LET room == Len(f.body) + f.pad
        big == [W EXCEPT ![10] = room + 1]
        fit == [W EXCEPT ![10] = room]
        q == ParseFrame(fit, 0) IN
      /\ ParseFrame(big, 0).err = "pad" /\ ParseFrame(big, 0).positioned
      /\ q.ok /\ q.body = <<>> /\ q.pad = room

\* the invariants TLC checks: on every completely built frame
IRoundTrip == phase = "done" => RoundTrip
IConsumed == phase = "done" => Consumed
IResync == phase = "done" => Resync
IRIgnored == phase = "done" => RIgnored
IPaddingStripped == phase = "done" => PaddingStripped
ISizeLimit == phase = "done" => SizeLimit
ITruncated == phase = "done" => Truncated
IFixedSizes == phase = "done" => FixedSizes
IPadBounds == phase = "done" => PadBounds
=============================================================================
