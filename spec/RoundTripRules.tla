--------------------------- MODULE RoundTripRules ---------------------------
(* Pure definitions shared by the design model of the client's RoundTrip     *)
(* stack (H2RoundTrip.tla) and the monitor that judges recordings of the     *)
(* real one (H2RoundTripTrace.tla).                                          *)
EXTENDS Integers, Sequences, FiniteSets

\* error classes of client.go `retryable`: the request never reached the wire,
\* or the server disclaimed it with GOAWAY
RetryableClass == {"connclosed", "goaway-unprocessed", "nostreams", "noids"}

REFUSED_STREAM == 7

\* what a scripted server may do when a request has reached it
AllReactions == {"ok", "okhdr", "refuse", "rst", "hdrrst", "ga_below", "ga_at_ok", "ga_at_close", "close", "partial", "silence"}
Answers(react) == react \in {"ok", "okhdr", "ga_at_ok"}

\* RFC 7540 6.8 / 8.1.4: the only two ways a server says "I did not process this"
DisclaimedByGoAway(last, sid) == sid > last
DisclaimedByRst(code) == code = REFUSED_STREAM

\* last-stream-id a reaction puts in its GOAWAY (-1: the reaction sends none)
GoAwayLast(react, sid) ==
  CASE react = "ga_below" -> IF sid >= 2 THEN sid - 2 ELSE 0
    [] react \in {"ga_at_ok", "ga_at_close"} -> sid
    [] OTHER -> -1
=============================================================================
