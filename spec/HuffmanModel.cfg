SPECIFICATION Spec
CONSTANTS
  Alphabet = {0, 10, 22, 32, 48, 49, 58, 97, 101, 122, 123, 127, 128, 200, 249, 255}
  MaxStr = 3
INVARIANTS RoundTrip Canonical StrictPad NoLongPad
CHECK_DEADLOCK FALSE
