---- MODULE H2Client_TTrace_1790236104 ----
EXTENDS H2Client, Sequences, TLCExt, Toolbox, Naturals, TLC

_expression ==
    LET H2Client_TEExpression == INSTANCE H2Client_TEExpression
    IN H2Client_TEExpression!expression
----

_trace ==
    LET H2Client_TETrace == INSTANCE H2Client_TETrace
    IN H2Client_TETrace!trace
----

_inv ==
    ~(
        TLCGet("level") = Len(_TETrace)
        /\
        hist = (<<[op |-> "call", req |-> 1, a |-> 0, b |-> 0, es |-> FALSE], [op |-> "call", req |-> 2, a |-> 0, b |-> 0, es |-> FALSE], [op |-> "resp", req |-> 1, a |-> 0, b |-> 0, es |-> FALSE], [op |-> "data", req |-> 1, a |-> 2, b |-> 0, es |-> FALSE], [op |-> "cancel", req |-> 1, a |-> 0, b |-> 0, es |-> FALSE], [op |-> "data", req |-> 1, a |-> 2, b |-> 0, es |-> FALSE]>>)
        /\
        v = ([r |-> <<[phase |-> "done", sid |-> 1, res |-> 1, outcome |-> "canceled", sHdr |-> TRUE, sES |-> FALSE, sRst |-> FALSE, sBad |-> FALSE, body |-> 0, sentBody |-> 0, sentES |-> TRUE, win |-> 2, canceled |-> TRUE, rbytes |-> 4, interims |-> 0, scred |-> 1], [phase |-> "sent", sid |-> 3, res |-> 0, outcome |-> "none", sHdr |-> FALSE, sES |-> FALSE, sRst |-> FALSE, sBad |-> FALSE, body |-> 0, sentBody |-> 0, sentES |-> TRUE, win |-> 2, canceled |-> FALSE, rbytes |-> 0, interims |-> 0, scred |-> 3]>>, nextSid |-> 5, goaway |-> FALSE, gaLast |-> 0, closed |-> FALSE, winC |-> 5, initWin |-> 2, mfs |-> 1, nf |-> 6, openedAfterGoAway |-> FALSE, recvC |-> 2, credC |-> 0])
    )
----

_init ==
    /\ v = _TETrace[1].v
    /\ hist = _TETrace[1].hist
----

_next ==
    /\ \E i,j \in DOMAIN _TETrace:
        /\ \/ /\ j = i + 1
              /\ i = TLCGet("level")
        /\ v  = _TETrace[i].v
        /\ v' = _TETrace[j].v
        /\ hist  = _TETrace[i].hist
        /\ hist' = _TETrace[j].hist

\* Uncomment the ASSUME below to write the states of the error trace
\* to the given file in Json format. Note that you can pass any tuple
\* to `JsonSerialize`. For example, a sub-sequence of _TETrace.
    \* ASSUME
    \*     LET J == INSTANCE Json
    \*         IN J!JsonSerialize("H2Client_TTrace_1790236104.json", _TETrace)

=============================================================================

 Note that you can extract this module `H2Client_TEExpression`
  to a dedicated file to reuse `expression` (the module in the 
  dedicated `H2Client_TEExpression.tla` file takes precedence 
  over the module `H2Client_TEExpression` below).

---- MODULE H2Client_TEExpression ----
EXTENDS H2Client, Sequences, TLCExt, Toolbox, Naturals, TLC

expression == 
    [
        \* To hide variables of the `H2Client` spec from the error trace,
        \* remove the variables below.  The trace will be written in the order
        \* of the fields of this record.
        v |-> v
        ,hist |-> hist
        
        \* Put additional constant-, state-, and action-level expressions here:
        \* ,_stateNumber |-> _TEPosition
        \* ,_vUnchanged |-> v = v'
        
        \* Format the `v` variable as Json value.
        \* ,_vJson |->
        \*     LET J == INSTANCE Json
        \*     IN J!ToJson(v)
        
        \* Lastly, you may build expressions over arbitrary sets of states by
        \* leveraging the _TETrace operator.  For example, this is how to
        \* count the number of times a spec variable changed up to the current
        \* state in the trace.
        \* ,_vModCount |->
        \*     LET F[s \in DOMAIN _TETrace] ==
        \*         IF s = 1 THEN 0
        \*         ELSE IF _TETrace[s].v # _TETrace[s-1].v
        \*             THEN 1 + F[s-1] ELSE F[s-1]
        \*     IN F[_TEPosition - 1]
    ]

=============================================================================



Parsing and semantic processing can take forever if the trace below is long.
 In this case, it is advised to uncomment the module below to deserialize the
 trace from a generated binary file.

\*
\*---- MODULE H2Client_TETrace ----
\*EXTENDS H2Client, IOUtils, TLC
\*
\*trace == IODeserialize("H2Client_TTrace_1790236104.bin", TRUE)
\*
\*=============================================================================
\*

---- MODULE H2Client_TETrace ----
EXTENDS H2Client, TLC

trace == 
    <<
    ([hist |-> <<>>,v |-> [r |-> <<[phase |-> "new", sid |-> 0, res |-> 0, outcome |-> "none", sHdr |-> FALSE, sES |-> FALSE, sRst |-> FALSE, sBad |-> FALSE, body |-> 0, sentBody |-> 0, sentES |-> FALSE, win |-> 0, canceled |-> FALSE, rbytes |-> 0, interims |-> 0, scred |-> 3], [phase |-> "new", sid |-> 0, res |-> 0, outcome |-> "none", sHdr |-> FALSE, sES |-> FALSE, sRst |-> FALSE, sBad |-> FALSE, body |-> 0, sentBody |-> 0, sentES |-> FALSE, win |-> 0, canceled |-> FALSE, rbytes |-> 0, interims |-> 0, scred |-> 3]>>, nextSid |-> 1, goaway |-> FALSE, gaLast |-> 0, closed |-> FALSE, winC |-> 5, initWin |-> 2, mfs |-> 1, nf |-> 0, openedAfterGoAway |-> FALSE, recvC |-> 4, credC |-> 4]]),
    ([hist |-> <<[op |-> "call", req |-> 1, a |-> 0, b |-> 0, es |-> FALSE]>>,v |-> [r |-> <<[phase |-> "sent", sid |-> 1, res |-> 0, outcome |-> "none", sHdr |-> FALSE, sES |-> FALSE, sRst |-> FALSE, sBad |-> FALSE, body |-> 0, sentBody |-> 0, sentES |-> TRUE, win |-> 2, canceled |-> FALSE, rbytes |-> 0, interims |-> 0, scred |-> 3], [phase |-> "new", sid |-> 0, res |-> 0, outcome |-> "none", sHdr |-> FALSE, sES |-> FALSE, sRst |-> FALSE, sBad |-> FALSE, body |-> 0, sentBody |-> 0, sentES |-> FALSE, win |-> 0, canceled |-> FALSE, rbytes |-> 0, interims |-> 0, scred |-> 3]>>, nextSid |-> 3, goaway |-> FALSE, gaLast |-> 0, closed |-> FALSE, winC |-> 5, initWin |-> 2, mfs |-> 1, nf |-> 1, openedAfterGoAway |-> FALSE, recvC |-> 4, credC |-> 4]]),
    ([hist |-> <<[op |-> "call", req |-> 1, a |-> 0, b |-> 0, es |-> FALSE], [op |-> "call", req |-> 2, a |-> 0, b |-> 0, es |-> FALSE]>>,v |-> [r |-> <<[phase |-> "sent", sid |-> 1, res |-> 0, outcome |-> "none", sHdr |-> FALSE, sES |-> FALSE, sRst |-> FALSE, sBad |-> FALSE, body |-> 0, sentBody |-> 0, sentES |-> TRUE, win |-> 2, canceled |-> FALSE, rbytes |-> 0, interims |-> 0, scred |-> 3], [phase |-> "sent", sid |-> 3, res |-> 0, outcome |-> "none", sHdr |-> FALSE, sES |-> FALSE, sRst |-> FALSE, sBad |-> FALSE, body |-> 0, sentBody |-> 0, sentES |-> TRUE, win |-> 2, canceled |-> FALSE, rbytes |-> 0, interims |-> 0, scred |-> 3]>>, nextSid |-> 5, goaway |-> FALSE, gaLast |-> 0, closed |-> FALSE, winC |-> 5, initWin |-> 2, mfs |-> 1, nf |-> 2, openedAfterGoAway |-> FALSE, recvC |-> 4, credC |-> 4]]),
    ([hist |-> <<[op |-> "call", req |-> 1, a |-> 0, b |-> 0, es |-> FALSE], [op |-> "call", req |-> 2, a |-> 0, b |-> 0, es |-> FALSE], [op |-> "resp", req |-> 1, a |-> 0, b |-> 0, es |-> FALSE]>>,v |-> [r |-> <<[phase |-> "sent", sid |-> 1, res |-> 0, outcome |-> "none", sHdr |-> TRUE, sES |-> FALSE, sRst |-> FALSE, sBad |-> FALSE, body |-> 0, sentBody |-> 0, sentES |-> TRUE, win |-> 2, canceled |-> FALSE, rbytes |-> 0, interims |-> 0, scred |-> 3], [phase |-> "sent", sid |-> 3, res |-> 0, outcome |-> "none", sHdr |-> FALSE, sES |-> FALSE, sRst |-> FALSE, sBad |-> FALSE, body |-> 0, sentBody |-> 0, sentES |-> TRUE, win |-> 2, canceled |-> FALSE, rbytes |-> 0, interims |-> 0, scred |-> 3]>>, nextSid |-> 5, goaway |-> FALSE, gaLast |-> 0, closed |-> FALSE, winC |-> 5, initWin |-> 2, mfs |-> 1, nf |-> 3, openedAfterGoAway |-> FALSE, recvC |-> 4, credC |-> 4]]),
    ([hist |-> <<[op |-> "call", req |-> 1, a |-> 0, b |-> 0, es |-> FALSE], [op |-> "call", req |-> 2, a |-> 0, b |-> 0, es |-> FALSE], [op |-> "resp", req |-> 1, a |-> 0, b |-> 0, es |-> FALSE], [op |-> "data", req |-> 1, a |-> 2, b |-> 0, es |-> FALSE]>>,v |-> [r |-> <<[phase |-> "sent", sid |-> 1, res |-> 0, outcome |-> "none", sHdr |-> TRUE, sES |-> FALSE, sRst |-> FALSE, sBad |-> FALSE, body |-> 0, sentBody |-> 0, sentES |-> TRUE, win |-> 2, canceled |-> FALSE, rbytes |-> 2, interims |-> 0, scred |-> 3], [phase |-> "sent", sid |-> 3, res |-> 0, outcome |-> "none", sHdr |-> FALSE, sES |-> FALSE, sRst |-> FALSE, sBad |-> FALSE, body |-> 0, sentBody |-> 0, sentES |-> TRUE, win |-> 2, canceled |-> FALSE, rbytes |-> 0, interims |-> 0, scred |-> 3]>>, nextSid |-> 5, goaway |-> FALSE, gaLast |-> 0, closed |-> FALSE, winC |-> 5, initWin |-> 2, mfs |-> 1, nf |-> 4, openedAfterGoAway |-> FALSE, recvC |-> 2, credC |-> 2]]),
    ([hist |-> <<[op |-> "call", req |-> 1, a |-> 0, b |-> 0, es |-> FALSE], [op |-> "call", req |-> 2, a |-> 0, b |-> 0, es |-> FALSE], [op |-> "resp", req |-> 1, a |-> 0, b |-> 0, es |-> FALSE], [op |-> "data", req |-> 1, a |-> 2, b |-> 0, es |-> FALSE], [op |-> "cancel", req |-> 1, a |-> 0, b |-> 0, es |-> FALSE]>>,v |-> [r |-> <<[phase |-> "done", sid |-> 1, res |-> 1, outcome |-> "canceled", sHdr |-> TRUE, sES |-> FALSE, sRst |-> FALSE, sBad |-> FALSE, body |-> 0, sentBody |-> 0, sentES |-> TRUE, win |-> 2, canceled |-> TRUE, rbytes |-> 2, interims |-> 0, scred |-> 3], [phase |-> "sent", sid |-> 3, res |-> 0, outcome |-> "none", sHdr |-> FALSE, sES |-> FALSE, sRst |-> FALSE, sBad |-> FALSE, body |-> 0, sentBody |-> 0, sentES |-> TRUE, win |-> 2, canceled |-> FALSE, rbytes |-> 0, interims |-> 0, scred |-> 3]>>, nextSid |-> 5, goaway |-> FALSE, gaLast |-> 0, closed |-> FALSE, winC |-> 5, initWin |-> 2, mfs |-> 1, nf |-> 5, openedAfterGoAway |-> FALSE, recvC |-> 2, credC |-> 2]]),
    ([hist |-> <<[op |-> "call", req |-> 1, a |-> 0, b |-> 0, es |-> FALSE], [op |-> "call", req |-> 2, a |-> 0, b |-> 0, es |-> FALSE], [op |-> "resp", req |-> 1, a |-> 0, b |-> 0, es |-> FALSE], [op |-> "data", req |-> 1, a |-> 2, b |-> 0, es |-> FALSE], [op |-> "cancel", req |-> 1, a |-> 0, b |-> 0, es |-> FALSE], [op |-> "data", req |-> 1, a |-> 2, b |-> 0, es |-> FALSE]>>,v |-> [r |-> <<[phase |-> "done", sid |-> 1, res |-> 1, outcome |-> "canceled", sHdr |-> TRUE, sES |-> FALSE, sRst |-> FALSE, sBad |-> FALSE, body |-> 0, sentBody |-> 0, sentES |-> TRUE, win |-> 2, canceled |-> TRUE, rbytes |-> 4, interims |-> 0, scred |-> 1], [phase |-> "sent", sid |-> 3, res |-> 0, outcome |-> "none", sHdr |-> FALSE, sES |-> FALSE, sRst |-> FALSE, sBad |-> FALSE, body |-> 0, sentBody |-> 0, sentES |-> TRUE, win |-> 2, canceled |-> FALSE, rbytes |-> 0, interims |-> 0, scred |-> 3]>>, nextSid |-> 5, goaway |-> FALSE, gaLast |-> 0, closed |-> FALSE, winC |-> 5, initWin |-> 2, mfs |-> 1, nf |-> 6, openedAfterGoAway |-> FALSE, recvC |-> 2, credC |-> 0]])
    >>
----


=============================================================================

---- CONFIG H2Client_TTrace_1790236104 ----
CONSTANTS
    Reqs = { 1 , 2 }
    MaxSteps = 8
    Ops = { "call" , "resp" , "data" , "cancel" , "credit" , "defect-nocredit" }
    EmitOneIn = 0
    RespSizes = { 0 , 1 , 2 }
    BodySizes = { 0 }

INVARIANT
    _inv

CHECK_DEADLOCK
    \* CHECK_DEADLOCK off because of PROPERTY or INVARIANT above.
    FALSE

INIT
    _init

NEXT
    _next

CONSTANT
    _TETrace <- _trace

ALIAS
    _expression
=============================================================================
\* Generated on Thu Sep 24 07:48:27 UTC 2026