SPECIFICATION Spec
CONSTANT Defects = {"NoRecheck"}
INVARIANTS NotStranded RetryableMeansUnsentOrSwept
CHECK_DEADLOCK FALSE
