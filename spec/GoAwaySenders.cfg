SPECIFICATION Spec
CONSTANTS
  Ids = {1, 3, 5}
  Senders = {"rl", "idle", "ping"}
  Defects = {}
INVARIANTS GoAwayTruth NeverGrows LockOwner
CHECK_DEADLOCK FALSE
