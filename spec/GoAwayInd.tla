----------------------------- MODULE GoAwayInd -----------------------------
(* Inductive-invariant check of spec/GoAwayHandshake.tla (Defects = {}) with *)
(* Apalache, for an arbitrary finite set of positive stream ids: unbounded   *)
(* in the number of streams, not just the three ids TLC enumerates.          *)
EXTENDS Integers, FiniteSets

CONSTANTS
  \* @type: Set(Int);
  Ids

VARIABLES
  \* @type: Bool;
  flag,
  \* @type: Int;
  lastID,
  \* @type: Str;
  gaPc,
  \* @type: Int;
  gaLast,
  \* @type: Int;
  sent,
  \* @type: Str;
  slPc,
  \* @type: Int;
  cur,
  \* @type: Bool;
  seen,
  \* @type: Set(Int);
  accepted,
  \* @type: Set(Int);
  refused,
  \* @type: Set(Int);
  todo

ConstInit == Ids \in SUBSET (1..6)

Init == /\ flag = FALSE /\ lastID = 0
        /\ gaPc = "G1" /\ gaLast = -1 /\ sent = -1
        /\ slPc = "idle" /\ cur = 0 /\ seen = FALSE /\ accepted = {} /\ refused = {} /\ todo = Ids

G1 == /\ gaPc = "G1" /\ flag' = TRUE /\ gaPc' = "G2"
      /\ UNCHANGED <<lastID, gaLast, sent, slPc, cur, seen, accepted, refused, todo>>
G2 == /\ gaPc = "G2" /\ gaLast' = lastID /\ gaPc' = "G3"
      /\ UNCHANGED <<flag, lastID, sent, slPc, cur, seen, accepted, refused, todo>>
G3 == /\ gaPc = "G3" /\ sent' = gaLast /\ gaPc' = "done"
      /\ UNCHANGED <<flag, lastID, gaLast, slPc, cur, seen, accepted, refused, todo>>

Take == /\ slPc = "idle" /\ todo # {}
        /\ \E n \in todo : (\A m \in todo : n <= m) /\ cur' = n /\ todo' = todo \ {n}
        /\ slPc' = "S1"
        /\ UNCHANGED <<flag, lastID, gaPc, gaLast, sent, seen, accepted, refused>>
S1 == /\ slPc = "S1" /\ lastID' = cur /\ slPc' = "S2"
      /\ UNCHANGED <<flag, gaPc, gaLast, sent, cur, seen, accepted, refused, todo>>
S2 == /\ slPc = "S2" /\ seen' = flag /\ slPc' = "S3"
      /\ UNCHANGED <<flag, lastID, gaPc, gaLast, sent, cur, accepted, refused, todo>>
S3 == /\ slPc = "S3"
      /\ \/ /\ seen /\ refused' = refused \cup {cur} /\ UNCHANGED accepted
         \/ /\ ~seen /\ accepted' = accepted \cup {cur} /\ UNCHANGED refused
         \/ /\ ~seen /\ refused' = refused \cup {cur} /\ UNCHANGED accepted
      /\ slPc' = "idle"
      /\ UNCHANGED <<flag, lastID, gaPc, gaLast, sent, cur, seen, todo>>

Next == G1 \/ G2 \/ G3 \/ Take \/ S1 \/ S2 \/ S3

GoAwayTruth == sent >= 0 => \A n \in accepted : n <= sent

Read == gaPc \in {"G3", "done"}     \* last-stream-id has been read
\* every variable gets a value first (Apalache needs assignments), IndInv then restricts them
TypeInit ==
  /\ flag \in BOOLEAN /\ seen \in BOOLEAN
  /\ lastID \in Int /\ gaLast \in Int /\ sent \in Int /\ cur \in Int
  /\ gaPc \in {"G1", "G2", "G3", "done"} /\ slPc \in {"idle", "S1", "S2", "S3"}
  /\ accepted \in SUBSET Ids /\ refused \in SUBSET Ids /\ todo \in SUBSET Ids
IndInv ==
  /\ gaPc \in {"G1", "G2", "G3", "done"} /\ slPc \in {"idle", "S1", "S2", "S3"}
  /\ lastID >= 0 /\ cur >= 0 /\ todo \subseteq Ids /\ accepted \subseteq Ids /\ refused \subseteq Ids
  /\ \A n \in Ids : n >= 1
  /\ (gaPc # "G1") = flag
  /\ (Read => gaLast >= 0 /\ gaLast <= lastID) /\ (~Read => gaLast = -1)
  /\ (gaPc = "done") = (sent >= 0) /\ (sent >= 0 => sent = gaLast) /\ (sent < 0 => sent = -1)
  /\ \A n \in todo : n > lastID /\ n > cur
  /\ \A n \in accepted : n <= lastID /\ (Read => n <= gaLast)
  /\ (slPc \in {"S2", "S3"} => lastID = cur)
  /\ (slPc = "S1" => cur > lastID)
  /\ (slPc = "idle" => cur <= lastID)
  /\ (slPc = "S3" /\ ~seen /\ Read => cur <= gaLast)
  /\ (slPc = "S3" /\ ~seen /\ ~Read => TRUE)
  /\ (slPc = "S3" /\ seen => flag)
  /\ (slPc # "idle" => cur \in Ids)
IndInit == TypeInit /\ IndInv
=============================================================================
