SPECIFICATION Spec
CONSTANTS
  Fields <- ModelFieldsTiny
  Limits = {0, 64, 4096}
  MaxBlocks = 2
  MaxFields = 2
  MaxUpd = 1
  SplitHuff = FALSE
INVARIANTS DecodedEqualsInput WireRoundTrip NoDecodeError TablesEqual SizeWithinLimit BlockDecode
CHECK_DEADLOCK FALSE
