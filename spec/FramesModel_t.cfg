SPECIFICATION Spec
CONSTANTS
  Types = {0, 1, 2, 3, 4, 5, 6, 7, 8, 9, 10, 128, 255}
  Flags = {0, 1, 2, 4, 5, 8, 9, 13, 32, 37, 45, 64, 128, 210, 247, 255}
  Sids = {0, 1, 2, 2147483646, 2147483647}
  BodyLens = {0, 1, 2, 7, 64}
  Pads = {0, 1, 8, 254, 255}
  Halves = {0, 1, 13, 32768, 65535}
INVARIANTS IRoundTrip IConsumed IResync IRIgnored IPaddingStripped ISizeLimit ITruncated IFixedSizes IPadBounds
CHECK_DEADLOCK FALSE
