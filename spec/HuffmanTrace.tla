-------------------------- MODULE HuffmanTrace --------------------------
(* Trace validation for C15: every line is one call of the real            *)
(* HuffmanEncode / HuffmanDecode (recorded by harness `h2v huff`) and is    *)
(* judged by the operators of Huffman.tla.  Calls are independent, so each  *)
(* line is its own initial state and TLC's workers judge them in parallel.  *)
(*   {"t":n,"ev":"enc","in":[..],"out":[..],"xout":[..]}                    *)
(*   {"t":n,"ev":"dec","in":[..],"ok":b,"out":[..],"xok":b,"xout":[..]}     *)
(* x* fields are golang.org/x/net's answers: spec # x/net is a SPEC bug     *)
(* (reported as SELFBAD, makes the check inconclusive, never a violation).  *)
EXTENDS Huffman, TLC, Json, IOUtils

Trace == ndJsonDeserialize(IOEnv.VERIF_TRACE)

VARIABLES i, done
vars == <<i, done>>

Judge(e) ==
  IF e.ev = "enc" THEN Encode(e.in) = e.out
  ELSE LET d == Decode(e.in) IN
         /\ d.ok = e.ok
         /\ (d.ok => d.out = e.out)

SelfCheck(e) ==
  IF e.ev = "enc" THEN Encode(e.in) = e.xout
  ELSE LET d == Decode(e.in) IN d.ok = e.xok /\ (d.ok => d.out = e.xout)

Init == i \in 1..Len(Trace) /\ done = FALSE
Next == /\ ~done
        /\ done' = TRUE
        /\ i' = i
        /\ LET e == Trace[i] IN
             /\ IF Judge(e) THEN TRUE ELSE PrintT("BAD " \o ToString(e.t))
             /\ IF SelfCheck(e) THEN TRUE ELSE PrintT("SELFBAD " \o ToString(e.t))
Spec == Init /\ [][Next]_vars
=============================================================================
