--------------------------- MODULE SrvWriterQueue ---------------------------
(* The server's writer queue (serverConn.go: sc.writer, capacity 128 in the   *)
(* code), shared by the stream loop (responses), the read loop (PING and      *)
(* SETTINGS acks, its own GOAWAYs) and the timers, drained by the write loop. *)
(*                                                                           *)
(*   sc.write(fr)    select { sc.writer <- fr | <-sc.writeDone: drop fr }     *)
(*   write loop      fr := <-sc.writer; write fr and everything chained on    *)
(*                   fr.next; on a socket error: close(writeDone), leave      *)
(*                                                                           *)
(* Two things are decided here.  (1) A header block is ONE queue element -   *)
(* HEADERS with its CONTINUATIONs chained behind it - so whatever the other   *)
(* producers queue, the block is contiguous on the wire (RFC 7540 4.3; C01).  *)
(* (2) A producer parked on a full queue is woken when the write loop dies,   *)
(* so the loops end and ServeConn returns (C17 / C10).  Defects:              *)
(*   "FramePerWrite"   the block is queued frame by frame (seeded C01-5)      *)
(*   "CheckThenSend"   writeDone is looked at first, then a bare send (C17-5) *)
(* Code side: bighdr-queue (lib/srvprop.py) with the contiguity clauses of    *)
(* H2ServerTrace.tla; the stopread / noread teardown scenarios of C17 / C10.  *)
EXTENDS Integers, Sequences, FiniteSets, TLC

CONSTANTS Cap, Blocks, Acks, Defects

\* producers: "sl" queues Blocks header blocks of 3 frames each, "rl" queues Acks single frames
VARIABLES q, wire, dead, slPc, slLeft, slPart, rlLeft, rlPc
vars == <<q, wire, dead, slPc, slLeft, slPart, rlLeft, rlPc>>

Bad(d) == d \in Defects
Block(b) == <<[k |-> "H", b |-> b], [k |-> "C", b |-> b], [k |-> "CE", b |-> b]>>
Ack == [k |-> "P", b |-> 0]

Init == /\ q = <<>> /\ wire = <<>> /\ dead = FALSE
        /\ slPc = "idle" /\ slLeft = Blocks /\ slPart = <<>> /\ rlLeft = Acks /\ rlPc = "idle"

\* an element of q is a sequence of frames (a chain)
SLStart == /\ slPc = "idle" /\ slLeft > 0
           /\ slPart' = IF Bad("FramePerWrite") THEN [i \in 1..3 |-> <<Block(slLeft)[i]>>] ELSE <<Block(slLeft)>>
           /\ slLeft' = slLeft - 1
           /\ slPc' = IF Bad("CheckThenSend") THEN "check" ELSE "send"
           /\ UNCHANGED <<q, wire, dead, rlLeft, rlPc>>
SLCheck == /\ slPc = "check"
           /\ IF dead THEN /\ slPart' = Tail(slPart) /\ slPc' = IF Len(slPart) > 1 THEN "check" ELSE "idle"
                      ELSE /\ slPc' = "baresend" /\ UNCHANGED slPart
           /\ UNCHANGED <<q, wire, dead, slLeft, rlLeft, rlPc>>
SLNextPc(rest) == IF rest = <<>> THEN "idle" ELSE IF Bad("CheckThenSend") THEN "check" ELSE "send"
SLSend == /\ slPc \in {"send", "baresend"} /\ Len(q) < Cap
          /\ q' = Append(q, Head(slPart)) /\ slPart' = Tail(slPart) /\ slPc' = SLNextPc(Tail(slPart))
          /\ UNCHANGED <<wire, dead, slLeft, rlLeft, rlPc>>
SLDrop == /\ slPc = "send" /\ dead              \* the other arm of the select
          /\ slPart' = Tail(slPart) /\ slPc' = SLNextPc(Tail(slPart))
          /\ UNCHANGED <<q, wire, dead, slLeft, rlLeft, rlPc>>

RLStart == /\ rlPc = "idle" /\ rlLeft > 0 /\ rlLeft' = rlLeft - 1 /\ rlPc' = "send"
           /\ UNCHANGED <<q, wire, dead, slPc, slLeft, slPart>>
RLSend == /\ rlPc = "send" /\ Len(q) < Cap /\ q' = Append(q, <<Ack>>) /\ rlPc' = "idle"
          /\ UNCHANGED <<wire, dead, slPc, slLeft, slPart, rlLeft>>
RLDrop == /\ rlPc = "send" /\ dead /\ rlPc' = "idle"
          /\ UNCHANGED <<q, wire, dead, slPc, slLeft, slPart, rlLeft>>

WLWrite == /\ ~dead /\ q # <<>> /\ wire' = wire \o Head(q) /\ q' = Tail(q)
           /\ UNCHANGED <<dead, slPc, slLeft, slPart, rlLeft, rlPc>>
WLDie == /\ ~dead /\ dead' = TRUE
         /\ UNCHANGED <<q, wire, slPc, slLeft, slPart, rlLeft, rlPc>>

Next == SLStart \/ SLCheck \/ SLSend \/ SLDrop \/ RLStart \/ RLSend \/ RLDrop \/ WLWrite \/ WLDie
Spec == Init /\ [][Next]_vars

\* (1) on the wire a block is one run: after H of block b come C and CE of b, nothing else
Contiguous == \A i \in 1..Len(wire) :
                 /\ (wire[i].k = "H" /\ i < Len(wire)) => (wire[i + 1].k = "C" /\ wire[i + 1].b = wire[i].b)
                 /\ (wire[i].k = "C" /\ i < Len(wire)) => (wire[i + 1].k = "CE" /\ wire[i + 1].b = wire[i].b)
                 /\ (wire[i].k \in {"C", "CE"}) => (i > 1 /\ wire[i - 1].b = wire[i].b /\ wire[i - 1].k = IF wire[i].k = "C" THEN "H" ELSE "C")
\* (2) once the write loop is dead no producer is parked for good: its send has an enabled way out
NoProducerStuck == dead => /\ (slPc \in {"send", "baresend"} => (Len(q) < Cap \/ slPc = "send"))
                           /\ (rlPc = "send" => TRUE)
=============================================================================
