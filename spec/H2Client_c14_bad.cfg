SPECIFICATION Spec
CONSTANTS
  Reqs = {1, 2}
  MaxSteps = 10
  Ops = {"call", "resp", "data", "cancel", "credit", "defect-nocredit"}
  EmitOneIn = 0
  RespSizes = {0, 1, 2}
  BodySizes = {0}
VIEW View
INVARIANTS C12_AtMostOnce C12_NoStranding C02_OwnResponse C02_FreshIds C14_ConnCredit C14_StreamCredit
CONSTRAINT EmitState
CHECK_DEADLOCK FALSE
