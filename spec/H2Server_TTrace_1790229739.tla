---- MODULE H2Server_TTrace_1790229739 ----
EXTENDS Sequences, TLCExt, Toolbox, Naturals, TLC, H2Server

_expression ==
    LET H2Server_TEExpression == INSTANCE H2Server_TEExpression
    IN H2Server_TEExpression!expression
----

_trace ==
    LET H2Server_TETrace == INSTANCE H2Server_TETrace
    IN H2Server_TETrace!trace
----

_inv ==
    ~(
        TLCGet("level") = Len(_TETrace)
        /\
        hist = (<<[sid |-> 1, es |-> FALSE, eh |-> TRUE, op |-> "hdr", a |-> -1, b |-> 0], [sid |-> 1, es |-> FALSE, eh |-> FALSE, op |-> "data", a |-> 2, b |-> 0]>>)
        /\
        v = ([s |-> (1 :> [st |-> "open", hdrDone |-> TRUE, blkES |-> FALSE, trailer |-> FALSE, recv |-> 2, cl |-> -1, bad |-> FALSE, disp |-> FALSE, running |-> FALSE, abandoned |-> FALSE, pend |-> 0, pendEnd |-> FALSE, hdrSent |-> FALSE, win |-> 2, rq |-> "open", ended |-> FALSE, peerES |-> FALSE, replyN |-> -1] @@ 3 :> [st |-> "none", hdrDone |-> FALSE, blkES |-> FALSE, trailer |-> FALSE, recv |-> 0, cl |-> -1, bad |-> FALSE, disp |-> FALSE, running |-> FALSE, abandoned |-> FALSE, pend |-> 0, pendEnd |-> FALSE, hdrSent |-> FALSE, win |-> 0, rq |-> "idle", ended |-> FALSE, peerES |-> FALSE, replyN |-> -1]), lastID |-> 1, open |-> 1, hb |-> 0, winC |-> 5, initWin |-> 2, closing |-> FALSE, dead |-> FALSE, gaLast |-> -1, gaCode |-> -1, grantC |-> 5, sentC |-> 0, grant |-> (1 :> 2 @@ 3 :> 0), sent |-> (1 :> 0 @@ 3 :> 0), dispCnt |-> (1 :> 0 @@ 3 :> 0), endCnt |-> (1 :> 0 @@ 3 :> 0), lf |-> [ty |-> 0, sid |-> 1], allowed |-> {[c |-> -1, k |-> "proc"]}, obs |-> [rst |-> {}, goaway |-> {}, closed |-> FALSE], judged |-> TRUE, over |-> FALSE, nf |-> 2, recvC |-> 2, credC |-> 2, credS |-> (1 :> 0 @@ 3 :> 2)])
    )
----

_init ==
    /\ v = _TETrace[1].v
    /\ hist = _TETrace[1].hist
----

_next ==
    /\ \E i,j \in DOMAIN _TETrace:
        /\ \/ /\ j = i + 1
              /\ i = TLCGet("level")
        /\ v  = _TETrace[i].v
        /\ v' = _TETrace[j].v
        /\ hist  = _TETrace[i].hist
        /\ hist' = _TETrace[j].hist

\* Uncomment the ASSUME below to write the states of the error trace
\* to the given file in Json format. Note that you can pass any tuple
\* to `JsonSerialize`. For example, a sub-sequence of _TETrace.
    \* ASSUME
    \*     LET J == INSTANCE Json
    \*         IN J!JsonSerialize("H2Server_TTrace_1790229739.json", _TETrace)

=============================================================================

 Note that you can extract this module `H2Server_TEExpression`
  to a dedicated file to reuse `expression` (the module in the 
  dedicated `H2Server_TEExpression.tla` file takes precedence 
  over the module `H2Server_TEExpression` below).

---- MODULE H2Server_TEExpression ----
EXTENDS Sequences, TLCExt, Toolbox, Naturals, TLC, H2Server

expression == 
    [
        \* To hide variables of the `H2Server` spec from the error trace,
        \* remove the variables below.  The trace will be written in the order
        \* of the fields of this record.
        v |-> v
        ,hist |-> hist
        
        \* Put additional constant-, state-, and action-level expressions here:
        \* ,_stateNumber |-> _TEPosition
        \* ,_vUnchanged |-> v = v'
        
        \* Format the `v` variable as Json value.
        \* ,_vJson |->
        \*     LET J == INSTANCE Json
        \*     IN J!ToJson(v)
        
        \* Lastly, you may build expressions over arbitrary sets of states by
        \* leveraging the _TETrace operator.  For example, this is how to
        \* count the number of times a spec variable changed up to the current
        \* state in the trace.
        \* ,_vModCount |->
        \*     LET F[s \in DOMAIN _TETrace] ==
        \*         IF s = 1 THEN 0
        \*         ELSE IF _TETrace[s].v # _TETrace[s-1].v
        \*             THEN 1 + F[s-1] ELSE F[s-1]
        \*     IN F[_TEPosition - 1]
    ]

=============================================================================



Parsing and semantic processing can take forever if the trace below is long.
 In this case, it is advised to uncomment the module below to deserialize the
 trace from a generated binary file.

\*
\*---- MODULE H2Server_TETrace ----
\*EXTENDS IOUtils, TLC, H2Server
\*
\*trace == IODeserialize("H2Server_TTrace_1790229739.bin", TRUE)
\*
\*=============================================================================
\*

---- MODULE H2Server_TETrace ----
EXTENDS TLC, H2Server

trace == 
    <<
    ([hist |-> <<>>,v |-> [s |-> (1 :> [st |-> "none", hdrDone |-> FALSE, blkES |-> FALSE, trailer |-> FALSE, recv |-> 0, cl |-> -1, bad |-> FALSE, disp |-> FALSE, running |-> FALSE, abandoned |-> FALSE, pend |-> 0, pendEnd |-> FALSE, hdrSent |-> FALSE, win |-> 0, rq |-> "idle", ended |-> FALSE, peerES |-> FALSE, replyN |-> -1] @@ 3 :> [st |-> "none", hdrDone |-> FALSE, blkES |-> FALSE, trailer |-> FALSE, recv |-> 0, cl |-> -1, bad |-> FALSE, disp |-> FALSE, running |-> FALSE, abandoned |-> FALSE, pend |-> 0, pendEnd |-> FALSE, hdrSent |-> FALSE, win |-> 0, rq |-> "idle", ended |-> FALSE, peerES |-> FALSE, replyN |-> -1]), lastID |-> 0, open |-> 0, hb |-> 0, winC |-> 5, initWin |-> 2, closing |-> FALSE, dead |-> FALSE, gaLast |-> -1, gaCode |-> -1, grantC |-> 5, sentC |-> 0, grant |-> (1 :> 0 @@ 3 :> 0), sent |-> (1 :> 0 @@ 3 :> 0), dispCnt |-> (1 :> 0 @@ 3 :> 0), endCnt |-> (1 :> 0 @@ 3 :> 0), lf |-> [ty |-> -1, sid |-> 0], allowed |-> {[c |-> -1, k |-> "proc"]}, obs |-> [rst |-> {}, goaway |-> {}, closed |-> FALSE], judged |-> FALSE, over |-> FALSE, nf |-> 0, recvC |-> 4, credC |-> 4, credS |-> (1 :> 2 @@ 3 :> 2)]]),
    ([hist |-> <<[sid |-> 1, es |-> FALSE, eh |-> TRUE, op |-> "hdr", a |-> -1, b |-> 0]>>,v |-> [s |-> (1 :> [st |-> "open", hdrDone |-> TRUE, blkES |-> FALSE, trailer |-> FALSE, recv |-> 0, cl |-> -1, bad |-> FALSE, disp |-> FALSE, running |-> FALSE, abandoned |-> FALSE, pend |-> 0, pendEnd |-> FALSE, hdrSent |-> FALSE, win |-> 2, rq |-> "open", ended |-> FALSE, peerES |-> FALSE, replyN |-> -1] @@ 3 :> [st |-> "none", hdrDone |-> FALSE, blkES |-> FALSE, trailer |-> FALSE, recv |-> 0, cl |-> -1, bad |-> FALSE, disp |-> FALSE, running |-> FALSE, abandoned |-> FALSE, pend |-> 0, pendEnd |-> FALSE, hdrSent |-> FALSE, win |-> 0, rq |-> "idle", ended |-> FALSE, peerES |-> FALSE, replyN |-> -1]), lastID |-> 1, open |-> 1, hb |-> 0, winC |-> 5, initWin |-> 2, closing |-> FALSE, dead |-> FALSE, gaLast |-> -1, gaCode |-> -1, grantC |-> 5, sentC |-> 0, grant |-> (1 :> 2 @@ 3 :> 0), sent |-> (1 :> 0 @@ 3 :> 0), dispCnt |-> (1 :> 0 @@ 3 :> 0), endCnt |-> (1 :> 0 @@ 3 :> 0), lf |-> [ty |-> 1, sid |-> 1], allowed |-> {[c |-> -1, k |-> "proc"]}, obs |-> [rst |-> {}, goaway |-> {}, closed |-> FALSE], judged |-> TRUE, over |-> FALSE, nf |-> 1, recvC |-> 4, credC |-> 4, credS |-> (1 :> 2 @@ 3 :> 2)]]),
    ([hist |-> <<[sid |-> 1, es |-> FALSE, eh |-> TRUE, op |-> "hdr", a |-> -1, b |-> 0], [sid |-> 1, es |-> FALSE, eh |-> FALSE, op |-> "data", a |-> 2, b |-> 0]>>,v |-> [s |-> (1 :> [st |-> "open", hdrDone |-> TRUE, blkES |-> FALSE, trailer |-> FALSE, recv |-> 2, cl |-> -1, bad |-> FALSE, disp |-> FALSE, running |-> FALSE, abandoned |-> FALSE, pend |-> 0, pendEnd |-> FALSE, hdrSent |-> FALSE, win |-> 2, rq |-> "open", ended |-> FALSE, peerES |-> FALSE, replyN |-> -1] @@ 3 :> [st |-> "none", hdrDone |-> FALSE, blkES |-> FALSE, trailer |-> FALSE, recv |-> 0, cl |-> -1, bad |-> FALSE, disp |-> FALSE, running |-> FALSE, abandoned |-> FALSE, pend |-> 0, pendEnd |-> FALSE, hdrSent |-> FALSE, win |-> 0, rq |-> "idle", ended |-> FALSE, peerES |-> FALSE, replyN |-> -1]), lastID |-> 1, open |-> 1, hb |-> 0, winC |-> 5, initWin |-> 2, closing |-> FALSE, dead |-> FALSE, gaLast |-> -1, gaCode |-> -1, grantC |-> 5, sentC |-> 0, grant |-> (1 :> 2 @@ 3 :> 0), sent |-> (1 :> 0 @@ 3 :> 0), dispCnt |-> (1 :> 0 @@ 3 :> 0), endCnt |-> (1 :> 0 @@ 3 :> 0), lf |-> [ty |-> 0, sid |-> 1], allowed |-> {[c |-> -1, k |-> "proc"]}, obs |-> [rst |-> {}, goaway |-> {}, closed |-> FALSE], judged |-> TRUE, over |-> FALSE, nf |-> 2, recvC |-> 2, credC |-> 2, credS |-> (1 :> 0 @@ 3 :> 2)]])
    >>
----


=============================================================================

---- CONFIG H2Server_TTrace_1790229739 ----
CONSTANTS
    Sids = { 1 , 3 }
    MaxConcM = 2
    InitWinM = 2
    ConnWinM = 5
    MaxWinM = 8
    MaxBodyM = 3
    RespSizes = { 0 , 1 }
    MaxFrames = 6
    Ops = { "hdr" , "data" , "rst" , "finish" , "credit" , "defect-nostreamcredit" }
    EmitOneIn = 0

INVARIANT
    _inv

CHECK_DEADLOCK
    \* CHECK_DEADLOCK off because of PROPERTY or INVARIANT above.
    FALSE

INIT
    _init

NEXT
    _next

CONSTANT
    _TETrace <- _trace

ALIAS
    _expression
=============================================================================
\* Generated on Thu Sep 24 06:02:21 UTC 2026