---- MODULE GoAwaySenders_TTrace_1790230959 ----
EXTENDS Sequences, GoAwaySenders, TLCExt, Toolbox, Naturals, TLC

_expression ==
    LET GoAwaySenders_TEExpression == INSTANCE GoAwaySenders_TEExpression
    IN GoAwaySenders_TEExpression!expression
----

_trace ==
    LET GoAwaySenders_TETrace == INSTANCE GoAwaySenders_TETrace
    IN GoAwaySenders_TETrace!trace
----

_inv ==
    ~(
        TLCGet("level") = Len(_TETrace)
        /\
        cur = (1)
        /\
        flag = (TRUE)
        /\
        last = ([rl |-> 0, idle |-> 0, ping |-> 1])
        /\
        refused = ({})
        /\
        accepted = ({})
        /\
        lastID = (1)
        /\
        gaLast = (1)
        /\
        seen = (FALSE)
        /\
        todo = ({3, 5})
        /\
        wire = (<<0, 1>>)
        /\
        pc = ([rl |-> "done", idle |-> "idle", ping |-> "done"])
        /\
        gaSent = (TRUE)
        /\
        lock = ("")
        /\
        slPc = ("S2")
        /\
        first = ([rl |-> TRUE, idle |-> FALSE, ping |-> TRUE])
    )
----

_init ==
    /\ flag = _TETrace[1].flag
    /\ wire = _TETrace[1].wire
    /\ cur = _TETrace[1].cur
    /\ accepted = _TETrace[1].accepted
    /\ pc = _TETrace[1].pc
    /\ gaLast = _TETrace[1].gaLast
    /\ lock = _TETrace[1].lock
    /\ gaSent = _TETrace[1].gaSent
    /\ last = _TETrace[1].last
    /\ first = _TETrace[1].first
    /\ lastID = _TETrace[1].lastID
    /\ todo = _TETrace[1].todo
    /\ slPc = _TETrace[1].slPc
    /\ refused = _TETrace[1].refused
    /\ seen = _TETrace[1].seen
----

_next ==
    /\ \E i,j \in DOMAIN _TETrace:
        /\ \/ /\ j = i + 1
              /\ i = TLCGet("level")
        /\ flag  = _TETrace[i].flag
        /\ flag' = _TETrace[j].flag
        /\ wire  = _TETrace[i].wire
        /\ wire' = _TETrace[j].wire
        /\ cur  = _TETrace[i].cur
        /\ cur' = _TETrace[j].cur
        /\ accepted  = _TETrace[i].accepted
        /\ accepted' = _TETrace[j].accepted
        /\ pc  = _TETrace[i].pc
        /\ pc' = _TETrace[j].pc
        /\ gaLast  = _TETrace[i].gaLast
        /\ gaLast' = _TETrace[j].gaLast
        /\ lock  = _TETrace[i].lock
        /\ lock' = _TETrace[j].lock
        /\ gaSent  = _TETrace[i].gaSent
        /\ gaSent' = _TETrace[j].gaSent
        /\ last  = _TETrace[i].last
        /\ last' = _TETrace[j].last
        /\ first  = _TETrace[i].first
        /\ first' = _TETrace[j].first
        /\ lastID  = _TETrace[i].lastID
        /\ lastID' = _TETrace[j].lastID
        /\ todo  = _TETrace[i].todo
        /\ todo' = _TETrace[j].todo
        /\ slPc  = _TETrace[i].slPc
        /\ slPc' = _TETrace[j].slPc
        /\ refused  = _TETrace[i].refused
        /\ refused' = _TETrace[j].refused
        /\ seen  = _TETrace[i].seen
        /\ seen' = _TETrace[j].seen

\* Uncomment the ASSUME below to write the states of the error trace
\* to the given file in Json format. Note that you can pass any tuple
\* to `JsonSerialize`. For example, a sub-sequence of _TETrace.
    \* ASSUME
    \*     LET J == INSTANCE Json
    \*         IN J!JsonSerialize("GoAwaySenders_TTrace_1790230959.json", _TETrace)

=============================================================================

 Note that you can extract this module `GoAwaySenders_TEExpression`
  to a dedicated file to reuse `expression` (the module in the 
  dedicated `GoAwaySenders_TEExpression.tla` file takes precedence 
  over the module `GoAwaySenders_TEExpression` below).

---- MODULE GoAwaySenders_TEExpression ----
EXTENDS Sequences, GoAwaySenders, TLCExt, Toolbox, Naturals, TLC

expression == 
    [
        \* To hide variables of the `GoAwaySenders` spec from the error trace,
        \* remove the variables below.  The trace will be written in the order
        \* of the fields of this record.
        flag |-> flag
        ,wire |-> wire
        ,cur |-> cur
        ,accepted |-> accepted
        ,pc |-> pc
        ,gaLast |-> gaLast
        ,lock |-> lock
        ,gaSent |-> gaSent
        ,last |-> last
        ,first |-> first
        ,lastID |-> lastID
        ,todo |-> todo
        ,slPc |-> slPc
        ,refused |-> refused
        ,seen |-> seen
        
        \* Put additional constant-, state-, and action-level expressions here:
        \* ,_stateNumber |-> _TEPosition
        \* ,_flagUnchanged |-> flag = flag'
        
        \* Format the `flag` variable as Json value.
        \* ,_flagJson |->
        \*     LET J == INSTANCE Json
        \*     IN J!ToJson(flag)
        
        \* Lastly, you may build expressions over arbitrary sets of states by
        \* leveraging the _TETrace operator.  For example, this is how to
        \* count the number of times a spec variable changed up to the current
        \* state in the trace.
        \* ,_flagModCount |->
        \*     LET F[s \in DOMAIN _TETrace] ==
        \*         IF s = 1 THEN 0
        \*         ELSE IF _TETrace[s].flag # _TETrace[s-1].flag
        \*             THEN 1 + F[s-1] ELSE F[s-1]
        \*     IN F[_TEPosition - 1]
    ]

=============================================================================



Parsing and semantic processing can take forever if the trace below is long.
 In this case, it is advised to uncomment the module below to deserialize the
 trace from a generated binary file.

\*
\*---- MODULE GoAwaySenders_TETrace ----
\*EXTENDS IOUtils, GoAwaySenders, TLC
\*
\*trace == IODeserialize("GoAwaySenders_TTrace_1790230959.bin", TRUE)
\*
\*=============================================================================
\*

---- MODULE GoAwaySenders_TETrace ----
EXTENDS GoAwaySenders, TLC

trace == 
    <<
    ([cur |-> 0,flag |-> FALSE,last |-> [rl |-> 0, idle |-> 0, ping |-> 0],refused |-> {},accepted |-> {},lastID |-> 0,gaLast |-> 0,seen |-> FALSE,todo |-> {1, 3, 5},wire |-> <<>>,pc |-> [rl |-> "idle", idle |-> "idle", ping |-> "idle"],gaSent |-> FALSE,lock |-> "",slPc |-> "idle",first |-> [rl |-> FALSE, idle |-> FALSE, ping |-> FALSE]]),
    ([cur |-> 0,flag |-> FALSE,last |-> [rl |-> 0, idle |-> 0, ping |-> 0],refused |-> {},accepted |-> {},lastID |-> 0,gaLast |-> 0,seen |-> FALSE,todo |-> {1, 3, 5},wire |-> <<>>,pc |-> [rl |-> "G1", idle |-> "idle", ping |-> "idle"],gaSent |-> FALSE,lock |-> "rl",slPc |-> "idle",first |-> [rl |-> FALSE, idle |-> FALSE, ping |-> FALSE]]),
    ([cur |-> 0,flag |-> TRUE,last |-> [rl |-> 0, idle |-> 0, ping |-> 0],refused |-> {},accepted |-> {},lastID |-> 0,gaLast |-> 0,seen |-> FALSE,todo |-> {1, 3, 5},wire |-> <<>>,pc |-> [rl |-> "G2", idle |-> "idle", ping |-> "idle"],gaSent |-> FALSE,lock |-> "rl",slPc |-> "idle",first |-> [rl |-> FALSE, idle |-> FALSE, ping |-> FALSE]]),
    ([cur |-> 0,flag |-> TRUE,last |-> [rl |-> 0, idle |-> 0, ping |-> 0],refused |-> {},accepted |-> {},lastID |-> 0,gaLast |-> 0,seen |-> FALSE,todo |-> {1, 3, 5},wire |-> <<>>,pc |-> [rl |-> "D", idle |-> "idle", ping |-> "idle"],gaSent |-> FALSE,lock |-> "rl",slPc |-> "idle",first |-> [rl |-> FALSE, idle |-> FALSE, ping |-> FALSE]]),
    ([cur |-> 0,flag |-> TRUE,last |-> [rl |-> 0, idle |-> 0, ping |-> 0],refused |-> {},accepted |-> {},lastID |-> 0,gaLast |-> 0,seen |-> FALSE,todo |-> {1, 3, 5},wire |-> <<>>,pc |-> [rl |-> "W", idle |-> "idle", ping |-> "idle"],gaSent |-> TRUE,lock |-> "rl",slPc |-> "idle",first |-> [rl |-> TRUE, idle |-> FALSE, ping |-> FALSE]]),
    ([cur |-> 0,flag |-> TRUE,last |-> [rl |-> 0, idle |-> 0, ping |-> 0],refused |-> {},accepted |-> {},lastID |-> 0,gaLast |-> 0,seen |-> FALSE,todo |-> {1, 3, 5},wire |-> <<0>>,pc |-> [rl |-> "done", idle |-> "idle", ping |-> "idle"],gaSent |-> TRUE,lock |-> "",slPc |-> "idle",first |-> [rl |-> TRUE, idle |-> FALSE, ping |-> FALSE]]),
    ([cur |-> 0,flag |-> TRUE,last |-> [rl |-> 0, idle |-> 0, ping |-> 0],refused |-> {},accepted |-> {},lastID |-> 0,gaLast |-> 0,seen |-> FALSE,todo |-> {1, 3, 5},wire |-> <<0>>,pc |-> [rl |-> "done", idle |-> "idle", ping |-> "G1"],gaSent |-> TRUE,lock |-> "ping",slPc |-> "idle",first |-> [rl |-> TRUE, idle |-> FALSE, ping |-> FALSE]]),
    ([cur |-> 0,flag |-> TRUE,last |-> [rl |-> 0, idle |-> 0, ping |-> 0],refused |-> {},accepted |-> {},lastID |-> 0,gaLast |-> 0,seen |-> FALSE,todo |-> {1, 3, 5},wire |-> <<0>>,pc |-> [rl |-> "done", idle |-> "idle", ping |-> "G2"],gaSent |-> TRUE,lock |-> "ping",slPc |-> "idle",first |-> [rl |-> TRUE, idle |-> FALSE, ping |-> FALSE]]),
    ([cur |-> 1,flag |-> TRUE,last |-> [rl |-> 0, idle |-> 0, ping |-> 0],refused |-> {},accepted |-> {},lastID |-> 0,gaLast |-> 0,seen |-> FALSE,todo |-> {3, 5},wire |-> <<0>>,pc |-> [rl |-> "done", idle |-> "idle", ping |-> "G2"],gaSent |-> TRUE,lock |-> "ping",slPc |-> "S1",first |-> [rl |-> TRUE, idle |-> FALSE, ping |-> FALSE]]),
    ([cur |-> 1,flag |-> TRUE,last |-> [rl |-> 0, idle |-> 0, ping |-> 0],refused |-> {},accepted |-> {},lastID |-> 1,gaLast |-> 0,seen |-> FALSE,todo |-> {3, 5},wire |-> <<0>>,pc |-> [rl |-> "done", idle |-> "idle", ping |-> "G2"],gaSent |-> TRUE,lock |-> "ping",slPc |-> "S2",first |-> [rl |-> TRUE, idle |-> FALSE, ping |-> FALSE]]),
    ([cur |-> 1,flag |-> TRUE,last |-> [rl |-> 0, idle |-> 0, ping |-> 1],refused |-> {},accepted |-> {},lastID |-> 1,gaLast |-> 0,seen |-> FALSE,todo |-> {3, 5},wire |-> <<0>>,pc |-> [rl |-> "done", idle |-> "idle", ping |-> "D"],gaSent |-> TRUE,lock |-> "ping",slPc |-> "S2",first |-> [rl |-> TRUE, idle |-> FALSE, ping |-> FALSE]]),
    ([cur |-> 1,flag |-> TRUE,last |-> [rl |-> 0, idle |-> 0, ping |-> 1],refused |-> {},accepted |-> {},lastID |-> 1,gaLast |-> 1,seen |-> FALSE,todo |-> {3, 5},wire |-> <<0>>,pc |-> [rl |-> "done", idle |-> "idle", ping |-> "W"],gaSent |-> TRUE,lock |-> "ping",slPc |-> "S2",first |-> [rl |-> TRUE, idle |-> FALSE, ping |-> TRUE]]),
    ([cur |-> 1,flag |-> TRUE,last |-> [rl |-> 0, idle |-> 0, ping |-> 1],refused |-> {},accepted |-> {},lastID |-> 1,gaLast |-> 1,seen |-> FALSE,todo |-> {3, 5},wire |-> <<0, 1>>,pc |-> [rl |-> "done", idle |-> "idle", ping |-> "done"],gaSent |-> TRUE,lock |-> "",slPc |-> "S2",first |-> [rl |-> TRUE, idle |-> FALSE, ping |-> TRUE]])
    >>
----


=============================================================================

---- CONFIG GoAwaySenders_TTrace_1790230959 ----
CONSTANTS
    Ids = { 1 , 3 , 5 }
    Senders = { "rl" , "idle" , "ping" }
    Defects = { "NoRepeat" }

INVARIANT
    _inv

CHECK_DEADLOCK
    \* CHECK_DEADLOCK off because of PROPERTY or INVARIANT above.
    FALSE

INIT
    _init

NEXT
    _next

CONSTANT
    _TETrace <- _trace

ALIAS
    _expression
=============================================================================
\* Generated on Thu Sep 24 06:22:40 UTC 2026