--------------------------- MODULE HttpMsgModel ---------------------------
(* C20 design model / generator: request header lists built from a          *)
(* vocabulary of valid and invalid fields (VocabTab) by inserting up to two  *)
(* vocabulary items into, and deleting at most one item from, a valid base   *)
(* list.  Invariant: the defect-set formulation of RFC 7540 8.1.2 in         *)
(* HttpMsg.tla agrees with an independently written formulation (WF2).       *)
(* Every list is printed ("SCEN [indices]") for replay into the real server. *)
EXTENDS HttpMsg, VocabTab, TLC, Json
CONSTANTS MaxIns
Bases == {<<1, 3, 4, 6>>, <<2, 3, 4>>}   \* valid bases: GET with :authority, POST without
VARIABLES lst, ins, del
vars == <<lst, ins, del>>

Fields(l) == [i \in DOMAIN l |-> Vocab[l[i]]]

Init == lst \in Bases /\ ins = 0 /\ del = 0
Insert == /\ ins < MaxIns
          /\ \E p \in 0..Len(lst), x \in DOMAIN Vocab :
               lst' = SubSeq(lst, 1, p) \o <<x>> \o SubSeq(lst, p + 1, Len(lst))
          /\ ins' = ins + 1 /\ del' = del
Delete == /\ del = 0 /\ ins = 0 /\ Len(lst) > 0
          /\ \E p \in DOMAIN lst : lst' = SubSeq(lst, 1, p - 1) \o SubSeq(lst, p + 1, Len(lst))
          /\ del' = 1 /\ ins' = ins
Next == Insert \/ Delete
Spec == Init /\ [][Next]_vars

\* an independent formulation of well-formedness (body length 0, no trailers)
WF2(f) ==
  LET names == {f[i][1] : i \in DOMAIN f}
      cnt(n) == Cardinality({i \in DOMAIN f : f[i][1] = n})
      firstReg == IF \E i \in DOMAIN f : ~IsPseudo(f[i][1]) THEN CHOOSE i \in DOMAIN f : ~IsPseudo(f[i][1]) /\ \A j \in 1..(i-1) : IsPseudo(f[j][1]) ELSE Len(f) + 1
  IN /\ \A n \in names : ~HasUpper(n)
     /\ \A n \in names : IsPseudo(n) => n \in ReqPseudo
     /\ cnt(B_method) = 1 /\ cnt(B_scheme) = 1 /\ cnt(B_path) = 1 /\ cnt(B_authority) <= 1
     /\ \A i \in DOMAIN f : f[i][1] = B_path => f[i][2] # <<>>
     /\ \A i \in DOMAIN f : i > firstReg => ~IsPseudo(f[i][1])
     /\ names \cap ConnSpecific = {}
     /\ \A i \in DOMAIN f : f[i][1] = B_te => f[i][2] = B_trailers
     /\ \A i \in DOMAIN f : f[i][1] = B_contentlength => (IsDigits(f[i][2]) /\ StripZeros(f[i][2]) = <<48>>)

Agree == WellFormedRequest(Fields(lst), 0, <<>>) = WF2(Fields(lst))
Emit == PrintT("SCEN " \o ToJson(lst))
=============================================================================
