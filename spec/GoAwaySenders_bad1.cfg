SPECIFICATION Spec
CONSTANTS
  Ids = {1, 3, 5}
  Senders = {"rl", "idle", "ping"}
  Defects = {"UnlockBeforeWrite"}
INVARIANT GoAwayTruth
CHECK_DEADLOCK FALSE
