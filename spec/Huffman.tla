---------------------------- MODULE Huffman ----------------------------
(* RFC 7541 section 5.2 / Appendix B: the static Huffman code of HPACK.      *)
(* Pure operators over byte strings (sequences of 0..255).  The code table   *)
(* (HuffTab) is generated from golang.org/x/net, not from the code under     *)
(* test.  Used three ways: (1) as a small state space whose invariants show  *)
(* the transcription is a lossless complete prefix code, (2) as the judge    *)
(* of HuffmanTrace.tla over input/output pairs recorded from the real        *)
(* HuffmanEncode / HuffmanDecode, (3) by HpackWire.tla for string literals.  *)
EXTENDS Integers, Sequences, SequencesExt, FiniteSets, TLC, HuffTab


Sym == 0..255
EOS == 257                       \* index of EOS in CodeBits

MinLen == 5
MaxLen == 30

\* NOTE on style (all modules): loops are FoldLeft over a sequence with an
\* accumulator, never RECURSIVE operators.  TLC does not cache the (lazy)
\* arguments of recursive operators, so a recursive walk that mentions its
\* parameters several times is re-evaluated exponentially (measured: 30 ms
\* for a 2-byte decode); FoldLeft has a strict Java implementation.
BitsOf(s) == FoldLeft(LAMBDA acc, b : acc \o CodeBits[b + 1], <<>>, s)

Ones(n) == [i \in 1..n |-> 1]

Pad(bits) == LET r == Len(bits) % 8 IN IF r = 0 THEN bits ELSE bits \o Ones(8 - r)

Pack(bits) == [i \in 1..(Len(bits) \div 8) |->
                 LET o == 8 * (i - 1) IN
                   128 * bits[o+1] + 64 * bits[o+2] + 32 * bits[o+3] + 16 * bits[o+4]
                   + 8 * bits[o+5] + 4 * bits[o+6] + 2 * bits[o+7] + bits[o+8]]

ByteBits(b) == << (b \div 128) % 2, (b \div 64) % 2, (b \div 32) % 2, (b \div 16) % 2,
                  (b \div 8) % 2, (b \div 4) % 2, (b \div 2) % 2, b % 2 >>

Unpack(bytes) == FoldLeft(LAMBDA acc, b : acc \o ByteBits(b), <<>>, bytes)

\* The encoder: concatenated codes, padded to an octet boundary with the most
\* significant bits of EOS (all ones).
Encode(s) == Pack(Pad(BitsOf(s)))

\* The decoder walks the code tree (HuffTab!Trie, tied to CodeBits by TrieOK
\* below) bit by bit and emits a symbol at each leaf - exact because the code
\* is prefix-free.  Reaching EOS (30 ones) is an error.  At the end the pending
\* bits must be at most 7 and all ones (RFC 7541 5.2).
DecStep(a, bit) ==
  IF ~a.ok THEN a
  ELSE LET nx == Trie[a.node][bit + 1] IN
       IF nx = 0 THEN [a EXCEPT !.ok = FALSE]
       ELSE IF nx < 0
       THEN [ok |-> TRUE, node |-> 1, pend |-> 0, ones |-> TRUE, out |-> Append(a.out, (0 - nx) - 1)]
       ELSE [a EXCEPT !.node = nx, !.pend = @ + 1, !.ones = @ /\ bit = 1]

Dec0 == [ok |-> TRUE, node |-> 1, pend |-> 0, ones |-> TRUE, out |-> <<>>]

DecFin(r) ==
  IF r.ok /\ r.pend <= 7 /\ r.ones
  THEN [ok |-> TRUE, out |-> r.out]
  ELSE [ok |-> FALSE, out |-> <<>>]

Decode(bytes) == DecFin(FoldLeft(DecStep, Dec0, Unpack(bytes)))
Accepts(bytes) == Decode(bytes).ok

-----------------------------------------------------------------------------
(* Table sanity: evaluated once by TLC (ASSUME).                             *)

Pow2(n) == IF n = 0 THEN 1 ELSE LET F[i \in 0..n] == IF i = 0 THEN 1 ELSE 2 * F[i-1] IN F[n]
IsPfx(a, b) == Len(a) <= Len(b) /\ SubSeq(b, 1, Len(a)) = a

\* Kraft equality over the 257 codes: the code is complete (every bit string
\* is a prefix of, or has as a prefix, exactly one code).  2^30 fits in 32 bit.
KraftSum(n) == FoldLeft(LAMBDA acc, c : acc + Pow2(30 - Len(c)), 0, SubSeq(CodeBits, 1, n))

TableOK ==
  /\ Len(CodeBits) = 257
  /\ CodeBits[EOS] = Ones(30)
  /\ KraftSum(257) = Pow2(30)
  /\ Cardinality({CodeBits[i] : i \in 1..257}) = 257
  /\ \A i \in 1..257 : Len(CodeBits[i]) \in MinLen..MaxLen
  /\ \A i \in {1, 33, 49, 98, 257}, j \in 1..257 : i # j => ~IsPfx(CodeBits[i], CodeBits[j])

\* The generated decoding tree is exactly the tree of CodeBits: a full binary
\* tree with 257 leaves has 256 internal nodes, and walking each code from
\* the root ends in that symbol's leaf (EOS: the invalid marker 0).
WalkCode(c) == FoldLeft(LAMBDA n, bit : IF n > 0 THEN Trie[n][bit + 1] ELSE -1000, 1, c)
TrieOK ==
  /\ Len(Trie) = 256
  /\ \A i \in 1..256 : WalkCode(CodeBits[i]) = 0 - i
  /\ WalkCode(CodeBits[EOS]) = 0

ASSUME TableOK
ASSUME TrieOK

------------------------------------------------------------------------=============================================================================
