SPECIFICATION Spec
CONSTANTS
  Sids = {1, 3}
  MaxConcM = 2
  InitWinM = 2
  ConnWinM = 5
  MaxWinM = 8
  MaxBodyM = 3
  RespSizes = {0, 1}
  MaxFrames = 6
  Ops = {"hdr", "data", "rst", "finish", "credit", "defect-nostreamcredit"}
  EmitOneIn = 0
VIEW View
INVARIANTS C08_Reaction C01_DispatchOnce C01_DispatchLegal C01_EndOnce C10_GoAwayTruth C13_Slots C13_OpenIsSlots C14_ConnCredit C14_StreamCredit
CONSTRAINT EmitState
CHECK_DEADLOCK FALSE
