SPECIFICATION Spec
CONSTANT Defects = {}
INVARIANTS NotStranded RetryableMeansUnsentOrSwept
CHECK_DEADLOCK FALSE
