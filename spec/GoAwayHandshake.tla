-------------------------- MODULE GoAwayHandshake --------------------------
(* The two-sided handshake that makes a GOAWAY's last-stream-id true when    *)
(* the GOAWAY is sent by a goroutine other than the stream loop (read loop:  *)
(* malformed frame, PING on a stream, ...; timers), serverConn.go:           *)
(*                                                                           *)
(*   writeGoAway (any goroutine, under goAwayLck)     stream loop, new stream n *)
(*     G1  state := closing            ("ga.flag")      S1  lastID := n        ("sl.publish") *)
(*     G2  last  := lastID             ("ga.read")      S2  c := state                        *)
(*     G3  queue GOAWAY(last)          ("ga.sent")      S3  c ? refuse n : accept n ("sl.refuse" / "sl.accept") *)
(*                                                                           *)
(* Both sides write their own variable first and read the other's second     *)
(* (sequentially consistent atomics), so one of them sees the other: either  *)
(* n is reported in the GOAWAY or n is refused.  TLC checks GoAwayTruth over *)
(* every interleaving; the names in quotes are the hook events with which    *)
(* H2ServerTrace.tla checks that the code takes these steps in this order    *)
(* (program-order conformance: a reordering in either function shows in      *)
(* every recording that contains a GOAWAY / a new stream, whether or not the *)
(* race it opens happened to be lost in that run).                           *)
EXTENDS Integers, Sequences, FiniteSets, TLC

CONSTANTS Ids,      \* stream ids the peer will open, e.g. {1, 3, 5}
          Defects   \* {} = the code as it is; "FlagAfterSend", "PublishAfterDecide" = the two reorderings

VARIABLES flag, lastID, gaPc, gaLast, sent, slPc, cur, seen, accepted, refused, todo
vars == <<flag, lastID, gaPc, gaLast, sent, slPc, cur, seen, accepted, refused, todo>>

Min(S) == CHOOSE x \in S : \A y \in S : x <= y

GAOrder == IF "FlagAfterSend" \in Defects THEN <<"G2", "G3", "G1", "done">> ELSE <<"G1", "G2", "G3", "done">>
GANext(pc) == LET i == CHOOSE k \in 1..3 : GAOrder[k] = pc IN GAOrder[i + 1]
GAFirst == GAOrder[1]

Init == /\ flag = FALSE /\ lastID = 0
        /\ gaPc = GAFirst /\ gaLast = -1 /\ sent = -1
        /\ slPc = "idle" /\ cur = 0 /\ seen = FALSE /\ accepted = {} /\ refused = {} /\ todo = Ids

G1 == /\ gaPc = "G1" /\ flag' = TRUE /\ gaPc' = GANext("G1")
      /\ UNCHANGED <<lastID, gaLast, sent, slPc, cur, seen, accepted, refused, todo>>
G2 == /\ gaPc = "G2" /\ gaLast' = lastID /\ gaPc' = GANext("G2")
      /\ UNCHANGED <<flag, lastID, sent, slPc, cur, seen, accepted, refused, todo>>
G3 == /\ gaPc = "G3" /\ sent' = gaLast /\ gaPc' = GANext("G3")
      /\ UNCHANGED <<flag, lastID, gaLast, slPc, cur, seen, accepted, refused, todo>>

\* the stream loop takes the next HEADERS on a new id
Take == /\ slPc = "idle" /\ todo # {}
        /\ cur' = Min(todo) /\ todo' = todo \ {Min(todo)}
        /\ slPc' = IF "PublishAfterDecide" \in Defects THEN "S2" ELSE "S1"
        /\ UNCHANGED <<flag, lastID, gaPc, gaLast, sent, seen, accepted, refused>>
S1 == /\ slPc = "S1" /\ lastID' = cur
      /\ slPc' = IF "PublishAfterDecide" \in Defects THEN "S3" ELSE "S2"
      /\ UNCHANGED <<flag, gaPc, gaLast, sent, cur, seen, accepted, refused, todo>>
S2 == /\ slPc = "S2" /\ seen' = flag
      /\ slPc' = IF "PublishAfterDecide" \in Defects THEN "S1" ELSE "S3"
      /\ UNCHANGED <<flag, lastID, gaPc, gaLast, sent, cur, accepted, refused, todo>>
S3 == /\ slPc = "S3"
      /\ \/ /\ seen /\ refused' = refused \cup {cur} /\ UNCHANGED accepted
         \/ /\ ~seen /\ accepted' = accepted \cup {cur} /\ UNCHANGED refused
         \/ /\ ~seen /\ refused' = refused \cup {cur} /\ UNCHANGED accepted   \* over MAX_CONCURRENT_STREAMS
      /\ slPc' = "idle"
      /\ UNCHANGED <<flag, lastID, gaPc, gaLast, sent, cur, seen, todo>>

Next == G1 \/ G2 \/ G3 \/ Take \/ S1 \/ S2 \/ S3
Spec == Init /\ [][Next]_vars

\* C10: no stream above the last-stream-id a GOAWAY announced ever reaches a handler
GoAwayTruth == sent >= 0 => \A n \in accepted : n <= sent
=============================================================================
