--------------------------- MODULE GoAwaySenders ---------------------------
(* Several goroutines may send a GOAWAY on one connection: the read loop     *)
(* (malformed frame), the stream loop (offence it finds itself), the idle    *)
(* and ping timers.  serverConn.writeGoAway serialises them with goAwayLck   *)
(* and makes every GOAWAY after the first repeat the first one's             *)
(* last-stream-id (RFC 7540 6.8: it must not grow; C10: it must not fall     *)
(* below a request that reached a handler):                                  *)
(*                                                                           *)
(*   lock; G1 state := closing; G2 last := lastID;                           *)
(*   D  if goAwaySent then last := goAwayLast                                *)
(*      else goAwaySent := TRUE; goAwayLast := last;                         *)
(*   W  queue GOAWAY(last); unlock                                           *)
(*                                                                           *)
(* beside the stream loop accepting new streams (GoAwayHandshake.tla, whose  *)
(* steps S1 S2 S3 are repeated here).  Defects:                              *)
(*   "UnlockBeforeWrite"  the lock is dropped before W and goAwayLast is     *)
(*                        recorded only after W (seeded change C10-6)        *)
(*   "NoRepeat"           every sender announces the lastID it read itself   *)
(* Bound to the code by the scenario family ga-two-senders (lib/srvprop.py): *)
(* the first sender is held in each of its step hooks while a second one     *)
(* runs, and the GOAWAYs read off the wire are judged by H2ServerTrace.tla.  *)
EXTENDS Integers, Sequences, FiniteSets, TLC

CONSTANTS Ids, Senders, Defects

VARIABLES flag, lastID, lock, gaSent, gaLast, pc, last, first, wire, slPc, cur, seen, accepted, refused, todo
vars == <<flag, lastID, lock, gaSent, gaLast, pc, last, first, wire, slPc, cur, seen, accepted, refused, todo>>
slvars == <<slPc, cur, seen, accepted, refused, todo>>

Min(S) == CHOOSE x \in S : \A y \in S : x <= y
Bad(d) == d \in Defects

Init == /\ flag = FALSE /\ lastID = 0 /\ lock = "" /\ gaSent = FALSE /\ gaLast = 0
        /\ pc = [s \in Senders |-> "idle"] /\ last = [s \in Senders |-> 0] /\ first = [s \in Senders |-> FALSE]
        /\ wire = <<>>
        /\ slPc = "idle" /\ cur = 0 /\ seen = FALSE /\ accepted = {} /\ refused = {} /\ todo = Ids

Lock(s) == /\ pc[s] = "idle" /\ lock = "" /\ lock' = s /\ pc' = [pc EXCEPT ![s] = "G1"]
           /\ UNCHANGED <<flag, lastID, gaSent, gaLast, last, first, wire, slvars>>
G1(s) == /\ pc[s] = "G1" /\ flag' = TRUE /\ pc' = [pc EXCEPT ![s] = "G2"]
         /\ UNCHANGED <<lastID, lock, gaSent, gaLast, last, first, wire, slvars>>
G2(s) == /\ pc[s] = "G2" /\ last' = [last EXCEPT ![s] = lastID] /\ pc' = [pc EXCEPT ![s] = "D"]
         /\ UNCHANGED <<flag, lastID, lock, gaSent, gaLast, first, wire, slvars>>
D(s) == /\ pc[s] = "D"
        /\ IF gaSent /\ ~Bad("NoRepeat")
           THEN /\ last' = [last EXCEPT ![s] = gaLast] /\ UNCHANGED <<gaSent, gaLast, first>>
           ELSE /\ gaSent' = TRUE /\ first' = [first EXCEPT ![s] = TRUE]
                /\ gaLast' = IF Bad("UnlockBeforeWrite") THEN gaLast ELSE last[s]
                /\ UNCHANGED last
        /\ lock' = IF Bad("UnlockBeforeWrite") THEN "" ELSE lock
        /\ pc' = [pc EXCEPT ![s] = "W"]
        /\ UNCHANGED <<flag, lastID, wire, slvars>>
W(s) == /\ pc[s] = "W" /\ wire' = Append(wire, last[s])
        /\ pc' = [pc EXCEPT ![s] = IF Bad("UnlockBeforeWrite") /\ first[s] THEN "R" ELSE "done"]
        /\ lock' = IF Bad("UnlockBeforeWrite") THEN lock ELSE ""
        /\ UNCHANGED <<flag, lastID, gaSent, gaLast, last, first, slvars>>
\* only with the defect: the first sender takes the lock again to record what it announced
R(s) == /\ pc[s] = "R" /\ lock = "" /\ gaLast' = last[s] /\ pc' = [pc EXCEPT ![s] = "done"]
        /\ UNCHANGED <<flag, lastID, lock, gaSent, last, first, wire, slvars>>

Take == /\ slPc = "idle" /\ todo # {}
        /\ cur' = Min(todo) /\ todo' = todo \ {Min(todo)} /\ slPc' = "S1"
        /\ UNCHANGED <<flag, lastID, lock, gaSent, gaLast, pc, last, first, wire, seen, accepted, refused>>
S1 == /\ slPc = "S1" /\ lastID' = cur /\ slPc' = "S2"
      /\ UNCHANGED <<flag, lock, gaSent, gaLast, pc, last, first, wire, cur, seen, accepted, refused, todo>>
S2 == /\ slPc = "S2" /\ seen' = flag /\ slPc' = "S3"
      /\ UNCHANGED <<flag, lastID, lock, gaSent, gaLast, pc, last, first, wire, cur, accepted, refused, todo>>
S3 == /\ slPc = "S3"
      /\ \/ /\ seen /\ refused' = refused \cup {cur} /\ UNCHANGED accepted
         \/ /\ ~seen /\ accepted' = accepted \cup {cur} /\ UNCHANGED refused
      /\ slPc' = "idle"
      /\ UNCHANGED <<flag, lastID, lock, gaSent, gaLast, pc, last, first, wire, cur, seen, todo>>

Next == (\E s \in Senders : Lock(s) \/ G1(s) \/ G2(s) \/ D(s) \/ W(s) \/ R(s)) \/ Take \/ S1 \/ S2 \/ S3
Spec == Init /\ [][Next]_vars

\* C10: no GOAWAY on the wire announces less than a stream that reached (or will reach) a handler
GoAwayTruth == \A i \in 1..Len(wire) : \A n \in accepted : n <= wire[i]
\* RFC 7540 6.8: the last-stream-id of successive GOAWAYs does not grow
NeverGrows == \A i \in 1..Len(wire) - 1 : wire[i + 1] <= wire[i]
\* the lock is held by whoever is between Lock and its release
LockOwner == lock # "" => pc[lock] \in {"G1", "G2", "D", "W"}
=============================================================================
