------------------------------- MODULE Pools -------------------------------
(* Ownership of pooled objects (C19, C16, C17): frame headers, frames,       *)
(* header fields, streams, request contexts, HPACK contexts, client Ctx.     *)
(* An object is either in its pool or owned by exactly one holder.  The      *)
(* step operator PoolStep is shared by the small design model below and by   *)
(* PoolsTrace.tla, which folds it over the Get/Put/use events the hooks      *)
(* record in the real code.                                                  *)
EXTENDS Integers, Sequences, FiniteSets, TLC

\* object states
Unknown == 0    \* never seen (a fresh object enters with its first Get, or is put without ever being got:
                \* objects built with new(T) and released into a pool are legal)
Out == 1        \* owned by a holder
In == 2         \* in its pool
InUse == 3      \* owned, and a handler / caller is using it right now (request contexts)

\* events: <<op, kind, id>> with op 0 = get (logged after Get), 1 = put (logged before Put),
\*                                  2 = use begins, 3 = use ends
\* The result is the new state of the object and the clause violated, if any.
PoolStep(s, op) ==
  CASE op = 0 -> IF s \in {Out, InUse} THEN [s |-> s, bad |-> "C19:object-handed-out-while-owned"] ELSE [s |-> Out, bad |-> ""]
    [] op = 1 -> IF s = In THEN [s |-> In, bad |-> "C19:object-put-twice"]
                 ELSE IF s = InUse THEN [s |-> In, bad |-> "C17:request-context-recycled-while-handler-runs"]
                 ELSE [s |-> In, bad |-> ""]
    [] op = 2 -> IF s = In THEN [s |-> InUse, bad |-> "C19:object-used-while-in-pool"] ELSE [s |-> InUse, bad |-> ""]
    [] op = 3 -> IF s = InUse THEN [s |-> Out, bad |-> ""] ELSE [s |-> s, bad |-> ""]
    [] OTHER -> [s |-> s, bad |-> ""]

-----------------------------------------------------------------------------
(* Design model: two holders take objects from one pool and give them back.  *)
(* `Sloppy` adds the release-twice step the real code once had on a          *)
(* truncated frame: with it TLC finds two holders owning one object.         *)
CONSTANTS Objs, Holders, Sloppy
VARIABLES owner, pool       \* owner[o] \in Holders \cup {"nobody"}; pool = bag of objects as a sequence
vars == <<owner, pool>>

Init == owner = [o \in Objs |-> "nobody"] /\ pool = <<>>
Get(h) == /\ pool # <<>>
          /\ owner' = [owner EXCEPT ![Head(pool)] = h]
          /\ pool' = Tail(pool)
New(h) == \E o \in Objs : /\ owner[o] = "nobody" /\ \A i \in DOMAIN pool : pool[i] # o
                          /\ owner' = [owner EXCEPT ![o] = h] /\ pool' = pool
Put(h) == \E o \in Objs : /\ owner[o] = h
                          /\ owner' = [owner EXCEPT ![o] = "nobody"]
                          /\ pool' = Append(pool, o)
PutTwice(h) == \E o \in Objs : /\ Sloppy /\ owner[o] = h /\ Len(pool) < 3
                               /\ owner' = [owner EXCEPT ![o] = "nobody"]
                               /\ pool' = pool \o <<o, o>>
Next == \E h \in Holders : Get(h) \/ New(h) \/ Put(h) \/ PutTwice(h)
Spec == Init /\ [][Next]_vars

\* taking from the pool never takes an object somebody owns
SingleOwner == \A i \in DOMAIN pool : owner[pool[i]] = "nobody"
NoDuplicates == \A i, j \in DOMAIN pool : i # j => pool[i] # pool[j]
=============================================================================
