SPECIFICATION Spec
CONSTANTS
  Reqs = {1, 2, 3}
  MaxSteps = 10
  Ops = {"call", "resp", "data", "interim"}
  EmitOneIn = 30
  RespSizes = {0, 1, 3}
  BodySizes = {0, 3}
VIEW View
INVARIANTS C12_AtMostOnce C12_NoStranding C02_OwnResponse C02_FreshIds C11_AboveLastFailed C11_RetryOnlyUnsent C07_NoStall
CONSTRAINT EmitState
CHECK_DEADLOCK FALSE
