SPECIFICATION Spec
CONSTANTS
  Streams = {"x", "y", "z"}
  Need = 2
  MaxGrants = 5
  Defects = {}
INVARIANTS NoLostGrant WithinGrants
PROPERTY Progress
CHECK_DEADLOCK FALSE
