SPECIFICATION Spec
CONSTANT Defects = {"IgnoreTimerStop"}
INVARIANTS NoUseAfterHandBack NoUseAcrossGenerations OneOutcome
CHECK_DEADLOCK FALSE
