---- MODULE CliGoAwayHandshake_TTrace_1790205816 ----
EXTENDS CliGoAwayHandshake, Sequences, TLCExt, Toolbox, Naturals, TLC

_expression ==
    LET CliGoAwayHandshake_TEExpression == INSTANCE CliGoAwayHandshake_TEExpression
    IN CliGoAwayHandshake_TEExpression!expression
----

_trace ==
    LET CliGoAwayHandshake_TETrace == INSTANCE CliGoAwayHandshake_TETrace
    IN CliGoAwayHandshake_TETrace!trace
----

_inv ==
    ~(
        TLCGet("level") = Len(_TETrace)
        /\
        rPc = ("done")
        /\
        goAway = (TRUE)
        /\
        wPc = ("done")
        /\
        written = (TRUE)
        /\
        table = ({3})
        /\
        outcome = ("none")
    )
----

_init ==
    /\ rPc = _TETrace[1].rPc
    /\ wPc = _TETrace[1].wPc
    /\ goAway = _TETrace[1].goAway
    /\ table = _TETrace[1].table
    /\ outcome = _TETrace[1].outcome
    /\ written = _TETrace[1].written
----

_next ==
    /\ \E i,j \in DOMAIN _TETrace:
        /\ \/ /\ j = i + 1
              /\ i = TLCGet("level")
        /\ rPc  = _TETrace[i].rPc
        /\ rPc' = _TETrace[j].rPc
        /\ wPc  = _TETrace[i].wPc
        /\ wPc' = _TETrace[j].wPc
        /\ goAway  = _TETrace[i].goAway
        /\ goAway' = _TETrace[j].goAway
        /\ table  = _TETrace[i].table
        /\ table' = _TETrace[j].table
        /\ outcome  = _TETrace[i].outcome
        /\ outcome' = _TETrace[j].outcome
        /\ written  = _TETrace[i].written
        /\ written' = _TETrace[j].written

\* Uncomment the ASSUME below to write the states of the error trace
\* to the given file in Json format. Note that you can pass any tuple
\* to `JsonSerialize`. For example, a sub-sequence of _TETrace.
    \* ASSUME
    \*     LET J == INSTANCE Json
    \*         IN J!JsonSerialize("CliGoAwayHandshake_TTrace_1790205816.json", _TETrace)

=============================================================================

 Note that you can extract this module `CliGoAwayHandshake_TEExpression`
  to a dedicated file to reuse `expression` (the module in the 
  dedicated `CliGoAwayHandshake_TEExpression.tla` file takes precedence 
  over the module `CliGoAwayHandshake_TEExpression` below).

---- MODULE CliGoAwayHandshake_TEExpression ----
EXTENDS CliGoAwayHandshake, Sequences, TLCExt, Toolbox, Naturals, TLC

expression == 
    [
        \* To hide variables of the `CliGoAwayHandshake` spec from the error trace,
        \* remove the variables below.  The trace will be written in the order
        \* of the fields of this record.
        rPc |-> rPc
        ,wPc |-> wPc
        ,goAway |-> goAway
        ,table |-> table
        ,outcome |-> outcome
        ,written |-> written
        
        \* Put additional constant-, state-, and action-level expressions here:
        \* ,_stateNumber |-> _TEPosition
        \* ,_rPcUnchanged |-> rPc = rPc'
        
        \* Format the `rPc` variable as Json value.
        \* ,_rPcJson |->
        \*     LET J == INSTANCE Json
        \*     IN J!ToJson(rPc)
        
        \* Lastly, you may build expressions over arbitrary sets of states by
        \* leveraging the _TETrace operator.  For example, this is how to
        \* count the number of times a spec variable changed up to the current
        \* state in the trace.
        \* ,_rPcModCount |->
        \*     LET F[s \in DOMAIN _TETrace] ==
        \*         IF s = 1 THEN 0
        \*         ELSE IF _TETrace[s].rPc # _TETrace[s-1].rPc
        \*             THEN 1 + F[s-1] ELSE F[s-1]
        \*     IN F[_TEPosition - 1]
    ]

=============================================================================



Parsing and semantic processing can take forever if the trace below is long.
 In this case, it is advised to uncomment the module below to deserialize the
 trace from a generated binary file.

\*
\*---- MODULE CliGoAwayHandshake_TETrace ----
\*EXTENDS CliGoAwayHandshake, IOUtils, TLC
\*
\*trace == IODeserialize("CliGoAwayHandshake_TTrace_1790205816.bin", TRUE)
\*
\*=============================================================================
\*

---- MODULE CliGoAwayHandshake_TETrace ----
EXTENDS CliGoAwayHandshake, TLC

trace == 
    <<
    ([rPc |-> "R1",goAway |-> FALSE,wPc |-> "W1",written |-> FALSE,table |-> {},outcome |-> "none"]),
    ([rPc |-> "R1",goAway |-> FALSE,wPc |-> "W2",written |-> FALSE,table |-> {},outcome |-> "none"]),
    ([rPc |-> "R2",goAway |-> TRUE,wPc |-> "W2",written |-> FALSE,table |-> {},outcome |-> "none"]),
    ([rPc |-> "done",goAway |-> TRUE,wPc |-> "W2",written |-> FALSE,table |-> {},outcome |-> "none"]),
    ([rPc |-> "done",goAway |-> TRUE,wPc |-> "W4",written |-> FALSE,table |-> {3},outcome |-> "none"]),
    ([rPc |-> "done",goAway |-> TRUE,wPc |-> "done",written |-> TRUE,table |-> {3},outcome |-> "none"])
    >>
----


=============================================================================

---- CONFIG CliGoAwayHandshake_TTrace_1790205816 ----
CONSTANTS
    Defects = { "NoRecheck" }

INVARIANT
    _inv

CHECK_DEADLOCK
    \* CHECK_DEADLOCK off because of PROPERTY or INVARIANT above.
    FALSE

INIT
    _init

NEXT
    _next

CONSTANT
    _TETrace <- _trace

ALIAS
    _expression
=============================================================================
\* Generated on Wed Sep 23 23:23:36 UTC 2026