------------------------- MODULE H2RoundTripTrace -------------------------
(* Judges recordings of the real client stack made by `h2v rt`               *)
(* (ConfigureClient -> Client.RoundTrip -> pickConn -> Conn, TLS over        *)
(* in-memory connections, one reactive scripted server per dialled           *)
(* connection).  The log is totally ordered by the driver's mutex: a server  *)
(* logs a disclaimer (GOAWAY, RST_STREAM REFUSED_STREAM) before writing it   *)
(* and an arrival after reading it, a caller logs `ret` after RoundTrip      *)
(* returned, so log order respects causality and the clauses below need no   *)
(* lock-step.  State mirrors H2RoundTrip.tla's `arr`; the rules are          *)
(* RoundTripRules, shared with the design model.                             *)
EXTENDS RoundTripRules, TLC, Json, IOUtils, SequencesExt

Traces == ndJsonDeserialize(IOEnv.VERIF_TRACE)
MaxAttempts == 4

VARIABLES ti, l, m
vars == <<ti, l, m>>

M0(tr) == [cfg |-> tr.cfg,
           arr |-> <<>>,        \* [tag, conn, sid, disc, byGoAway, answered, status, body]
           ga |-> <<>>,         \* conn -> last-stream-id of the GOAWAY its server sent (function, partial)
           rets |-> <<>>,       \* tag -> number of returns
           calls |-> {},        \* tags handed to RoundTrip
           clientClosed |-> FALSE,
           bad |-> {}]

Flag(mm, c) == [mm EXCEPT !.bad = @ \cup {c}]
FlagIf(mm, cond, c) == IF cond THEN Flag(mm, c) ELSE mm
Get(f, k, d) == IF k \in DOMAIN f THEN f[k] ELSE d
ArrOf(mm, tag) == SelectSeq(mm.arr, LAMBDA a : a.tag = tag)
TimeoutMs(mm) == IF mm.cfg.timeoutms = 0 THEN 8000 ELSE mm.cfg.timeoutms

OnArrive(mm, e) ==
  IF e.tag < 0 THEN Flag(mm, "C02:request-block-undecodable-or-untagged") ELSE
  LET prev == ArrOf(mm, e.tag)
      born == e.conn \in DOMAIN mm.ga /\ DisclaimedByGoAway(mm.ga[e.conn], e.sid)
      c1 == FlagIf(mm, \E i \in DOMAIN prev : ~prev[i].disc,
                   "C11:request-headers-reached-a-server-again-without-a-disclaimer")
      c2 == FlagIf(c1, e.sid % 2 = 0 \/ \E i \in DOMAIN mm.arr : mm.arr[i].conn = e.conn /\ mm.arr[i].sid >= e.sid,
                   "C02:stream-id-not-fresh-odd-increasing")
  IN [c2 EXCEPT !.arr = Append(@, [tag |-> e.tag, conn |-> e.conn, sid |-> e.sid, disc |-> born, byGoAway |-> born,
                                    answered |-> FALSE, status |-> 0, body |-> ""])]

MarkArr(mm, P(_), F(_)) == [mm EXCEPT !.arr = [i \in DOMAIN mm.arr |-> IF P(mm.arr[i]) THEN F(mm.arr[i]) ELSE mm.arr[i]]]

OnSrvRst(mm, e) ==
  IF DisclaimedByRst(e.code)
  THEN MarkArr(mm, LAMBDA a : a.conn = e.conn /\ a.sid = e.sid, LAMBDA a : [a EXCEPT !.disc = TRUE])
  ELSE mm

OnSrvGoAway(mm, e) ==
  LET m1 == [mm EXCEPT !.ga = (e.conn :> e.last) @@ mm.ga]
  IN MarkArr(m1, LAMBDA a : a.conn = e.conn /\ DisclaimedByGoAway(e.last, a.sid), LAMBDA a : [a EXCEPT !.disc = TRUE, !.byGoAway = TRUE])

OnAnswer(mm, e) ==   \* logged before the response is written: what the caller must get if it succeeds
  MarkArr(mm, LAMBDA a : a.conn = e.conn /\ a.sid = e.sid, LAMBDA a : [a EXCEPT !.status = e.status, !.body = e.body])
OnAnswered(mm, e) == \* logged after the last octet of the response was written
  MarkArr(mm, LAMBDA a : a.conn = e.conn /\ a.sid = e.sid, LAMBDA a : [a EXCEPT !.answered = TRUE])

OnRet(mm, e) ==
  LET s == ArrOf(mm, e.tag)
      n == Get(mm.rets, e.tag, 0)
      m1 == [mm EXCEPT !.rets = (e.tag :> n + 1) @@ mm.rets]
      c1 == FlagIf(m1, n >= 1, "C12:request-resolved-twice")
      c2 == FlagIf(c1, e.retry /\ \E i \in DOMAIN s : ~s[i].disc,
                   "C11:request-a-server-may-have-processed-reported-retryable")
      c3 == FlagIf(c2, e.retry /\ e.ok, "C11:success-reported-retryable")
      \* a successful return is the answer some server wrote for this very request
      c4 == FlagIf(c3, e.ok /\ ~\E i \in DOMAIN s : s[i].status # 0,
                   "C12:success-without-complete-response")
      c5 == FlagIf(c4, e.ok /\ (\E i \in DOMAIN s : s[i].status # 0) /\
                       ~\E i \in DOMAIN s : s[i].status = e.status /\ s[i].body = e.body /\ e.xtag = e.tag,
                   "C02:caller-got-another-requests-response")
      \* GOAWAY at or above the stream, full response written, connection kept until the client left
      last == IF Len(s) = 0 THEN [answered |-> FALSE, conn |-> -1, sid |-> 0] ELSE s[Len(s)]
      c6 == FlagIf(c5, ~e.ok /\ last.answered /\ ~mm.clientClosed /\ e.class # "timeout"
                       /\ last.conn \in DOMAIN mm.ga /\ ~DisclaimedByGoAway(mm.ga[last.conn], last.sid),
                   "C11:answered-request-at-or-below-last-stream-id-failed (" \o e.class \o ")")
      \* above last-stream-id: fails promptly, not by waiting for its timeout
      c7 == FlagIf(c6, e.class = "timeout" /\ Len(s) > 0 /\ \A i \in DOMAIN s : s[i].byGoAway,
                   "C11:request-above-last-stream-id-not-failed-promptly")
      c8a == FlagIf(c7, e.ms > MaxAttempts * TimeoutMs(mm) + 4000, "C12:not-resolved-within-its-timeout")
      \* ... and not before it either: "timed out" is only ever said of a request that has had its time
      c8 == FlagIf(c8a, e.class = "timeout" /\ TimeoutMs(mm) >= 6 /\ e.ms < TimeoutMs(mm) - 3, "C12:timed-out-before-its-timeout")
      \* an error class the retry loop treats as "never reached the wire" although it did, and nobody disclaimed it
      c9 == FlagIf(c8, ~e.ok /\ e.class \in RetryableClass /\ \E i \in DOMAIN s : ~s[i].disc,
                   "C11:request-that-reached-a-server-resolved-with-a-retryable-error (" \o e.class \o ")")
  IN c9

OnEnd(mm, e) ==
  LET c1 == FlagIf(mm, e.goroutines > 0, "C12:goroutines-left-after-close")
      c2 == FlagIf(c1, \E t \in mm.calls : t \notin DOMAIN mm.rets, "C12:request-never-resolved")
  IN c2

Step(mm, e) ==
  CASE e.k = "arrive" -> OnArrive(mm, e)
    [] e.k = "call" -> [mm EXCEPT !.calls = @ \cup {e.tag}]
    [] e.k = "srvrst" -> OnSrvRst(mm, e)
    [] e.k = "srvgoaway" -> OnSrvGoAway(mm, e)
    [] e.k = "answer" -> OnAnswer(mm, e)
    [] e.k = "answered" -> OnAnswered(mm, e)
    [] e.k = "ret" -> OnRet(mm, e)
    [] e.k = "stuck" -> Flag(mm, "C12:request-never-resolved")
    [] e.k = "callpanic" -> Flag(mm, "C12:panic-in-roundtrip")
    [] e.k = "clientclose" -> [mm EXCEPT !.clientClosed = TRUE]
    [] e.k = "connleft" -> Flag(mm, "C12:connection-left-open-after-client-close")
    [] e.k = "end" -> OnEnd(mm, e)
    [] e.k \in {"driverpanic", "tlsfail", "configurefail"} -> Flag(mm, "X:" \o e.k)
    [] OTHER -> mm

Init == /\ ti \in 1..Len(Traces)
        /\ l = 1
        /\ m = M0(Traces[ti])

Next ==
  \/ /\ l <= Len(Traces[ti].evs)
     /\ m' = Step(m, Traces[ti].evs[l])
     /\ l' = l + 1
     /\ ti' = ti
  \/ /\ l = Len(Traces[ti].evs) + 1
     /\ IF m.bad = {} THEN TRUE ELSE PrintT("BAD " \o ToString(Traces[ti].t) \o " " \o ToJson(m.bad))
     /\ l' = l + 1
     /\ UNCHANGED <<ti, m>>

Spec == Init /\ [][Next]_vars
=============================================================================
