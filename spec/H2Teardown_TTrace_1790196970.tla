---- MODULE H2Teardown_TTrace_1790196970 ----
EXTENDS Sequences, TLCExt, Toolbox, H2Teardown, Naturals, TLC, H2Teardown_TEConstants

_expression ==
    LET H2Teardown_TEExpression == INSTANCE H2Teardown_TEExpression
    IN H2Teardown_TEExpression!expression
----

_trace ==
    LET H2Teardown_TETrace == INSTANCE H2Teardown_TETrace
    IN H2Teardown_TETrace!trace
----

_prop ==
    ~(([]<>(
            peerReads = (FALSE)
            /\
            sockClosed = (FALSE)
            /\
            reader = (0)
            /\
            serve = ("run")
            /\
            writeStop = (TRUE)
            /\
            handlerStop = (TRUE)
            /\
            respLeft = (2)
            /\
            readerClosed = (FALSE)
            /\
            peerOpen = (TRUE)
            /\
            wire = (0)
            /\
            wl = ("run")
            /\
            sl = ("done")
            /\
            rl = ("run")
            /\
            writer = (2)
    ))/\([]<>(
            peerReads = (FALSE)
            /\
            sockClosed = (FALSE)
            /\
            reader = (0)
            /\
            serve = ("run")
            /\
            writeStop = (TRUE)
            /\
            handlerStop = (TRUE)
            /\
            respLeft = (2)
            /\
            readerClosed = (FALSE)
            /\
            peerOpen = (TRUE)
            /\
            wire = (1)
            /\
            wl = ("run")
            /\
            sl = ("done")
            /\
            rl = ("run")
            /\
            writer = (2)
    )))
----

_init ==
    /\ peerReads = _TETrace[1].peerReads
    /\ readerClosed = _TETrace[1].readerClosed
    /\ peerOpen = _TETrace[1].peerOpen
    /\ sockClosed = _TETrace[1].sockClosed
    /\ wire = _TETrace[1].wire
    /\ writer = _TETrace[1].writer
    /\ writeStop = _TETrace[1].writeStop
    /\ handlerStop = _TETrace[1].handlerStop
    /\ serve = _TETrace[1].serve
    /\ respLeft = _TETrace[1].respLeft
    /\ reader = _TETrace[1].reader
    /\ rl = _TETrace[1].rl
    /\ sl = _TETrace[1].sl
    /\ wl = _TETrace[1].wl
----

_next ==
    /\ \E i,j \in DOMAIN _TETrace:
        /\ \/ /\ j = i + 1
              /\ i = TLCGet("level")
           \/ /\ i = _TTraceLassoEnd
              /\ j = _TTraceLassoStart
        /\ peerReads  = _TETrace[i].peerReads
        /\ peerReads' = _TETrace[j].peerReads
        /\ readerClosed  = _TETrace[i].readerClosed
        /\ readerClosed' = _TETrace[j].readerClosed
        /\ peerOpen  = _TETrace[i].peerOpen
        /\ peerOpen' = _TETrace[j].peerOpen
        /\ sockClosed  = _TETrace[i].sockClosed
        /\ sockClosed' = _TETrace[j].sockClosed
        /\ wire  = _TETrace[i].wire
        /\ wire' = _TETrace[j].wire
        /\ writer  = _TETrace[i].writer
        /\ writer' = _TETrace[j].writer
        /\ writeStop  = _TETrace[i].writeStop
        /\ writeStop' = _TETrace[j].writeStop
        /\ handlerStop  = _TETrace[i].handlerStop
        /\ handlerStop' = _TETrace[j].handlerStop
        /\ serve  = _TETrace[i].serve
        /\ serve' = _TETrace[j].serve
        /\ respLeft  = _TETrace[i].respLeft
        /\ respLeft' = _TETrace[j].respLeft
        /\ reader  = _TETrace[i].reader
        /\ reader' = _TETrace[j].reader
        /\ rl  = _TETrace[i].rl
        /\ rl' = _TETrace[j].rl
        /\ sl  = _TETrace[i].sl
        /\ sl' = _TETrace[j].sl
        /\ wl  = _TETrace[i].wl
        /\ wl' = _TETrace[j].wl

\* Uncomment the ASSUME below to write the states of the error trace
\* to the given file in Json format. Note that you can pass any tuple
\* to `JsonSerialize`. For example, a sub-sequence of _TETrace.
    \* ASSUME
    \*     LET J == INSTANCE Json
    \*         IN J!JsonSerialize("H2Teardown_TTrace_1790196970.json", _TETrace)


_view ==
    <<peerReads, readerClosed, peerOpen, sockClosed, wire, writer, writeStop, handlerStop, serve, respLeft, reader, rl, sl, wl, IF TLCGet("level") = _TTraceLassoEnd + 1 THEN _TTraceLassoStart ELSE TLCGet("level")>>
=============================================================================

 Note that you can extract this module `H2Teardown_TEExpression`
  to a dedicated file to reuse `expression` (the module in the 
  dedicated `H2Teardown_TEExpression.tla` file takes precedence 
  over the module `H2Teardown_TEExpression` below).

---- MODULE H2Teardown_TEExpression ----
EXTENDS Sequences, TLCExt, Toolbox, H2Teardown, Naturals, TLC, H2Teardown_TEConstants

expression == 
    [
        \* To hide variables of the `H2Teardown` spec from the error trace,
        \* remove the variables below.  The trace will be written in the order
        \* of the fields of this record.
        peerReads |-> peerReads
        ,readerClosed |-> readerClosed
        ,peerOpen |-> peerOpen
        ,sockClosed |-> sockClosed
        ,wire |-> wire
        ,writer |-> writer
        ,writeStop |-> writeStop
        ,handlerStop |-> handlerStop
        ,serve |-> serve
        ,respLeft |-> respLeft
        ,reader |-> reader
        ,rl |-> rl
        ,sl |-> sl
        ,wl |-> wl
        
        \* Put additional constant-, state-, and action-level expressions here:
        \* ,_stateNumber |-> _TEPosition
        \* ,_peerReadsUnchanged |-> peerReads = peerReads'
        
        \* Format the `peerReads` variable as Json value.
        \* ,_peerReadsJson |->
        \*     LET J == INSTANCE Json
        \*     IN J!ToJson(peerReads)
        
        \* Lastly, you may build expressions over arbitrary sets of states by
        \* leveraging the _TETrace operator.  For example, this is how to
        \* count the number of times a spec variable changed up to the current
        \* state in the trace.
        \* ,_peerReadsModCount |->
        \*     LET F[s \in DOMAIN _TETrace] ==
        \*         IF s = 1 THEN 0
        \*         ELSE IF _TETrace[s].peerReads # _TETrace[s-1].peerReads
        \*             THEN 1 + F[s-1] ELSE F[s-1]
        \*     IN F[_TEPosition - 1]
    ]

=============================================================================



Parsing and semantic processing can take forever if the trace below is long.
 In this case, it is advised to uncomment the module below to deserialize the
 trace from a generated binary file.

\*
\*---- MODULE H2Teardown_TETrace ----
\*EXTENDS IOUtils, H2Teardown, TLC, H2Teardown_TEConstants
\*
\*trace == IODeserialize("H2Teardown_TTrace_1790196970.bin", TRUE)
\*
\*=============================================================================
\*

---- MODULE H2Teardown_TETrace ----
EXTENDS H2Teardown, TLC, H2Teardown_TEConstants

trace == 
    <<
    ([peerReads |-> TRUE,sockClosed |-> FALSE,reader |-> 0,serve |-> "run",writeStop |-> FALSE,handlerStop |-> FALSE,respLeft |-> 4,readerClosed |-> FALSE,peerOpen |-> TRUE,wire |-> 0,wl |-> "run",sl |-> "run",rl |-> "run",writer |-> 0]),
    ([peerReads |-> TRUE,sockClosed |-> FALSE,reader |-> 0,serve |-> "run",writeStop |-> FALSE,handlerStop |-> FALSE,respLeft |-> 4,readerClosed |-> FALSE,peerOpen |-> TRUE,wire |-> 1,wl |-> "run",sl |-> "run",rl |-> "run",writer |-> 0]),
    ([peerReads |-> TRUE,sockClosed |-> FALSE,reader |-> 0,serve |-> "run",writeStop |-> FALSE,handlerStop |-> FALSE,respLeft |-> 3,readerClosed |-> FALSE,peerOpen |-> TRUE,wire |-> 1,wl |-> "run",sl |-> "write",rl |-> "run",writer |-> 0]),
    ([peerReads |-> TRUE,sockClosed |-> FALSE,reader |-> 0,serve |-> "run",writeStop |-> FALSE,handlerStop |-> FALSE,respLeft |-> 3,readerClosed |-> FALSE,peerOpen |-> TRUE,wire |-> 1,wl |-> "run",sl |-> "run",rl |-> "run",writer |-> 1]),
    ([peerReads |-> TRUE,sockClosed |-> FALSE,reader |-> 0,serve |-> "run",writeStop |-> FALSE,handlerStop |-> FALSE,respLeft |-> 2,readerClosed |-> FALSE,peerOpen |-> TRUE,wire |-> 1,wl |-> "run",sl |-> "write",rl |-> "run",writer |-> 1]),
    ([peerReads |-> TRUE,sockClosed |-> FALSE,reader |-> 0,serve |-> "run",writeStop |-> FALSE,handlerStop |-> FALSE,respLeft |-> 2,readerClosed |-> FALSE,peerOpen |-> TRUE,wire |-> 1,wl |-> "run",sl |-> "run",rl |-> "run",writer |-> 2]),
    ([peerReads |-> TRUE,sockClosed |-> FALSE,reader |-> 0,serve |-> "run",writeStop |-> TRUE,handlerStop |-> TRUE,respLeft |-> 2,readerClosed |-> FALSE,peerOpen |-> TRUE,wire |-> 1,wl |-> "run",sl |-> "done",rl |-> "run",writer |-> 2]),
    ([peerReads |-> FALSE,sockClosed |-> FALSE,reader |-> 0,serve |-> "run",writeStop |-> TRUE,handlerStop |-> TRUE,respLeft |-> 2,readerClosed |-> FALSE,peerOpen |-> TRUE,wire |-> 1,wl |-> "run",sl |-> "done",rl |-> "run",writer |-> 2]),
    ([peerReads |-> FALSE,sockClosed |-> FALSE,reader |-> 0,serve |-> "run",writeStop |-> TRUE,handlerStop |-> TRUE,respLeft |-> 2,readerClosed |-> FALSE,peerOpen |-> TRUE,wire |-> 0,wl |-> "run",sl |-> "done",rl |-> "run",writer |-> 2])
    >>
----


=============================================================================

---- MODULE H2Teardown_TEConstants ----
EXTENDS H2Teardown

CONSTANTS _TTraceLassoStart, _TTraceLassoEnd

=============================================================================

---- CONFIG H2Teardown_TTrace_1790196970 ----
CONSTANTS
    ReaderCap = 2
    WriterCap = 2
    MaxWire = 4
    MaxResp = 4
    Defects = { "ReaderSendBlocks" , "WriteBlocksAfterWriteLoopExit" , "ReadLoopOutlivesStreamLoop" }
_TTraceLassoStart = 8
_TTraceLassoEnd = 9

PROPERTY
    _prop

CHECK_DEADLOCK
    \* CHECK_DEADLOCK off because of PROPERTY or INVARIANT above.
    FALSE

INIT
    _init

NEXT
    _next

VIEW
    _view

CONSTANT
    _TETrace <- _trace

ALIAS
    _expression
=============================================================================
\* Generated on Wed Sep 23 20:56:19 UTC 2026