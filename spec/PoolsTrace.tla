----------------------------- MODULE PoolsTrace -----------------------------
(* Trace validation of pool and ownership-discipline events (C19).  One      *)
(* trace = everything one harness process recorded, in hook order:           *)
(*   evs: <<op, kind, id>> pool events (see Pools!PoolStep), folded with an  *)
(*        ownership state per object;                                        *)
(*   acc: <<variable, role>> accesses to variables the design documents as   *)
(*        owned by one goroutine or guarded by one lock (Discipline).        *)
EXTENDS Integers, Sequences, SequencesExt, FiniteSets, TLC, Json, IOUtils

P == INSTANCE Pools WITH Objs <- {}, Holders <- {}, Sloppy <- FALSE, owner <- <<>>, pool <- <<>>

Traces == ndJsonDeserialize(IOEnv.VERIF_TRACE)

\* who may touch what: role strings are "<goroutine>:<locks held>"
Discipline(var, role) ==
  CASE var = "enc" -> role = "sl"                      \* the server's HPACK encoder belongs to the stream loop
    [] var = "streamWindow" -> role \in {"rl:sendLck", "wl:sendLck"}   \* client send window: under sendLck
    [] OTHER -> TRUE

VARIABLES i, done
vars == <<i, done>>

Fold(evs, nobj) ==
  LET step(a, e) ==
        LET r == P!PoolStep(a.st[e[3]], e[1])
        IN [st |-> [a.st EXCEPT ![e[3]] = r.s], bad |-> IF r.bad = "" THEN a.bad ELSE a.bad \cup {r.bad \o " kind=" \o ToString(e[2])}]
  IN FoldLeft(step, [st |-> [k \in 1..nobj |-> 0], bad |-> {}], evs).bad

AccBad(acc) == {"C19:unsynchronised-access var=" \o acc[k][1] \o " role=" \o acc[k][2] : k \in {j \in DOMAIN acc : ~Discipline(acc[j][1], acc[j][2])}}

Init == i \in 1..Len(Traces) /\ done = FALSE
Next == /\ ~done /\ done' = TRUE /\ i' = i
        /\ LET tr == Traces[i]
               bad == Fold(tr.evs, tr.nobj) \cup AccBad(tr.acc)
           IN IF bad = {} THEN TRUE ELSE PrintT("BAD " \o ToString(tr.t) \o " " \o ToJson(bad))
Spec == Init /\ [][Next]_vars
=============================================================================
