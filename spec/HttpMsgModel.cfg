SPECIFICATION Spec
CONSTANTS
  MaxIns = 2
INVARIANT Agree
CONSTRAINT Emit
CHECK_DEADLOCK FALSE
