---- MODULE SrvWriterQueue_TTrace_1790233775 ----
EXTENDS Sequences, TLCExt, SrvWriterQueue, Toolbox, Naturals, TLC

_expression ==
    LET SrvWriterQueue_TEExpression == INSTANCE SrvWriterQueue_TEExpression
    IN SrvWriterQueue_TEExpression!expression
----

_trace ==
    LET SrvWriterQueue_TETrace == INSTANCE SrvWriterQueue_TETrace
    IN SrvWriterQueue_TETrace!trace
----

_inv ==
    ~(
        TLCGet("level") = Len(_TETrace)
        /\
        q = (<<<<[b |-> 0, k |-> "P"]>>, <<[b |-> 0, k |-> "P"]>>>>)
        /\
        wire = (<<>>)
        /\
        slLeft = (1)
        /\
        rlPc = ("idle")
        /\
        slPart = (<<<<[b |-> 2, k |-> "H"], [b |-> 2, k |-> "C"], [b |-> 2, k |-> "CE"]>>>>)
        /\
        slPc = ("baresend")
        /\
        dead = (TRUE)
        /\
        rlLeft = (1)
    )
----

_init ==
    /\ wire = _TETrace[1].wire
    /\ slPart = _TETrace[1].slPart
    /\ q = _TETrace[1].q
    /\ slLeft = _TETrace[1].slLeft
    /\ dead = _TETrace[1].dead
    /\ slPc = _TETrace[1].slPc
    /\ rlLeft = _TETrace[1].rlLeft
    /\ rlPc = _TETrace[1].rlPc
----

_next ==
    /\ \E i,j \in DOMAIN _TETrace:
        /\ \/ /\ j = i + 1
              /\ i = TLCGet("level")
        /\ wire  = _TETrace[i].wire
        /\ wire' = _TETrace[j].wire
        /\ slPart  = _TETrace[i].slPart
        /\ slPart' = _TETrace[j].slPart
        /\ q  = _TETrace[i].q
        /\ q' = _TETrace[j].q
        /\ slLeft  = _TETrace[i].slLeft
        /\ slLeft' = _TETrace[j].slLeft
        /\ dead  = _TETrace[i].dead
        /\ dead' = _TETrace[j].dead
        /\ slPc  = _TETrace[i].slPc
        /\ slPc' = _TETrace[j].slPc
        /\ rlLeft  = _TETrace[i].rlLeft
        /\ rlLeft' = _TETrace[j].rlLeft
        /\ rlPc  = _TETrace[i].rlPc
        /\ rlPc' = _TETrace[j].rlPc

\* Uncomment the ASSUME below to write the states of the error trace
\* to the given file in Json format. Note that you can pass any tuple
\* to `JsonSerialize`. For example, a sub-sequence of _TETrace.
    \* ASSUME
    \*     LET J == INSTANCE Json
    \*         IN J!JsonSerialize("SrvWriterQueue_TTrace_1790233775.json", _TETrace)

=============================================================================

 Note that you can extract this module `SrvWriterQueue_TEExpression`
  to a dedicated file to reuse `expression` (the module in the 
  dedicated `SrvWriterQueue_TEExpression.tla` file takes precedence 
  over the module `SrvWriterQueue_TEExpression` below).

---- MODULE SrvWriterQueue_TEExpression ----
EXTENDS Sequences, TLCExt, SrvWriterQueue, Toolbox, Naturals, TLC

expression == 
    [
        \* To hide variables of the `SrvWriterQueue` spec from the error trace,
        \* remove the variables below.  The trace will be written in the order
        \* of the fields of this record.
        wire |-> wire
        ,slPart |-> slPart
        ,q |-> q
        ,slLeft |-> slLeft
        ,dead |-> dead
        ,slPc |-> slPc
        ,rlLeft |-> rlLeft
        ,rlPc |-> rlPc
        
        \* Put additional constant-, state-, and action-level expressions here:
        \* ,_stateNumber |-> _TEPosition
        \* ,_wireUnchanged |-> wire = wire'
        
        \* Format the `wire` variable as Json value.
        \* ,_wireJson |->
        \*     LET J == INSTANCE Json
        \*     IN J!ToJson(wire)
        
        \* Lastly, you may build expressions over arbitrary sets of states by
        \* leveraging the _TETrace operator.  For example, this is how to
        \* count the number of times a spec variable changed up to the current
        \* state in the trace.
        \* ,_wireModCount |->
        \*     LET F[s \in DOMAIN _TETrace] ==
        \*         IF s = 1 THEN 0
        \*         ELSE IF _TETrace[s].wire # _TETrace[s-1].wire
        \*             THEN 1 + F[s-1] ELSE F[s-1]
        \*     IN F[_TEPosition - 1]
    ]

=============================================================================



Parsing and semantic processing can take forever if the trace below is long.
 In this case, it is advised to uncomment the module below to deserialize the
 trace from a generated binary file.

\*
\*---- MODULE SrvWriterQueue_TETrace ----
\*EXTENDS IOUtils, SrvWriterQueue, TLC
\*
\*trace == IODeserialize("SrvWriterQueue_TTrace_1790233775.bin", TRUE)
\*
\*=============================================================================
\*

---- MODULE SrvWriterQueue_TETrace ----
EXTENDS SrvWriterQueue, TLC

trace == 
    <<
    ([q |-> <<>>,wire |-> <<>>,slLeft |-> 2,rlPc |-> "idle",slPart |-> <<>>,slPc |-> "idle",dead |-> FALSE,rlLeft |-> 3]),
    ([q |-> <<>>,wire |-> <<>>,slLeft |-> 1,rlPc |-> "idle",slPart |-> <<<<[b |-> 2, k |-> "H"], [b |-> 2, k |-> "C"], [b |-> 2, k |-> "CE"]>>>>,slPc |-> "check",dead |-> FALSE,rlLeft |-> 3]),
    ([q |-> <<>>,wire |-> <<>>,slLeft |-> 1,rlPc |-> "send",slPart |-> <<<<[b |-> 2, k |-> "H"], [b |-> 2, k |-> "C"], [b |-> 2, k |-> "CE"]>>>>,slPc |-> "check",dead |-> FALSE,rlLeft |-> 2]),
    ([q |-> <<>>,wire |-> <<>>,slLeft |-> 1,rlPc |-> "send",slPart |-> <<<<[b |-> 2, k |-> "H"], [b |-> 2, k |-> "C"], [b |-> 2, k |-> "CE"]>>>>,slPc |-> "baresend",dead |-> FALSE,rlLeft |-> 2]),
    ([q |-> <<<<[b |-> 0, k |-> "P"]>>>>,wire |-> <<>>,slLeft |-> 1,rlPc |-> "idle",slPart |-> <<<<[b |-> 2, k |-> "H"], [b |-> 2, k |-> "C"], [b |-> 2, k |-> "CE"]>>>>,slPc |-> "baresend",dead |-> FALSE,rlLeft |-> 2]),
    ([q |-> <<<<[b |-> 0, k |-> "P"]>>>>,wire |-> <<>>,slLeft |-> 1,rlPc |-> "idle",slPart |-> <<<<[b |-> 2, k |-> "H"], [b |-> 2, k |-> "C"], [b |-> 2, k |-> "CE"]>>>>,slPc |-> "baresend",dead |-> TRUE,rlLeft |-> 2]),
    ([q |-> <<<<[b |-> 0, k |-> "P"]>>>>,wire |-> <<>>,slLeft |-> 1,rlPc |-> "send",slPart |-> <<<<[b |-> 2, k |-> "H"], [b |-> 2, k |-> "C"], [b |-> 2, k |-> "CE"]>>>>,slPc |-> "baresend",dead |-> TRUE,rlLeft |-> 1]),
    ([q |-> <<<<[b |-> 0, k |-> "P"]>>, <<[b |-> 0, k |-> "P"]>>>>,wire |-> <<>>,slLeft |-> 1,rlPc |-> "idle",slPart |-> <<<<[b |-> 2, k |-> "H"], [b |-> 2, k |-> "C"], [b |-> 2, k |-> "CE"]>>>>,slPc |-> "baresend",dead |-> TRUE,rlLeft |-> 1])
    >>
----


=============================================================================

---- CONFIG SrvWriterQueue_TTrace_1790233775 ----
CONSTANTS
    Cap = 2
    Blocks = 2
    Acks = 3
    Defects = { "CheckThenSend" }

INVARIANT
    _inv

CHECK_DEADLOCK
    \* CHECK_DEADLOCK off because of PROPERTY or INVARIANT above.
    FALSE

INIT
    _init

NEXT
    _next

CONSTANT
    _TETrace <- _trace

ALIAS
    _expression
=============================================================================
\* Generated on Thu Sep 24 07:09:38 UTC 2026