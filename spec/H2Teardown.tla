---------------------------- MODULE H2Teardown ----------------------------
(* Goroutine-level model of how one server connection ends (serverConn.go   *)
(* Serve / readLoop / handleStreams / writeLoop and the channels between     *)
(* them).  H2Server.tla collapses the three loops into one step per frame;   *)
(* this module keeps them apart and abstracts frames to tokens, because the  *)
(* properties here are about hand-offs: C10 "the connection handler returns  *)
(* within a bounded time ... even if the peer keeps sending or stops         *)
(* reading" and C17 "returns once the peer is gone, leaves no goroutine      *)
(* behind".                                                                  *)
(*                                                                           *)
(* Defects names deviations the real code had; with Defects = {} the model   *)
(* is the design as repaired, with {"ReaderSendBlocks"} it is the code as it *)
(* was found (readLoop's bare `sc.reader <- fr`): TLC then produces the      *)
(* schedule that wedges ServeConn for ever - the one the harness replays     *)
(* (scenario family trailsl-* of lib/srvprop.py).                            *)
EXTENDS Integers, TLC

CONSTANTS ReaderCap,   \* capacity of sc.reader (128 in the code)
          WriterCap,   \* capacity of sc.writer
          MaxWire,     \* frames the peer may have in flight at once
          MaxResp,     \* response frames the running handlers will still cause (finite: handlers end)
          Defects

VARIABLES wire,        \* frames written by the peer, not yet read by the read loop
          peerOpen,    \* the peer has not closed its end
          peerReads,   \* the peer is reading what we send
          sockClosed,  \* our side closed the socket (write loop's deferred Close, or ServeConn's)
          reader,      \* frames queued in sc.reader
          readerClosed,\* Serve closed sc.reader
          writer,      \* frames queued in sc.writer
          rl, sl, wl,  \* "run" | "fwd" (read loop holds a frame to hand on) | "write" (inside sc.write) | "done"
          handlerStop, writeStop,
          respLeft,    \* response frames still to come from handlers
          serve        \* "run" | "wait" (readLoop returned, waiting for the write loop, bounded) | "ret"
vars == <<wire, peerOpen, peerReads, sockClosed, reader, readerClosed, writer, rl, sl, wl, handlerStop, writeStop, respLeft, serve>>

Init == /\ wire = 0 /\ peerOpen = TRUE /\ peerReads = TRUE /\ sockClosed = FALSE
        /\ reader = 0 /\ readerClosed = FALSE /\ writer = 0
        /\ rl = "run" /\ sl = "run" /\ wl = "run"
        /\ handlerStop = FALSE /\ writeStop = FALSE /\ respLeft = MaxResp /\ serve = "run"

\* ---- the peer
PeerSend == /\ peerOpen /\ ~sockClosed /\ wire < MaxWire /\ wire' = wire + 1
            /\ UNCHANGED <<peerOpen, peerReads, sockClosed, reader, readerClosed, writer, rl, sl, wl, handlerStop, writeStop, respLeft, serve>>
PeerClose == /\ peerOpen /\ peerOpen' = FALSE
             /\ UNCHANGED <<wire, peerReads, sockClosed, reader, readerClosed, writer, rl, sl, wl, handlerStop, writeStop, respLeft, serve>>
PeerStopsReading == /\ peerReads /\ peerReads' = FALSE
                    /\ UNCHANGED <<wire, peerOpen, sockClosed, reader, readerClosed, writer, rl, sl, wl, handlerStop, writeStop, respLeft, serve>>

\* ---- read loop: read a frame; stream frames are handed to the stream loop, a connection error ends the loop
RL_Read == /\ rl = "run" /\ wire > 0
           /\ ("ReadLoopOutlivesStreamLoop" \in Defects \/ ~handlerStop)   \* (repaired) checked before every read
           /\ wire' = wire - 1
           /\ \/ rl' = "fwd"                     \* a frame for the stream loop
              \/ rl' = "write"                   \* answered in place: a PING ack is queued with sc.write()
              \/ rl' = "run"                     \* nothing to do (ack frames, unknown types)
              \/ rl' = "done"                    \* connection error found by the read loop: loop returns
           /\ UNCHANGED <<peerOpen, peerReads, sockClosed, reader, readerClosed, writer, sl, wl, handlerStop, writeStop, respLeft, serve>>
RL_EOF == /\ rl = "run" /\ wire = 0 /\ (~peerOpen \/ sockClosed)
          /\ ("ReadLoopOutlivesStreamLoop" \in Defects \/ ~handlerStop)
          /\ rl' = "done"
          /\ UNCHANGED <<wire, peerOpen, peerReads, sockClosed, reader, readerClosed, writer, sl, wl, handlerStop, writeStop, respLeft, serve>>
RL_Forward == /\ rl = "fwd" /\ reader < ReaderCap
              /\ reader' = reader + 1 /\ rl' = "run"
              /\ UNCHANGED <<wire, peerOpen, peerReads, sockClosed, readerClosed, writer, sl, wl, handlerStop, writeStop, respLeft, serve>>
\* sc.write(): queue the frame; give up once writeStop is closed; (repaired) give up once the write loop has gone
RL_Write == /\ rl = "write"
            /\ \/ (writer < WriterCap /\ writer' = writer + 1)
               \/ (writeStop /\ writer' = writer)
               \/ ("WriteBlocksAfterWriteLoopExit" \notin Defects /\ wl = "done" /\ writer' = writer)
            /\ rl' = "run"
            /\ UNCHANGED <<wire, peerOpen, peerReads, sockClosed, reader, readerClosed, sl, wl, handlerStop, writeStop, respLeft, serve>>
\* (repaired) the read loop looks at handlerStop before every read: without the stream loop there is nobody to serve
RL_StreamLoopGone == /\ "ReadLoopOutlivesStreamLoop" \notin Defects
                     /\ rl = "run" /\ handlerStop
                     /\ rl' = "done"
                     /\ UNCHANGED <<wire, peerOpen, peerReads, sockClosed, reader, readerClosed, writer, sl, wl, handlerStop, writeStop, respLeft, serve>>
\* the repaired hand-off also selects on handlerStop (closed when the stream loop leaves)
RL_ForwardAbort == /\ "ReaderSendBlocks" \notin Defects
                   /\ rl = "fwd" /\ handlerStop
                   /\ rl' = "done"
                   /\ UNCHANGED <<wire, peerOpen, peerReads, sockClosed, reader, readerClosed, writer, sl, wl, handlerStop, writeStop, respLeft, serve>>

\* ---- stream loop: take a frame (it may answer by queueing a frame), or end on a connection error / closed reader
SL_Take == /\ sl = "run" /\ reader > 0
           /\ reader' = reader - 1
           /\ sl' \in {"run", "write"}                             \* nothing to say, or an answer to queue with sc.write()
           /\ UNCHANGED <<wire, peerOpen, peerReads, sockClosed, readerClosed, writer, rl, wl, handlerStop, writeStop, respLeft, serve>>
\* a handler finished: its response is queued frame by frame (not driven by the peer at all)
SL_Respond == /\ sl = "run" /\ respLeft > 0 /\ sl' = "write" /\ respLeft' = respLeft - 1
              /\ UNCHANGED <<wire, peerOpen, peerReads, sockClosed, reader, readerClosed, writer, rl, wl, handlerStop, writeStop, serve>>
SL_Write == /\ sl = "write"
            /\ \/ (writer < WriterCap /\ writer' = writer + 1)
               \/ ("WriteBlocksAfterWriteLoopExit" \notin Defects /\ wl = "done" /\ writer' = writer)
            /\ sl' = "run"
            /\ UNCHANGED <<wire, peerOpen, peerReads, sockClosed, reader, readerClosed, rl, wl, handlerStop, writeStop, respLeft, serve>>
SL_Leave == /\ sl = "run"                                          \* connection error in the stream loop, or GOAWAY promise fulfilled
            /\ sl' = "done" /\ handlerStop' = TRUE /\ writeStop' = TRUE
            /\ UNCHANGED <<wire, peerOpen, peerReads, sockClosed, reader, readerClosed, writer, rl, wl, respLeft, serve>>
SL_ReaderClosed == /\ sl = "run" /\ readerClosed /\ reader = 0
                   /\ sl' = "done" /\ handlerStop' = TRUE /\ writeStop' = TRUE
                   /\ UNCHANGED <<wire, peerOpen, peerReads, sockClosed, reader, readerClosed, writer, rl, wl, respLeft, serve>>

\* ---- write loop: write queued frames; a write blocks while the peer does not read and fails once the socket is closed
WL_Write == /\ wl = "run" /\ writer > 0 /\ (peerReads \/ sockClosed \/ ~peerOpen)
            /\ IF sockClosed \/ ~peerOpen THEN wl' = "done" /\ sockClosed' = TRUE /\ writer' = writer
               ELSE wl' = wl /\ sockClosed' = sockClosed /\ writer' = writer - 1
            /\ UNCHANGED <<wire, peerOpen, peerReads, reader, readerClosed, rl, sl, handlerStop, writeStop, respLeft, serve>>
WL_Drain == /\ wl = "run" /\ writeStop /\ (writer = 0 \/ peerReads \/ sockClosed \/ ~peerOpen)
            /\ wl' = "done" /\ writer' = 0 /\ sockClosed' = TRUE      \* deferred c.Close() of the write loop goroutine
            /\ UNCHANGED <<wire, peerOpen, peerReads, reader, readerClosed, rl, sl, handlerStop, writeStop, respLeft, serve>>

\* ---- Serve: when readLoop returns, close(sc.reader), wait (bounded) for the write loop, return; ServeConn closes the socket
Serve_ReadLoopReturned == /\ serve = "run" /\ rl = "done"
                          /\ serve' = "wait" /\ readerClosed' = TRUE
                          /\ UNCHANGED <<wire, peerOpen, peerReads, sockClosed, reader, writer, rl, sl, wl, handlerStop, writeStop, respLeft>>
Serve_Return == /\ serve = "wait"                                  \* write loop finished, or the drain timeout fired
                /\ serve' = "ret" /\ sockClosed' = TRUE
                /\ UNCHANGED <<wire, peerOpen, peerReads, reader, readerClosed, writer, rl, sl, wl, handlerStop, writeStop, respLeft>>

Server == RL_Read \/ RL_EOF \/ RL_Forward \/ RL_ForwardAbort \/ RL_Write \/ RL_StreamLoopGone \/ SL_Take \/ SL_Write \/ SL_ReaderClosed
          \/ WL_Write \/ WL_Drain \/ Serve_ReadLoopReturned \/ Serve_Return
Env == PeerSend \/ PeerClose \/ PeerStopsReading \/ SL_Leave \/ SL_Respond
Next == Server \/ Env

\* the server's own steps are weakly fair; the peer and the occurrence of errors are not constrained
Spec == Init /\ [][Next]_vars /\ WF_vars(RL_Read) /\ WF_vars(RL_EOF) /\ WF_vars(RL_Forward) /\ WF_vars(RL_ForwardAbort)
             /\ WF_vars(RL_Write) /\ WF_vars(RL_StreamLoopGone) /\ WF_vars(SL_Write)
             /\ WF_vars(SL_Take) /\ WF_vars(SL_ReaderClosed) /\ WF_vars(WL_Write) /\ WF_vars(WL_Drain)
             /\ WF_vars(Serve_ReadLoopReturned) /\ WF_vars(Serve_Return)

TypeOK == /\ respLeft \in 0..MaxResp /\ wire \in 0..MaxWire /\ reader \in 0..ReaderCap /\ writer \in 0..WriterCap
          /\ rl \in {"run", "fwd", "write", "done"} /\ sl \in {"run", "write", "done"} /\ wl \in {"run", "done"} /\ serve \in {"run", "wait", "ret"}

\* C10: once the stream loop has ended the connection (connection error, or promised streams done), Serve returns -
\* whatever the peer goes on doing.  C17: once the peer is gone, Serve returns and every loop has exited.
C10_Returns == (sl = "done") ~> (serve = "ret")
C17_Exit == (~peerOpen) ~> (serve = "ret" /\ rl = "done" /\ sl = "done" /\ wl = "done")
NoLoopLeft == (serve = "ret") ~> (rl = "done" /\ sl = "done" /\ wl = "done")
=============================================================================
