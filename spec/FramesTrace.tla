--------------------------- MODULE FramesTrace ---------------------------
(* Trace validation for C05 (frame wire layout, both directions) and C16    *)
(* (wire parsers are total).  Every line is ONE call of the real code,       *)
(* recorded by `h2v frames`, and is judged with the operators of Frames.tla. *)
(* Calls are independent: each line is its own initial state.                *)
(*                                                                           *)
(* Byte strings are logged as d = [pre, mlen, fill, msum, suf] meaning        *)
(* pre ++ fill^mlen ++ suf (msum = digest of the real middle part).  32-bit   *)
(* quantities are pairs of 16-bit halves (..h, ..l).                          *)
(*                                                                           *)
(*  ev = "read": in (d), api, max, sent, res (ok|unknown|exceeds|eof|other|   *)
(*     panic), consumed, next (sentinel|frame|err|panic|na), g (fields read   *)
(*     through the public getters), alloc (bytes per call, -1 = not measured),*)
(*     pool (<<op 1=get 2=put, kind, object>>...), dupacq, x = [res, same, f] *)
(*     (what golang.org/x/net read from the same bytes)                       *)
(*  ev = "write": how (api|fwd), a (what the setters were given), src (d,     *)
(*     fwd only), rres, wn, werr, out (d), x (x/net on out)                   *)
(*  ev = "hpack": n, steps <<consumed, produced, err, suffix>>..., capped,    *)
(*     panic, pool                                                            *)
(*                                                                           *)
(* Verdicts: PrintT("BAD <t> <class> <failed parts>").  <class> names the     *)
(* known defect whose (narrow) signature the line matches AND whose           *)
(* tolerance makes the line pass; anything else is class "none".              *)
(* "SELFBAD <t>": the spec disagrees with x/net (a spec bug, never a          *)
(* violation).                                                                *)
EXTENDS Frames, Json, IOUtils

Trace == ndJsonDeserialize(IOEnv.VERIF_TRACE)

VARIABLES i, done
vars == <<i, done>>

Mat(d) == d.pre \o [k \in 1..d.mlen |-> d.fill] \o d.suf
DOK(d) == d.mlen = 0 \/ Digest([k \in 1..d.mlen |-> d.fill]) = d.msum

Min2(a, b) == IF a < b THEN a ELSE b
Bit(fl, b) == IF Has(fl, b) THEN 1 ELSE 0
SetIf(fl, b, c) == IF c /\ ~Has(fl, b) THEN fl + b ELSE fl

BodyMatch(g, body) ==
  LET n == Len(body) IN
  /\ g.blen = n
  /\ g.bsum = Digest(body)
  /\ g.bpre = SubSeq(body, 1, Min2(64, n))
  /\ g.bsuf = SubSeq(body, n - Min2(16, n) + 1, n)

Same31(h, l, v) == h = Hi(v) /\ l = Lo(v)

-----------------------------------------------------------------------------
(* Known defects: signature (when may it be blamed) is tested where used.    *)
PPAPI   == "F01_pushpromise_api"       \* PushPromise has no promised-id / END_HEADERS / padding API; Serialize writes only the fragment
HPRIO   == "F02_headers_priority"      \* Headers: priority section cannot be requested; when present it carries the frame's own id
STZERO  == "F03_settings_zero"         \* Settings.Encode omits parameters whose value is 0 / false
GARBIT  == "F04_goaway_rbit"           \* GoAway.Deserialize keeps the reserved bit of last-stream-id
PADFLAG == "F05_padded_flag_lost"      \* Data/Headers.Deserialize do not record PADDED: Padding() is false, a forwarded frame keeps the flag without a pad section
PADNZ   == "F06_padding_nonzero"       \* AddPadding fills the padding with random octets (RFC 7540 6.1: MUST be zero)
GACODE  == "F07_goaway_code_masked"    \* GoAway.SetCode clears bit 31 of the error code
EXCL    == "F08_exclusive_lost"        \* the exclusive bit of a priority section is dropped on read and cannot be set
OVERLONG == "F09_fixed_size_overlong"  \* PRIORITY / RST_STREAM / WINDOW_UPDATE longer than their fixed size are accepted
DBLREL  == "F10_double_release"        \* a frame truncated inside its payload is released to its pool twice
AllDefects == << PPAPI, HPRIO, STZERO, GARBIT, PADFLAG, PADNZ, GACODE, EXCL, OVERLONG, DBLREL >>

-----------------------------------------------------------------------------
(* Fields reported by a reader (g) against the parse P of the same bytes.    *)
SettingsMatch(g, P) ==
  \A id \in 1..6 : LET v == SettingVal(P.st, id) IN v[1] = 1 => (g.st[2 * id - 1] = v[2] /\ g.st[2 * id] = v[3])

PrioMatch(g, P, tol) ==
  /\ Same31(g.deph, g.depl, P.dep)
  /\ g.wt = P.wt
  /\ \/ g.excl = P.excl
     \/ g.excl < 0 /\ (P.excl = 0 \/ EXCL \in tol)   \* not observable: only harmless when the bit is clear

FieldsMatch(g, P, tol) ==
  /\ g.ty = P.ty /\ g.fl = P.fl /\ Same31(g.sidh, g.sidl, P.sid) /\ g.len = P.len
  /\ CASE P.ty = TData ->
            /\ g.es = Bit(P.fl, FEndStream) /\ BodyMatch(g, P.body)
            /\ (g.padded = (IF P.pad >= 0 THEN 1 ELSE 0) \/ (PADFLAG \in tol /\ P.pad >= 0 /\ g.padded = 0))
       [] P.ty = THeaders ->
            /\ g.es = Bit(P.fl, FEndStream) /\ g.eh = Bit(P.fl, FEndHeaders) /\ BodyMatch(g, P.body)
            /\ (g.padded = (IF P.pad >= 0 THEN 1 ELSE 0) \/ (PADFLAG \in tol /\ P.pad >= 0 /\ g.padded = 0))
            /\ P.prio = 1 => PrioMatch(g, P, tol)
       [] P.ty = TPriority -> PrioMatch(g, P, tol)
       [] P.ty = TRst -> g.ch = P.ch /\ g.cl = P.cl
       [] P.ty = TSettings -> g.ack = Bit(P.fl, FAck) /\ SettingsMatch(g, P)
       [] P.ty = TPushPromise ->
            \/ /\ g.ppapi = 1 /\ Same31(g.psidh, g.psidl, P.psid) /\ g.eh = Bit(P.fl, FEndHeaders) /\ BodyMatch(g, P.body)
            \/ PPAPI \in tol /\ g.ppapi = 0
       [] P.ty = TPing -> g.ack = Bit(P.fl, FAck) /\ BodyMatch(g, P.body)
       [] P.ty = TGoAway ->
            /\ g.ch = P.ch /\ g.cl = P.cl /\ BodyMatch(g, P.body)
            /\ \/ Same31(g.psidh, g.psidl, P.psid)
               \/ GARBIT \in tol /\ P.pr = 1 /\ g.psidh = Hi(P.psid) + 32768 /\ g.psidl = Lo(P.psid)
       [] P.ty = TWindowUpdate -> Same31(g.inch, g.incl, P.inc)
       [] P.ty = TContinuation -> g.eh = Bit(P.fl, FEndHeaders) /\ BodyMatch(g, P.body)
       [] OTHER -> BodyMatch(g, P.body)

-----------------------------------------------------------------------------
(* Pool ownership per call: an object is owned from its Get to its Put.      *)
(* strict (frame reads): every object put was obtained in the same call and   *)
(* everything obtained is put back by the end of the line (the harness        *)
(* releases what the call returned).                                          *)
PoolStep(a, ev) ==
  LET o == ev[3] IN
  IF a.bad # "" THEN a
  ELSE IF ev[1] = 1
       THEN IF o \in a.owned THEN [a EXCEPT !.bad = "twoowners"]
            ELSE [a EXCEPT !.owned = @ \cup {o}, !.pooled = @ \ {o}]
       ELSE IF o \in a.pooled THEN [a EXCEPT !.bad = "doublerelease"]
            ELSE IF o \notin a.owned /\ a.strict THEN [a EXCEPT !.bad = "foreignput"]
            ELSE [a EXCEPT !.owned = @ \ {o}, !.pooled = @ \cup {o}]
PoolBad(evs, strict) ==
  LET r == FoldLeft(PoolStep, [owned |-> {}, pooled |-> {}, bad |-> "", strict |-> strict], evs) IN
  IF r.bad = "" /\ strict /\ r.owned # {} THEN "leak" ELSE r.bad

-----------------------------------------------------------------------------
(* read direction                                                            *)
FixedLen(ty) == CASE ty = TPriority -> 5 [] ty = TRst -> 4 [] ty = TWindowUpdate -> 4 [] OTHER -> -1

\* an over-long fixed-size frame read as if it ended after its fixed part
CutToFixed(b, P) == LET k == FixedLen(P.ty) IN
  [ParseFrame(B24(k) \o SubSeq(b, 4, 9 + k), 0) EXCEPT !.len = P.len, !.consumed = P.consumed]

OverlongSig(P) == P.err = "size" /\ FixedLen(P.ty) > 0 /\ P.len > FixedLen(P.ty)
TruncInPayload(b, P) == P.err = "trunc" /\ Len(b) >= 9 /\ P.len > 0 /\ P.ty <= 9

\* everything the reader holds: the input and, when sent = 1, a valid PING behind it
Sentinel == << 0, 0, 8, 6, 0, 0, 0, 0, 0, 83, 69, 78, 84, 73, 78, 69, 76 >>
Held0(e) == Mat(e.in) \o (IF e.sent = 1 THEN Sentinel ELSE <<>>)

ReadParts(e, tol) ==
  LET b == Held0(e)
      P == ParseFrame(b, e.max)
      Q == IF OVERLONG \in tol /\ OverlongSig(P) /\ e.res = "ok" THEN CutToFixed(b, P) ELSE P
      limitless == P.err = "toobig" \/ Len(b) < 9
  IN <<
   << "nopanic", e.res # "panic" /\ e.next # "panic" >>,
   << "verdict",
      CASE Q.ok /\ ~Q.skip -> e.res = "ok"
        [] Q.ok /\ Q.skip -> e.res = "unknown"
        [] Q.err = "toobig" -> e.res = "exceeds"
        [] Q.err = "trunc" -> e.res = "eof" \/ (Len(b) >= 9 /\ Q.ty > 9 /\ e.res = "unknown")
        [] OTHER -> e.res = "other" >>,
   << "fields", (Q.ok /\ ~Q.skip /\ e.res = "ok") => FieldsMatch(e.g, Q, tol) >>,
   << "consumed", (Q.positioned /\ e.res # "panic") => e.consumed = Q.consumed >>,
   << "position", (Q.positioned /\ From(b, Q.consumed + 1) = Sentinel /\ e.res # "panic") => e.next = "sentinel" >>,
   << "alloc", e.alloc >= 0 => e.alloc <= 3 * (IF limitless THEN 0 ELSE P.len) + 4096 >>,
   << "pool", PoolBad(e.pool, TRUE) = "" \/ (DBLREL \in tol /\ TruncInPayload(b, P)) >>,
   << "dupacq", e.dupacq # 1 \/ (DBLREL \in tol /\ TruncInPayload(b, P)) >>
  >>

\* which known defects may be blamed for a read line at all (narrow signatures)
ReadSig(e, d) ==
  LET b == Held0(e)
      P == ParseFrame(b, e.max)
      Q == IF OverlongSig(P) THEN CutToFixed(b, P) ELSE P IN
  CASE d = PPAPI -> P.ok /\ P.ty = TPushPromise /\ e.g.ppapi = 0
    [] d = GARBIT -> P.ok /\ P.ty = TGoAway /\ P.pr = 1
    [] d = PADFLAG -> P.ok /\ P.ty \in {TData, THeaders} /\ P.pad >= 0
    [] d = EXCL -> Q.ok /\ Q.ty \in {THeaders, TPriority} /\ Q.prio = 1 /\ Q.excl = 1
    [] d = OVERLONG -> OverlongSig(P)
    [] d = DBLREL -> TruncInPayload(b, P)
    [] OTHER -> FALSE

\* the spec against x/net on the same bytes (x/net also enforces stream-id
\* rules and some values at parse time; type 0x10 is an extension it knows)
XStrict(P) == \/ P.ty \in {TData, THeaders, TPriority, TRst, TPushPromise, TContinuation} /\ P.sid = 0
              \/ P.ty \in {TSettings, TPing, TGoAway} /\ P.sid # 0
              \/ P.ty = TWindowUpdate /\ P.inc = 0
\* X = [res, f]: f is x/net's reading (same = 1: identical to the code's reading g, logged once)
XOf(e) == [res |-> e.x.res, f |-> IF e.ev = "read" /\ e.x.same = 1 THEN e.g ELSE e.x.f]
SelfOne(b, max, X) ==
  LET P == ParseFrame(b, max) IN
  IF Len(b) >= 9 /\ P.ty = 16 THEN TRUE
  ELSE CASE P.err = "toobig" -> X.res = "toolarge"
         [] P.err = "trunc" -> X.res = "eof"
         [] P.err = "setval" -> TRUE
         [] P.err \in {"size", "pad"} -> X.res = "err"
         [] P.ok /\ XStrict(P) -> X.res = "err"
         [] OTHER -> X.res = "ok" /\ FieldsMatch(X.f, P, {})

-----------------------------------------------------------------------------
(* write direction                                                           *)
A31(h, l) == (h % 32768) * 65536 + l       \* the 31-bit value of two halves

ExpFlags(a) ==
  LET f0 == IF a.flset < 0 THEN 0 ELSE a.flset
      f1 == SetIf(f0, 1, (a.ty \in {TData, THeaders} /\ a.es = 1) \/ (a.ty \in {TSettings, TPing} /\ a.ack = 1))
      f2 == SetIf(f1, 4, a.ty \in {THeaders, TContinuation, TPushPromise} /\ a.eh = 1)
      f3 == SetIf(f2, 8, a.ty \in {TData, THeaders, TPushPromise} /\ a.padded = 1)
  IN SetIf(f3, 32, a.ty = THeaders /\ a.hasprio = 1)

\* value a SETTINGS list gives a parameter for the receiver: explicit, else the RFC 7540 6.5.2 initial value
\* (-1 = unlimited)
Eff(st, id) == LET v == SettingVal(st, id) IN
  IF v[1] = 1 THEN << v[2], v[3] >>
  ELSE CASE id = 1 -> << 0, 4096 >> [] id = 2 -> << 0, 1 >> [] id = 4 -> << 0, 65535 >> [] id = 5 -> << 0, 16384 >> [] OTHER -> << -1, -1 >>
\* value the Settings object holds (getters): MaxHeaderListSize 0 is documented as "no limit"
Held(a, id) == IF id = 6 /\ a.st[11] = 0 /\ a.st[12] = 0 THEN << -1, -1 >> ELSE << a.st[2 * id - 1], a.st[2 * id] >>
ZeroHeld(a, id) == id \in 1..4 /\ a.st[2 * id - 1] = 0 /\ a.st[2 * id] = 0

PadOK(P, want, tol) ==
  /\ (P.pad >= 0) = want
  /\ (P.pad >= 0 => (P.padding = Zeros(P.pad) \/ PADNZ \in tol))

WriteApiParts(e, tol) ==
  LET out == Mat(e.out)
      P == ParseFrame(out, 0)
      a == e.a
      body == Mat(a.body)
  IN <<
   << "nopanic", e.panic = "" /\ e.werr = 0 >>,
   << "described", DOK(e.out) /\ e.wn = Len(out) >>,
   << "wellformed", P.ok /\ ~P.skip /\ P.consumed = Len(out) >>,
   << "header", /\ P.ty = a.ty /\ P.r = 0 /\ Same31(a.sidh, a.sidl, P.sid)
                /\ (P.fl = ExpFlags(a) \/ (HPRIO \in tol /\ a.ty = THeaders /\ a.hasprio = 1 /\ P.fl = ExpFlags([a EXCEPT !.hasprio = 0]))) >>,
   << "payload",
      P.ok =>
      CASE a.ty = TData -> P.body = body /\ PadOK(P, a.padded = 1, tol)
        [] a.ty = THeaders ->
             /\ PadOK(P, a.padded = 1, tol)
             /\ \/ /\ P.body = body
                   /\ P.prio = a.hasprio
                   /\ a.hasprio = 1 => /\ P.dep = A31(a.deph, a.depl) /\ P.wt = a.wt
                                       /\ (P.excl = (IF a.excl = 1 THEN 1 ELSE 0) \/ (EXCL \in tol /\ a.excl = 1))
                \/ HPRIO \in tol /\ a.hasprio = 1 /\ P.prio = 0 /\ P.body = body
        [] a.ty = TPriority ->
             /\ P.dep = A31(a.deph, a.depl) /\ P.wt = a.wt
             /\ (P.excl = (IF a.excl = 1 THEN 1 ELSE 0) \/ (EXCL \in tol /\ a.excl = 1))
        [] a.ty = TRst -> P.ch = a.ch /\ P.cl = a.cl
        [] a.ty = TSettings ->
             IF a.ack = 1 THEN P.len = 0
             ELSE \A id \in 1..6 : Eff(P.st, id) = Held(a, id) \/ (STZERO \in tol /\ ZeroHeld(a, id) /\ SettingVal(P.st, id)[1] = 0)
        [] a.ty = TPushPromise ->
             \/ a.ppapi = 1 /\ P.psid = A31(a.psidh, a.psidl) /\ P.pr = 0 /\ P.body = body /\ PadOK(P, a.padded = 1, tol)
             \/ PPAPI \in tol /\ a.ppapi = 0
        [] a.ty = TPing -> P.body = body
        [] a.ty = TGoAway ->
             /\ P.psid = A31(a.psidh, a.psidl) /\ P.pr = 0 /\ P.body = body /\ P.cl = a.cl
             /\ (P.ch = a.ch \/ (GACODE \in tol /\ a.ch >= 32768 /\ P.ch = a.ch - 32768))
        [] a.ty = TWindowUpdate -> a.inch < 32768 /\ P.inc = A31(a.inch, a.incl) /\ P.ir = 0
        [] OTHER -> P.body = body >>
  >>

WriteApiSig(e, d) ==
  LET a == e.a IN
  CASE d = PPAPI -> a.ty = TPushPromise /\ a.ppapi = 0
    [] d = HPRIO -> a.ty = THeaders /\ a.hasprio = 1
    [] d = STZERO -> a.ty = TSettings /\ a.ack = 0 /\ \E id \in 1..4 : ZeroHeld(a, id)
    [] d = PADNZ -> a.ty \in {TData, THeaders, TPushPromise} /\ a.padded = 1
    [] d = GACODE -> a.ty = TGoAway /\ a.ch >= 32768
    [] d = EXCL -> a.ty \in {THeaders, TPriority} /\ a.excl = 1
    [] OTHER -> FALSE

\* the shape PADFLAG produces when a padded frame is written back: flag 0x8 kept,
\* payload = [priority section] body, no pad length octet, no padding
FwdPadLost(S, out) ==
  /\ S.ok /\ S.pad >= 0 /\ S.ty \in {TData, THeaders}
  /\ Len(out) >= 9 /\ Has(out[5], FPadded)
  /\ U24(out, 1) = Len(S.body) + (IF S.ty = THeaders /\ S.prio = 1 THEN 5 ELSE 0)

\* forwarded frame: read from src (a legal frame of an independent writer),
\* then WriteTo.  Whatever the source carried must be on the wire again.
WriteFwdParts(e, tol) ==
  LET src == Mat(e.src)
      S == ParseFrame(src, 16384)
      out == Mat(e.out)
      P == ParseFrame(out, 0)
      legal == S.ok /\ ~S.skip /\ e.rres = "ok"
  IN <<
   << "nopanic", e.panic = "" /\ e.werr = 0 >>,
   << "described", legal => (DOK(e.out) /\ e.wn = Len(out)) >>,
   << "wellformed", legal => (P.ok /\ ~P.skip /\ P.consumed = Len(out)) \/ (PPAPI \in tol /\ S.ty = TPushPromise /\ e.a.ppapi = 0)
                                \/ (PADFLAG \in tol /\ FwdPadLost(S, out)) >>,
   << "header", legal => (P.ty = S.ty /\ P.r = 0 /\ P.sid = S.sid /\ P.fl = S.fl) >>,
   << "payload",
      (legal /\ P.ok) =>
      CASE S.ty = TData -> P.body = S.body /\ PadOK(P, S.pad >= 0, tol)
        [] S.ty = THeaders ->
             /\ P.body = S.body /\ PadOK(P, S.pad >= 0, tol) /\ P.prio = S.prio /\ P.wt = S.wt
             /\ (P.dep = S.dep \/ (HPRIO \in tol /\ S.prio = 1 /\ P.dep = S.sid))
             /\ (P.excl = S.excl \/ (EXCL \in tol /\ S.excl = 1))
        [] S.ty = TPriority -> P.dep = S.dep /\ P.wt = S.wt /\ (P.excl = S.excl \/ (EXCL \in tol /\ S.excl = 1))
        [] S.ty = TRst -> P.ch = S.ch /\ P.cl = S.cl
        [] S.ty = TSettings ->
             \* MAX_HEADER_LIST_SIZE 0 is documented by the Settings type as "no limit" and is not written
             \A id \in 1..6 : (SettingVal(S.st, id)[1] = 1 /\ ~(id = 6 /\ Eff(S.st, 6) = << 0, 0 >>)) =>
                  \/ Eff(P.st, id) = Eff(S.st, id)
                  \/ STZERO \in tol /\ id \in 1..4 /\ Eff(S.st, id) = << 0, 0 >> /\ SettingVal(P.st, id)[1] = 0
        [] S.ty = TPushPromise -> (P.psid = S.psid /\ P.pr = 0 /\ P.body = S.body /\ PadOK(P, S.pad >= 0, tol)) \/ (PPAPI \in tol /\ e.a.ppapi = 0)
        [] S.ty = TPing -> P.body = S.body
        [] S.ty = TGoAway -> /\ P.psid = S.psid /\ P.ch = S.ch /\ P.cl = S.cl /\ P.body = S.body
                             /\ (P.pr = 0 \/ (GARBIT \in tol /\ S.pr = 1))
        [] S.ty = TWindowUpdate -> P.inc = S.inc /\ P.ir = 0
        [] OTHER -> P.body = S.body >>
  >>

\* with PADFLAG tolerated such a frame is unreadable: nothing more can be compared
FwdGiveUp(e, tol) ==
  LET S == ParseFrame(Mat(e.src), 16384) IN
  \/ PADFLAG \in tol /\ FwdPadLost(S, Mat(e.out))
  \/ PPAPI \in tol /\ S.ok /\ S.ty = TPushPromise /\ e.a.ppapi = 0

WriteFwdSig(e, d) ==
  LET S == ParseFrame(Mat(e.src), 16384) IN
  S.ok /\
  CASE d = PPAPI -> S.ty = TPushPromise /\ e.a.ppapi = 0
    [] d = HPRIO -> S.ty = THeaders /\ S.prio = 1
    [] d = STZERO -> S.ty = TSettings /\ \E id \in 1..4 : Eff(S.st, id) = << 0, 0 >> /\ SettingVal(S.st, id)[1] = 1
    [] d = GARBIT -> S.ty = TGoAway /\ S.pr = 1
    [] d = PADFLAG -> FwdPadLost(S, Mat(e.out))
    [] d = PADNZ -> S.ty \in {TData, THeaders, TPushPromise} /\ S.pad >= 0
    [] d = EXCL -> S.ty \in {THeaders, TPriority} /\ S.prio = 1 /\ S.excl = 1
    [] OTHER -> FALSE

-----------------------------------------------------------------------------
(* HPACK totality: progress and bound per step                               *)
HpackParts(e, tol) == <<
   << "nopanic", e.panic = "" >>,
   << "terminates", e.capped = 0 /\ Len(e.steps) <= e.n + 1 >>,
   << "progress", \A k \in 1..Len(e.steps) : LET s == e.steps[k] IN s[3] = 1 \/ (s[1] >= 1 /\ s[4] = 1) >>,
   << "errorlast", \A k \in 1..Len(e.steps) : e.steps[k][3] = 1 => k = Len(e.steps) >>,
   << "consumedbound", FoldLeft(LAMBDA acc, s : acc + s[1], 0, e.steps) <= e.n >>,
   \* a step emits one field: a table entry (<= 4096 octets, the default table) or
   \* literals decoded from the octets it consumed (Huffman expands by at most 8/5)
   << "outputbound", \A k \in 1..Len(e.steps) : LET s == e.steps[k] IN
                        s[2] <= 2 * (IF s[3] = 1 THEN e.n ELSE s[1]) + 4096 >>,
   << "pool", PoolBad(e.pool, FALSE) = "" >>
  >>

-----------------------------------------------------------------------------
Parts(e, tol) ==
  CASE e.ev = "read" -> ReadParts(e, tol)
    [] e.ev = "write" /\ e.how = "api" ->
         \* without any API for the promised id nothing of a PUSH_PROMISE can be compared
         IF PPAPI \in tol /\ e.a.ty = TPushPromise /\ e.a.ppapi = 0 THEN << << "nopanic", e.panic = "" >> >> ELSE WriteApiParts(e, tol)
    [] e.ev = "write" -> IF tol # {} /\ FwdGiveUp(e, tol) THEN << << "nopanic", e.panic = "" >> >> ELSE WriteFwdParts(e, tol)
    [] OTHER -> HpackParts(e, tol)

Sig(e, d) ==
  CASE e.ev = "read" -> ReadSig(e, d)
    [] e.ev = "write" /\ e.how = "api" -> WriteApiSig(e, d)
    [] e.ev = "write" -> WriteFwdSig(e, d)
    [] OTHER -> FALSE

Holds(ps) == \A k \in 1..Len(ps) : ps[k][2]
Failed(ps) == FoldLeft(LAMBDA acc, p : IF p[2] THEN acc ELSE acc \o (IF acc = "" THEN "" ELSE ",") \o p[1], "", ps)

FirstOf(S) == FoldLeft(LAMBDA acc, d : IF acc = "" /\ d \in S THEN d ELSE acc, "", AllDefects)

\* defects whose signature the line matches
Blamable(e) == {AllDefects[k] : k \in {j \in 1..Len(AllDefects) : Sig(e, AllDefects[j])}}

\* class: the single blamable defect whose tolerance makes the line pass; else
\* all blamable defects together ("A+B"); else none
Class(e) ==
  LET bl == Blamable(e)
      single == {d \in bl : Holds(Parts(e, {d}))} IN
  IF single # {} THEN FirstOf(single)
  ELSE IF bl # {} /\ Holds(Parts(e, bl))
       THEN FoldLeft(LAMBDA acc, d : IF d \in bl THEN acc \o (IF acc = "" THEN "" ELSE "+") \o d ELSE acc, "", AllDefects)
       ELSE "none"

SelfCheck(e) ==
  CASE e.ev = "read" -> SelfOne(Held0(e), e.max, XOf(e))
    [] e.ev = "write" -> (DOK(e.out) /\ e.panic = "" /\ Len(Mat(e.out)) > 0) => SelfOne(Mat(e.out), 0, XOf(e))
    [] OTHER -> TRUE

Init == i \in 1..Len(Trace) /\ done = FALSE
Next == /\ ~done
        /\ done' = TRUE
        /\ i' = i
        /\ LET e == Trace[i]
               ps == Parts(e, {}) IN
             /\ IF Holds(ps) THEN TRUE
                ELSE PrintT("BAD " \o ToString(e.t) \o " " \o Class(e) \o " " \o Failed(ps))
             /\ IF SelfCheck(e) THEN TRUE ELSE PrintT("SELFBAD " \o ToString(e.t))
Spec == Init /\ [][Next]_vars
=============================================================================
