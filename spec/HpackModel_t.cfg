SPECIFICATION Spec
CONSTANTS
  Fields <- ModelFieldsSmall
  Limits = {0, 64, 4096}
  MaxBlocks = 2
  MaxFields = 2
  MaxUpd = 2
  SplitHuff = FALSE
INVARIANTS DecodedEqualsInput WireRoundTrip NoDecodeError TablesEqual SizeWithinLimit BlockDecode
CHECK_DEADLOCK FALSE
