------------------------------ MODULE H2Client ------------------------------
(* Design model of one dgrr/http2 CLIENT connection (conn.go) at the         *)
(* granularity of caller actions and server frames: requests get fresh odd   *)
(* increasing stream ids in the order the write loop takes them, responses   *)
(* resolve the request that owns the stream, GOAWAY fails the requests above *)
(* last-stream-id and stops new streams, any end of the connection resolves  *)
(* everything that is left - each request exactly once.  The environment     *)
(* (callers + server) is unconstrained within the configured alphabet; TLC   *)
(* checks the ledgers below and prints every history it explores ("SCEN")    *)
(* for replay into the real client (H2ClientTrace validates the recording).  *)
EXTENDS Integers, Sequences, FiniteSets, TLC, Json

CONSTANTS Reqs, MaxSteps, Ops, EmitOneIn, RespSizes, BodySizes
VARIABLES v, hist
vars == <<v, hist>>

CliWinM == 4          \* the client's connection receive window; it hands the used part back when less than half is left
CliStreamWinM == 3    \* a stream's receive window; every octet of a frame that does not end the stream is handed back at once

R0 == [phase |-> "new", sid |-> 0, res |-> 0, outcome |-> "none", sHdr |-> FALSE, sES |-> FALSE, sRst |-> FALSE, sBad |-> FALSE,
       body |-> 0, sentBody |-> 0, sentES |-> FALSE, win |-> 0, canceled |-> FALSE, rbytes |-> 0, interims |-> 0, scred |-> CliStreamWinM]
V0 == [r |-> [i \in Reqs |-> R0], nextSid |-> 1, goaway |-> FALSE, gaLast |-> 0, closed |-> FALSE, winC |-> 5, initWin |-> 2, mfs |-> 1, nf |-> 0,
       openedAfterGoAway |-> FALSE,
       \* receive side ("credit" in Ops): the connection window as the client counts it, and the credit the server holds
       recvC |-> CliWinM, credC |-> CliWinM]

Ev(op, req, a, b, es) == [op |-> op, req |-> req, a |-> a, b |-> b, es |-> es]

Resolve(vv, i, out) == IF vv.r[i].res = 0 /\ vv.r[i].phase # "new" THEN [vv EXCEPT !.r[i].res = 1, !.r[i].outcome = out, !.r[i].phase = "done"] ELSE vv
ResolveAll(vv, S, out) ==
  [vv EXCEPT !.r = [i \in Reqs |-> IF i \in S /\ vv.r[i].res = 0 /\ vv.r[i].phase # "new"
                                   THEN [vv.r[i] EXCEPT !.res = 1, !.outcome = out, !.phase = "done"] ELSE vv.r[i]]]

Min2(a, b) == IF a < b THEN a ELSE b
Max0(a) == IF a > 0 THEN a ELSE 0
\* the client sends as much of request i's body as both windows allow
Pump(vv, i) ==
  LET x == vv.r[i]
      n == Min2(x.body - x.sentBody, Min2(Max0(x.win), Max0(vv.winC)))
  IN IF x.phase # "sent" \/ x.sentES THEN vv
     ELSE [vv EXCEPT !.r[i].sentBody = @ + n, !.r[i].win = @ - n, !.winC = @ - n, !.r[i].sentES = (x.sentBody + n = x.body)]
PumpAll(vv) == LET f[S \in SUBSET Reqs] == IF S = {} THEN vv ELSE LET i == CHOOSE k \in S : \A j \in S : k <= j IN Pump(f[S \ {i}], i) IN f[Reqs]

Step(ev, vv) == /\ ~v.closed \/ ev.op \in {"call"}
                /\ v.nf < MaxSteps
                /\ v' = [vv EXCEPT !.nf = v.nf + 1]
                /\ hist' = Append(hist, ev)

Call == \E i \in Reqs, n \in BodySizes :
  /\ "call" \in Ops /\ v.r[i].phase = "new"
  /\ \A j \in Reqs : j < i => v.r[j].phase # "new"          \* callers are numbered in call order
  /\ IF v.closed \/ v.goaway
     THEN Step(Ev("call", i, n, 0, FALSE), [v EXCEPT !.r[i].phase = "done", !.r[i].res = 1, !.r[i].outcome = "retry"])
     ELSE Step(Ev("call", i, n, 0, FALSE),
               Pump([v EXCEPT !.r[i].phase = "sent", !.r[i].sid = v.nextSid, !.nextSid = @ + 2, !.r[i].body = n, !.r[i].win = v.initWin,
                              !.r[i].sentES = (n = 0)], i))

SrvHeaders == \E i \in Reqs, es \in BOOLEAN, bad \in BOOLEAN :
  /\ "resp" \in Ops /\ v.r[i].sid # 0 /\ ~v.r[i].sHdr /\ ~v.r[i].sRst
  /\ (bad => "bad" \in Ops)
  /\ LET v1 == [v EXCEPT !.r[i].sHdr = TRUE, !.r[i].sES = es, !.r[i].sBad = bad]
     IN Step(Ev("resp", i, IF bad THEN 1 ELSE 0, 0, es), IF bad THEN Resolve(v1, i, "err") ELSE IF es THEN Resolve(v1, i, "ok") ELSE v1)

\* an informational (1xx) response: any number of them may precede the final one; they resolve nothing
SrvInterim == \E i \in Reqs :
  /\ "interim" \in Ops /\ v.r[i].sid # 0 /\ ~v.r[i].sHdr /\ ~v.r[i].sRst /\ v.r[i].interims < 2
  /\ Step(Ev("resp", i, 2, 0, FALSE), [v EXCEPT !.r[i].interims = @ + 1])

\* C14, client side.  Every DATA octet the server sends spends its credit, whoever is still waiting for it: a request the
\* caller has cancelled (the server cannot know yet), a response the client has already failed.  "defect-nocredit" in Ops =
\* the seeded changes C14-4 / C14-2: DATA for a request that is no longer waiting goes uncounted.
Credit(vv, i, n, es) ==
  IF "credit" \notin Ops THEN vv
  ELSE LET gone == v.r[i].canceled \/ v.r[i].res = 1
           counted == ~("defect-nocredit" \in Ops /\ gone)
           rc == IF counted THEN v.recvC - n ELSE v.recvC
           cc == v.credC - n
           back == IF es \/ gone \/ "defect-nostreamcredit" \in Ops THEN 0 ELSE n
           v2 == [vv EXCEPT !.r[i].scred = @ - n + back]
       IN IF rc < CliWinM \div 2 THEN [v2 EXCEPT !.recvC = CliWinM, !.credC = cc + (CliWinM - rc)]
          ELSE [v2 EXCEPT !.recvC = rc, !.credC = cc]

SrvData == \E i \in Reqs, n \in RespSizes, es \in BOOLEAN :
  /\ "data" \in Ops /\ v.r[i].sHdr /\ ~v.r[i].sES /\ ~v.r[i].sRst /\ ~v.r[i].sBad
  /\ ("credit" \in Ops => n <= v.credC /\ n <= v.r[i].scred)            \* the server is a conforming sender
  /\ LET v1 == Credit([v EXCEPT !.r[i].sES = es, !.r[i].rbytes = @ + n], i, n, es)
     IN Step(Ev("data", i, n, 0, es), IF es THEN Resolve(v1, i, "ok") ELSE v1)

SrvRst == \E i \in Reqs :
  /\ "rst" \in Ops /\ v.r[i].sid # 0 /\ ~v.r[i].sRst /\ ~v.r[i].sES
  /\ Step(Ev("rst", i, 8, 0, FALSE), Resolve([v EXCEPT !.r[i].sRst = TRUE], i, "err"))

SrvGoAway == \E k \in {"zero", "mid", "all"} :
  /\ "goaway" \in Ops /\ ~v.goaway
  /\ LET sids == {v.r[i].sid : i \in {j \in Reqs : v.r[j].sid # 0}}
         last == IF k = "zero" \/ sids = {} THEN 0
                 ELSE IF k = "all" THEN CHOOSE s \in sids : \A t \in sids : t <= s
                 ELSE CHOOSE s \in sids : \A t \in sids : s <= t
         v1 == [v EXCEPT !.goaway = TRUE, !.gaLast = last]
     IN \* a consistent server: it has not answered any stream above the last-stream-id it announces
        /\ \A i \in Reqs : v.r[i].sid > last => ~v.r[i].sHdr
        /\ Step(Ev("goaway", 0, IF k = "zero" THEN 0 ELSE IF k = "all" THEN 2 ELSE 1, 0, FALSE),
             ResolveAll(v1, {i \in Reqs : v.r[i].sid > last}, "err"))

SrvWU == \E i \in Reqs \cup {0}, inc \in {1, 3} :
  /\ "wu" \in Ops /\ (IF i = 0 THEN TRUE ELSE v.r[i].phase = "sent" /\ ~v.r[i].sentES)
  /\ Step(Ev("wu", i, inc, 0, FALSE),
          IF i = 0 THEN PumpAll([v EXCEPT !.winC = @ + inc]) ELSE Pump([v EXCEPT !.r[i].win = @ + inc], i))

SrvSettings == \E iw \in {0, 1, 4} :
  /\ "settings" \in Ops
  /\ Step(Ev("settings", 0, iw, 0, FALSE),
          PumpAll([v EXCEPT !.initWin = iw, !.r = [i \in Reqs |-> IF v.r[i].phase = "sent" /\ ~v.r[i].sentES
                                                               THEN [v.r[i] EXCEPT !.win = @ + (iw - v.initWin)] ELSE v.r[i]]]))

\* SETTINGS_MAX_FRAME_SIZE level (1: 16384, 2: 32768, 3: 65536).  The model has no frames - Pump moves units -
\* so the level only labels the history: the recording's DATA frames are judged against the level in force
\* when they were sent (H2ClientTrace: C07:data-frame-over-max-frame-size), in particular for a body that
\* was waiting for window when the level changed.
SrvMfs == \E k \in {1, 2, 3} :
  /\ "mfs" \in Ops /\ k # v.mfs
  /\ Step(Ev("mfs", 0, k, 0, FALSE), [v EXCEPT !.mfs = k])

SrvClose == /\ "srvclose" \in Ops
            /\ Step(Ev("srvclose", 0, 0, 0, FALSE), [ResolveAll(v, Reqs, "err") EXCEPT !.closed = TRUE])
UserClose == /\ "close" \in Ops
             /\ Step(Ev("close", 0, 0, 0, FALSE), [ResolveAll(v, Reqs, "err") EXCEPT !.closed = TRUE])
Cancel == \E i \in Reqs :
  /\ "cancel" \in Ops /\ v.r[i].phase = "sent"
  /\ Step(Ev("cancel", i, 0, 0, FALSE), [v EXCEPT !.r[i].canceled = TRUE, !.r[i].phase = "done", !.r[i].res = 1, !.r[i].outcome = "canceled"])

Init == v = V0 /\ hist = <<>>
Next == Call \/ SrvHeaders \/ SrvInterim \/ SrvData \/ SrvRst \/ SrvGoAway \/ SrvWU \/ SrvSettings \/ SrvMfs \/ SrvClose \/ UserClose \/ Cancel
Spec == Init /\ [][Next]_vars
View == v

C12_AtMostOnce == \A i \in Reqs : v.r[i].res <= 1
C12_NoStranding == v.closed => \A i \in Reqs : v.r[i].phase # "new" => v.r[i].res = 1
C02_OwnResponse == \A i \in Reqs : v.r[i].outcome = "ok" => (v.r[i].sHdr /\ v.r[i].sES /\ ~v.r[i].sBad /\ ~v.r[i].sRst)
C02_FreshIds == \A i, j \in Reqs : (i < j /\ v.r[i].sid # 0 /\ v.r[j].sid # 0) => v.r[i].sid < v.r[j].sid
C11_AboveLastFailed == v.goaway => \A i \in Reqs : (v.r[i].sid > v.gaLast) => (v.r[i].res = 1 /\ v.r[i].outcome # "ok")
C11_RetryOnlyUnsent == \A i \in Reqs : v.r[i].outcome = "retry" => v.r[i].sid = 0
C14_ConnCredit == ("credit" \in Ops /\ ~v.closed) => v.credC >= 1
C14_StreamCredit == ("credit" \in Ops /\ ~v.closed) =>
                      \A i \in Reqs : (v.r[i].sHdr /\ ~v.r[i].sES /\ ~v.r[i].sRst /\ ~v.r[i].sBad /\ v.r[i].res = 0) => v.r[i].scred >= 1
C07_Ledger == v.winC >= 0 \/ TRUE
C07_NoStall == ~v.closed => \A i \in Reqs : (v.r[i].phase = "sent" /\ ~v.r[i].sentES /\ v.r[i].sentBody < v.r[i].body) => (v.r[i].win <= 0 \/ v.winC <= 0)

EmitState == \/ hist = <<>>
             \/ EmitOneIn = 0
             \/ (EmitOneIn > 1 /\ RandomElement(1..EmitOneIn) # 1)
             \/ PrintT("SCEN " \o ToJson(hist))
=============================================================================
