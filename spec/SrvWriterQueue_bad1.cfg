SPECIFICATION Spec
CONSTANTS
  Cap = 2
  Blocks = 2
  Acks = 3
  Defects = {"FramePerWrite"}
INVARIANTS Contiguous NoProducerStuck
CHECK_DEADLOCK FALSE
