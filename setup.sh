#!/bin/sh
# Run once after a fresh restore, offline.  Builds nothing that needs the network.
set -e
cd "$(dirname "$0")"
export GOFLAGS=-mod=mod GOPROXY=off GOSUMDB=off GOTOOLCHAIN=local
# 1. regenerate the Huffman table module from x/net (independent of /repo) and make sure it is what is committed
python3 lib/gen_hufftab.py /tmp/HuffTab.gen.$$ && cmp -s /tmp/HuffTab.gen.$$ spec/HuffTab.tla || cp /tmp/HuffTab.gen.$$ spec/HuffTab.tla
rm -f /tmp/HuffTab.gen.$$
# 2. every TLA+ module must parse
for f in spec/*.tla; do
  (cd spec && java -cp /opt/veriftools/tla/tla2tools.jar:/opt/veriftools/tla/CommunityModules-deps.jar tla2sany.SANY "$(basename "$f")" >/tmp/sany.$$ 2>&1) || { cat /tmp/sany.$$; echo "SANY failed on $f"; rm -f /tmp/sany.$$; exit 1; }
done
rm -f /tmp/sany.$$
# 3. the harness must build against /repo with and without the hooks
GO=/root/go/pkg/mod/golang.org/toolchain@v0.0.1-go1.25.0.linux-amd64/bin/go
[ -x "$GO" ] || GO=go1.26
cp /repo/go.sum harness/go.sum
(cd harness && $GO build -tags verif -o /tmp/h2v.setup.$$ . && rm -f /tmp/h2v.setup.$$)
echo "setup ok"
