"""Server family machinery shared by C01 C06 C08 C09 C10 C13 C14 C17 C18 C20.

 model (spec/H2Server.tla + cfg)  --TLC-->  abstract environment histories ("SCEN" lines)
 concretise()                     -------->  harness scenarios (JSON steps for `h2v srv`)
 h2v srv (real server, x/net peer) ------->  ndjson traces
 spec/H2ServerTrace.tla           --TLC-->  "BAD <t> [clauses]"  (clause = "<property>:<what>")
"""
import json, os, re, subprocess, random, concurrent.futures
import vlib

MAXWIN = 2**31 - 1


def parse_scen_lines(r):
    out = []
    for s in r.printed('SCEN'):
        try:
            out.append(json.loads(s))
        except Exception:
            pass
    return out


def gen_from_model(ctx, cfg, workers=None, timeout=1200, module='H2Server'):
    """Model-check the design model (invariants) and collect the environment histories it prints."""
    r = ctx.tlc(module, cfg, workers=workers, timeout=timeout)
    if not r.ok:
        raise vlib.Inconclusive('model %s/%s did not check clean (rc=%d):\n%s' % (module, cfg, r.rc, r.error_text()))
    ctx.states += r.distinct
    ctx.transitions += r.generated
    ctx.models.append({'module': module, 'cfg': cfg, 'distinct': r.distinct, 'generated': r.generated, 'wall_s': round(r.wall, 1)})
    hs = parse_scen_lines(r)
    hs.sort(key=lambda h: json.dumps(h, sort_keys=True))   # TLC's worker interleaving must not influence sampling
    return hs


REQ_BASE = lambda sid, method: [[":method", method], [":scheme", "https"], [":path", "/s%d" % sid], [":authority", "ex.com"], ["x-sid", str(sid)]]


def concretise(hist, unit=1, maxwin_m=8, cfg=None, rng=None, variety=True):
    """Abstract environment history (records of H2Server!Ev) -> harness steps."""
    steps = []
    opened = set()
    rng = rng or random.Random(0)
    for ev in hist:
        op, sid, a, b, es, eh = ev['op'], ev['sid'], ev['a'], ev['b'], ev['es'], ev['eh']
        if op == 'hdr':
            if sid in opened:
                fields = [["x-trailer", "t%d" % sid]]
                if b == 1:
                    fields = [[":path", "/zz"]] + fields      # pseudo-header in trailers: malformed
            else:
                method = "GET" if (es and a < 0) else "POST"
                fields = REQ_BASE(sid, method)
                if variety:
                    extra = rng.choice([[], [["user-agent", "verif/1"]], [["cookie", "a=b"], ["cookie", "c=d"]],
                                        [["content-type", "text/x"]], [["x-long", "v" * rng.choice([1, 30, 130])]], [["accept", ""]]])
                    fields = fields + extra
                if a >= 0:
                    fields.append(["content-length", str(a * unit)])
                if b == 1:
                    fields.append(["X-Bad", "1"])                # upper-case name: malformed (8.1.2)
            st = {"op": "hdr", "sid": sid, "fields": fields, "es": es, "pad": -1, "noeh": not eh}
            if not eh:
                st["split"] = [rng.choice([1, 2, 3, 5, 8])]
            elif variety and rng.random() < 0.3:
                st["split"] = sorted(rng.sample(range(1, 40), rng.choice([1, 2])))
            if variety and rng.random() < 0.2:
                st["pad"] = rng.choice([0, 1, 7])
            if variety and rng.random() < 0.15:
                st["prio"] = {"dep": 0, "excl": False, "weight": 10}
            steps.append(st)
            opened.add(sid)
        elif op == 'cont':
            steps.append({"op": "cont", "sid": sid, "eh": eh})
        elif op == 'data':
            st = {"op": "data", "sid": sid, "n": a, "es": es, "pad": -1}
            if variety and (unit == 1 or a == 0) and rng.random() < 0.3:
                st["pad"] = rng.choice([0, 3])      # a == 0: a frame that is all padding (RFC 7540 6.1 allows it)
            steps.append(st)
        elif op == 'rst':
            steps.append({"op": "rst", "sid": sid, "code": a})
        elif op == 'wu':
            inc = MAXWIN if a >= maxwin_m else a * unit
            steps.append({"op": "wu", "sid": sid, "inc": inc})
        elif op == 'prio':
            steps.append({"op": "prio", "sid": sid, "prio": {"dep": sid if b == 1 else 0, "excl": False, "weight": 5}})
        elif op == 'settings':
            iw = MAXWIN if a >= maxwin_m else a * unit
            steps.append({"op": "settings", "pairs": [[4, iw]]})
        elif op == 'ping':
            steps.append({"op": "ping", "n": 1})
        elif op == 'unknown':
            steps.append({"op": "raw", "ty": 11, "fl": 0, "sid": 0, "payload": [1, 2, 3]})
        elif op == 'even':
            steps.append({"op": "hdr", "sid": 2, "fields": REQ_BASE(2, "GET"), "es": True, "pad": -1})
        elif op == 'pingsid':
            steps.append({"op": "raw", "ty": 6, "fl": 0, "sid": 1, "payload": [0] * 8})
        elif op == 'data0':
            steps.append({"op": "raw", "ty": 0, "fl": 0, "sid": 0, "payload": [0]})
        elif op == 'finish':
            kind = ["buf", "streamcl", "stream"][b] if b in (0, 1, 2) else "panic"
            sh = {"kind": kind, "n": a, "status": rng.choice([200, 200, 404, 201]) if variety else 200,
                  "hdrs": rng.choice([[], [["x-r", "1"]], [["x-r", "1"], ["x-q", "zz"]]]) if variety else [],
                  "chunk": rng.choice([0, 1000, 16384, 20000]) if variety else 0, "eof": rng.choice([0, 1]) if variety else 0}
            steps.append({"op": "finish", "sid": sid, "shape": sh})
        else:
            raise ValueError('unknown abstract op %r' % op)
    return steps


def run_harness(ctx, scenarios, label, shards=None, race=False, timeout=900):
    """Replay scenarios (list of dicts with id/cfg/steps/tag) in parallel processes; return merged trace path."""
    shards = shards or min(vlib.NCPU, max(1, len(scenarios) // 20))
    files = []
    for i in range(shards):
        part = scenarios[i::shards]
        if not part:
            continue
        p = os.path.join(ctx.scratch, '%s.scen.%d' % (label, i))
        vlib.write_ndjson(p, part)
        files.append(p)
    exe = ctx.harness(race=race)

    def one(p):
        out = p + '.tr'
        # a shard normally takes well under a second per scenario; a harness that is still running long after that is
        # stuck in the code under test (run_proc then asks it for its goroutines' stacks)
        rc, so, se, hung = vlib.run_proc([exe, 'srv', '--in', p, '--out', out], ctx.scratch, max(240, 3 * sum(1 for _ in open(p))) if timeout == 900 else timeout)
        pr = subprocess.CompletedProcess([exe], rc, so, se)
        return p, out + '.0', pr
    merged = os.path.join(ctx.scratch, label + '.traces')
    racelog = []
    with concurrent.futures.ThreadPoolExecutor(max_workers=shards) as ex, open(merged, 'w') as mf:
        for p, out, pr in ex.map(one, files):
            if 'WARNING: DATA RACE' in pr.stderr:
                racelog.append(pr.stderr[-6000:])
            elif pr.returncode != 0 and ('all goroutines are asleep' in pr.stderr or 'fatal error:' in pr.stderr or 'panic:' in pr.stderr) \
                    and 'github.com/dgrr/http2.' in pr.stderr:
                # the Go runtime gave up on the process with the library on the stack (global deadlock, fatal error, panic
                # that nothing recovered): a fact about the code under test, judged by crashed() (C17 owns the verdict)
                if not hasattr(ctx, 'crashes'):
                    ctx.crashes = []
                ctx.crashes.append((p, pr.stderr[-6000:]))
                if os.path.exists(out):
                    os.remove(out)
                continue
            elif pr.returncode != 0:
                raise vlib.Inconclusive('h2v srv failed on %s rc=%d: %s' % (p, pr.returncode, (pr.stdout + pr.stderr)[-2000:]))
            if os.path.exists(out):
                with open(out) as f:
                    for ln in f:
                        mf.write(ln)
                os.remove(out)
    return merged, racelog


def crashed(ctx, props, label):
    """A harness process the Go runtime killed with the library on the stack: C17 ("serving the connection never
    panics ...") owns the verdict; confirmed by running that shard of scenarios once more."""
    for p, log in getattr(ctx, 'crashes', []):
        kind = 'deadlocked' if 'all goroutines are asleep' in log else 'hung' if 'harness process hung' in log else 'crashed'
        if 'C17' not in props:
            raise vlib.Inconclusive('h2v srv %s on %s (C17 owns this verdict):\n%s' % (kind, p, log[-1500:]))
        rc2, so2, se2, _h = vlib.run_proc([ctx.harness(), 'srv', '--in', p, '--out', p + '.again'], ctx.scratch, max(240, 3 * sum(1 for _ in open(p))))
        pr = subprocess.CompletedProcess([ctx.harness()], rc2, so2, se2)
        if pr.returncode != 0 and 'github.com/dgrr/http2.' in pr.stderr:
            lines = [l for l in log.splitlines() if 'github.com/dgrr/http2.' in l][:8]
            ctx.report('C17:process-' + kind, '%s: C17:process-%s (the Go runtime stopped the harness process; library frames: %s)' % (label, kind, ' | '.join(x.strip() for x in lines)[:400]),
                       {'kind': 'srv-shard', 'clause': 'C17:process-' + kind, 'scenarios': [json.loads(l) for l in open(p)], 'log': log[-3000:]})
        else:
            ctx.extra.setdefault('unconfirmed_clauses', []).append('process %s in %s' % (kind, os.path.basename(p)))
            print('UNCONFIRMED property=%s clause=C17:process-%s (not reproduced; not counted)' % (ctx.prop, kind), flush=True)
    ctx.crashes = []


def validate(ctx, tracefile, defects=''):
    """Run H2ServerTrace on the merged trace file; returns {trace id: [clauses]}."""
    r = ctx.validate('H2ServerTrace', tracefile, env={'VERIF_DEFECTS': defects}, chunk=2500)
    bad = {}
    for s in r.printed('BAD'):
        m = re.match(r'(\d+) (.*)$', s, re.S)
        if m:
            try:
                bad[int(m.group(1))] = json.loads(m.group(2))
            except Exception:
                bad[int(m.group(1))] = [m.group(2)]
    return bad, r


def clause_prop(c):
    return c.split(':', 1)[0]


def confirmed(ctx, scenario, clause, run_and_validate, tries=2):
    """A clause raised by one recording is reported only if replaying that scenario on its own raises it again
    (same clause id) - a verdict has to be a reproducible observation of the real code, not of one unlucky schedule
    of the harness under load.  What does not reproduce is listed in the evidence (unconfirmed_clauses) and printed
    as UNCONFIRMED, and does not change the exit code."""
    cid = clause.split(' ')[0]
    for k in range(tries):
        # (a family whose hit is a matter of chance per connection asks for many copies per replay: confirm_copies)
        scs = [dict(scenario, id=i + 1) for i in range(scenario.get('confirm_copies', 1))]
        bad = run_and_validate(scs, 'confirm%d' % k)
        if any(c.split(' ')[0] == cid for cl in bad.values() for c in cl):
            return True
    ctx.extra.setdefault('unconfirmed_clauses', []).append(clause[:200])
    try:
        ctx.save_finding('unconfirmed_' + re.sub(r'[^A-Za-z0-9]+', '_', cid)[:40], {'kind': 'unconfirmed', 'clause': clause, 'scenario': scenario})
    except Exception:
        pass
    print('UNCONFIRMED property=%s clause=%s (not reproduced in %d replays of the scenario; not counted)' % (ctx.prop, clause[:160], tries), flush=True)
    return False


def judge(ctx, scenarios, tracefile, props=None, label='srv', confirm=True):
    """Validate, then report clauses that belong to ctx.prop (or props)."""
    props = props or {ctx.prop}
    n = sum(1 for _ in open(tracefile))
    bad, r = validate(ctx, tracefile)
    ctx.traces += n
    ctx.evaluations += n
    byid = {s['id']: s for s in scenarios}
    others = {}
    percls, conf = {}, {}
    ctx.extra.setdefault('rejected_by_clause', {})

    def rerun(scs, lab):
        tr, _ = run_harness(ctx, scs, lab, shards=1)
        b, _ = validate(ctx, tr)
        return b
    xseen = 0
    for t, clauses in sorted(bad.items()):
        for c in clauses:
            p = clause_prop(c)
            if p == 'X':
                # a harness-level trouble (quiescence not reached in time, driver panic) makes the run inconclusive only if
                # it happens again when the scenario is replayed on its own: under load one slow scheduling turn is enough
                if (not confirm) or xseen < 3 and confirmed(ctx, byid.get(t), c, rerun):
                    ctx.inconclusive.append('trace %d: %s' % (t, c))
                xseen += 1
                continue
            if p in props or any(c.startswith(x) for x in props if ':' in x):
                cls = classify(c)
                percls[c] = percls.get(c, 0) + 1
                if percls[c] <= 2:      # at most two replay files per distinct clause signature
                    ok = (not confirm) or cls in getattr(ctx, '_known', {}) or confirmed(ctx, byid.get(t), c, rerun)
                    conf[c] = conf.get(c, False) or ok
                    if not ok:
                        # keep the recording that raised it: the only evidence there is of what the harness saw
                        try:
                            for ln in open(tracefile):
                                if ln.startswith('{') and ('"t":%d}' % t in ln[-24:] or '"t": %d}' % t in ln[-24:]):
                                    ctx.save_finding('unconfirmed_trace_%d' % t, {'kind': 'unconfirmed-trace', 'clause': c, 'trace': json.loads(ln)})
                                    break
                        except Exception:
                            pass
                    if ok:
                        ctx.extra['rejected_by_clause'][c] = ctx.extra['rejected_by_clause'].get(c, 0) + 1
                        ctx.report(cls, '%s: %s' % (label, c), {'kind': 'srv', 'clause': c, 'scenario': byid.get(t)})
                elif conf.get(c) and cls not in getattr(ctx, '_known', {}):
                    ctx.extra['rejected_by_clause'][c] = ctx.extra['rejected_by_clause'].get(c, 0) + 1
                    ctx.violations.append((c, '(see first two of this clause)'))
            else:
                others[c.split(' ')[0]] = others.get(c.split(' ')[0], 0) + 1
    if others:
        ctx.extra.setdefault('other_property_clauses_seen', {}).update(others)
    if confirm:
        crashed(ctx, props, label)
    return bad


def classify(clause):
    """Known-finding class of a rejected clause = the clause id itself (first token)."""
    return clause.split(' ')[0]
