#!/usr/bin/env python3
"""Writes /verif/MANIFEST.json from the table below (single source of truth)."""
import json, os, subprocess
V = os.path.dirname(os.path.dirname(os.path.abspath(__file__)))

def hooks_commits():
    try:
        out = subprocess.run(['git', '-C', '/repo', 'log', '--format=%H %s'], stdout=subprocess.PIPE, text=True).stdout
        return [l.split()[0] for l in out.splitlines() if l.split(' ', 1)[1].startswith('verif:')]
    except Exception:
        return []

# id -> (engine, technique, level text, level note, design_ref)
CHECKS = {
 'C15': ('huffman', 'transcribed TLA+ Huffman code (TLC-checked complete prefix code) judging recorded real-code calls; exhaustive small domains + seeded random',
         'TLC proves the transcribed RFC 7541 code (table from x/net) is a complete prefix code and lossless/strict on a boundary alphabet; every call of the real HuffmanEncode/HuffmanDecode on all strings <=2 bytes (thorough: decode <=3 bytes, 16.8M) plus seeded random/mutated strings is recorded and validated line by line by HuffmanTrace.tla. Bounded-exhaustive on the real code, so any table or padding deviation on short strings is certain to be seen.',
         'trusts TLC, the x/net table transcription (cross-checked: spec vs x/net on every input), JSON trace I/O', '6 C15'),
}
SRV_NOTE = 'trusts TLC, the RFC7540.tla / HttpMsg.tla transcriptions of RFC 7540, golang.org/x/net/http2 as the independent peer (framing + HPACK), hook-based quiescence detection (build tag verif), JSON trace I/O'
SRV_TECH = 'TLA+ model of the server connection (H2Server.tla) model-checked by TLC; its environment histories (+ generators for what the model abstracts) replayed in lock-step into the real server with an independent x/net peer; recorded traces validated by TLC against H2ServerTrace.tla'
def srv(pid, text, ref):
    CHECKS[pid] = ('server', SRV_TECH, text, SRV_NOTE, ref)
srv('C01', 'H2Server.tla is model-checked (dispatch exactly once and only from complete legal requests, END_STREAM exactly once) with a well-formed peer interleaving up to three streams; every explored history plus generators for what the model abstracts (every split offset of real header blocks, padding/priority, empty DATA, chunkings, response shapes and sizes around a frame and above the windows, random interleavings and completion orders) is replayed into the real server; H2ServerTrace compares what the handler saw with what the x/net peer sent, and what the peer received with what the handler produced, field by field and byte by byte, and requires HEADERS then DATA with END_STREAM exactly once at every quiescent point.', '6 C01')
srv('C06', 'H2Server.tla carries the flow-control ledger (granted vs sent per stream and connection, negative windows after SETTINGS decreases, no stall while both windows are open) and is model-checked over all interleavings of WINDOW_UPDATE / SETTINGS_INITIAL_WINDOW_SIZE / handler completions; the histories are replayed with a 13107-byte unit (65535 = 5 units) plus real-size generators (drain, negative window, exactly 2^31-1, raised MAX_FRAME_SIZE, shared connection window); the trace monitor keeps the peer-side ledger from the logged frames and checks every DATA frame against it, and progress at every quiescence.', '6 C06')
srv('C08', 'H2Server.tla (the server at frame granularity) is model-checked exhaustively to a frame bound with the invariant that every reaction is in RFC7540!Allowed and a request is dispatched only from a complete legal sequence. TLC emits every (abstract state, peer frame) edge it explored as a scenario; each is replayed into the real server and H2ServerTrace.tla re-derives the RFC stream state from the logged frames and requires the observed reaction (nothing / RST_STREAM(code) / GOAWAY(code) / close) to be in Tolerate(Allowed(state, frame)).', '6 C08')
srv('C09', 'A catalogue of stream-scoped offences (malformed fields before/after a dynamic-table insert, over-limit bodies, refused streams, peer resets at each life stage, handler panic, per-stream flow-control errors, frames in flight after the server reset) is placed among good streams, with later requests referencing HPACK entries inserted by the offending blocks; the trace monitor requires every other stream to satisfy the C01 clauses and the connection to survive.', '6 C09')
srv('C10', 'The model carries the GOAWAY ledger (last-stream-id >= every dispatched stream, no dispatch above it); scenarios place every connection-scoped offence after 0..3 answered/running/half-sent requests with trailing traffic, including more than a hand-off queue of frames in the same write and a peer that stops reading; the monitor checks last-stream-id, non-increase, the code against the oracle, no dispatch of streams first seen after the error, and that ServeConn returns once the promised streams are done (with a goroutine-stack witness when it does not).', '6 C10')
srv('C13', 'Adversarial schedules (rapid reset, half-open streams, PRIORITY/WINDOW_UPDATE floods on new ids, endless CONTINUATION, oversized / mis-declared bodies, control floods, handlers held) are replayed; at every quiescent point the hook gauges (running handlers, stream table, closed-stream memory, buffered header/body bytes, queue lengths) are compared with bounds that depend on the configured limits only, and the handler never sees a body or header list over its limit.', '6 C13')
srv('C14', 'The trace monitor keeps the credit ledger of a conforming sender (DATA sent incl. padding vs WINDOW_UPDATE received) for the connection and each open stream; uploads larger than both windows with various chunking/padding, bodies that end in stream errors, and interleaved uploads with resets are replayed; credit must be positive at every quiescence, never increment 0, never above 2^31-1.', '6 C14')
srv('C17', 'Fault enumeration driven by the model: byte prefixes of a recorded well-formed client stream (every offset in the thorough tier), structure-aware mutations (delete/duplicate/swap/flip/insert raw frame), peers that stop reading, write failures at the k-th byte, disconnects with handlers blocked or released; the monitor requires ServeConn to return, no goroutine left besides handlers, no recovered panic in connection code.', '6 C17')
srv('C18', 'SETTINGS sequences (subsets, repeats, boundary and invalid values, unknown ids) interleaved with requests; the monitor counts ACKs against SETTINGS sent at every quiescence, checks frame lengths (HEADERS included) against the peer MAX_FRAME_SIZE, the x/net decoder is configured with the table size the peer advertised (an encoder using more fails to decode), and the server is held to the limits it advertised itself.', '6 C18')
srv('C20', 'HttpMsgModel.tla enumerates header lists from a vocabulary of valid and invalid fields (insertions into / deletions from valid bases; TLC checks two independent formulations of RFC 7540 8.1.2 agree on all of them); each list is replayed first / after other requests / with table history, with and without body and trailers; the monitor applies HttpMsg!WellFormedRequest to the logged concrete list and requires dispatch iff well-formed, refusal of that stream alone otherwise, and a following good request to succeed.', '6 C20')
CODEC_NOTE = 'trusts TLC, the transcription of RFC 7541 / RFC 7540 into TLA+ (cross-checked against golang.org/x/net on every input: disagreement makes the run inconclusive), JSON trace I/O'
CHECKS['C03'] = ('hpack', 'transcribed RFC 7541 decoder in TLA+ (HpackWire/Hpack) model-checked against a nondeterministic conforming encoder; recorded real-decoder runs validated by TLC', 'HpackModel.tla composes any conforming encoder (nondeterministic representation choice, table-size schedule) with the RFC decoder and TLC checks decode(encode)=id and equal tables; the Go harness feeds bounded-exhaustive and seeded instruction sequences (every first-byte collision class, evictions, size updates, all byte strings <=2/3 for the rejection half) to the real decoder field by field and HpackTrace.tla requires the same triples, the same accept/reject and an identical dynamic table after every block.', CODEC_NOTE, '6 C03')
CHECKS['C04'] = ('hpack', 'recorded real-encoder output parsed and decoded by the TLA+ RFC 7541 model (TLC trace validation)', 'For header-list sequences with store/sensitive flags and SetMaxTableSize schedules (bounded-exhaustive templates + seeded random, >70 inserts, integer boundary lengths, names/values ending in 0x00) the bytes the real AppendHeader emits are parsed by HpackWire!ParseIns (must parse completely), applied to the RFC decoder model and compared with the input list, the logged encoder table, the peer limit, update placement and never-indexed representation.', CODEC_NOTE, '6 C04')
CHECKS['C05'] = ('frames', 'transcribed RFC 7540 frame layout in TLA+ (Frames.tla) model-checked for parse(serialise)=id; recorded WriteTo / ReadFrameFrom calls validated by TLC', 'FramesModel.tla checks ParseFrame(FrameBytes(f)) = f over an enumerated frame domain; every frame value buildable through the public API is written by the real code and the bytes must parse (in TLA+ and by x/net) to the fields that were set; frames from an independent writer (x/net, raw builder) with all flag bytes, reserved bits, padding and boundary values are read by the real parser and compared with ParseFrame, including bytes consumed.', CODEC_NOTE, '6 C05')
CHECKS['C16'] = ('frames', 'TLC trace validation of real parser calls on truncations, mutations and random bytes against the total ParseFrame / HPACK progress model, plus a pool-ownership state machine over hook events', 'Every truncation of valid frame streams, structure-aware mutations and seeded random bytes are fed to ReadFrameFrom[WithSize] and HPACK.Next; FramesTrace.tla requires error-or-correct-reading of exactly 9+length bytes, reader positioned at the next frame, no panic, allocation within the limit, each HPACK step consuming input or failing, and validates the pool Get/Put events of every call with an ownership state machine (double put / two owners).', CODEC_NOTE, '6 C16')
CLI_TECH = 'TLA+ model of the client connection (H2Client.tla) model-checked by TLC; its environment histories (+ generators) replayed in lock-step into a real http2.Conn against a scripted x/net server peer; recorded traces validated by TLC against H2ClientTrace.tla'
CLI_NOTE = 'trusts TLC, golang.org/x/net/http2 as the independent server peer, client loop hooks (build tag verif) for quiescence, JSON trace I/O; Conn-level API (Client.RoundTrip retry loop is exercised only through the error classes it retries on)'
def cli(pid, text, ref):
    CHECKS[pid] = ('client', CLI_TECH, text, CLI_NOTE, ref)
cli('C02', 'H2Client.tla is model-checked (own response only, fresh increasing ids) over callers x server response orders; histories plus generators (response header blocks continued in CONTINUATION at every byte, END_STREAM on HEADERS with CONTINUATION following, four interleaved responses in all orders with chunking/padding, request body shapes and sizes up to above the windows, connection-specific fields) are replayed; the monitor compares what the x/net server peer received with what the caller gave and what the caller got with what the peer sent on that stream.', '6 C02')
cli('C07', 'Same ledger as C06 from the server peer side: initial windows, WINDOW_UPDATE, SETTINGS_INITIAL_WINDOW_SIZE deltas (negative windows), MAX_FRAME_SIZE changes; every client DATA frame is checked against the ledger, END_STREAM exactly once, no stall at quiescence while both windows are open.', '6 C07')
cli('C11', 'GOAWAY(last, code) at every position relative to in-flight requests and their partial responses, subsequent response orders, connection loss, REFUSED_STREAM, double GOAWAY, new requests afterwards; the monitor requires no new stream after GOAWAY, requests above last to fail by the next quiescence and never succeed, requests at or below last to complete when the server delivers.', '6 C11')
cli('C12', 'Fault enumeration: every cut point of a recorded server byte stream (all offsets in the thorough tier), adversarial frames inserted at several positions (oversize, PUSH_PROMISE, bad HPACK, bad padding, short fixed-size frames, unknown types, frames on unopened streams), Close racing Write at each stage, write failures at the k-th byte, cancellation at each stage; every request must resolve exactly once, loops must exit, no goroutine left.', '6 C12')
CHECKS['C19'] = ('ownership', 'TLA+ ownership model (Pools.tla) folded by TLC over hook-recorded pool Get/Put/use and disciplined-variable access events of replayed model schedules; the same schedules (plus overlapping bursts) replayed from a -race build',
  'Pools.tla states that a pooled object is in its pool or owned by exactly one holder (TLC: holds; the release-twice variant violates it). Hooks record every pool Get/Put, every handler use of its RequestCtx and every access to variables with a documented owner/lock while ~800 server and ~550 client scenarios (environment histories of H2Server/H2Client, fault and mutation generators, concurrent burst schedules mixing SETTINGS changes, resets, streamed bodies, timeouts, Close) are replayed; PoolsTrace.tla folds Pools!PoolStep over the ~90k events per run and checks the discipline table. The schedules are also replayed from a -race build: a race-detector report is the observation the property itself names. Absence of races outside the replayed schedules is NOT shown.',
  'trusts TLC, the hook placement (put logged before Put, get after Get, one mutex), GC-off address stability, the Go race detector; schedules are a sample', '6 C19')
NOT_YET = {p: 'client-side and concurrency checks are the next build step (DESIGN.md section 9, step 4); not claimed until built' for p in ()}

def main():
    props = [json.loads(l) for l in open(os.path.join(V, 'properties.jsonl'))]
    checks, na = [], []
    for p in props:
        pid = p['id']
        if pid in CHECKS:
            eng, tech, text, note, ref = CHECKS[pid]
            checks.append({
                'property_id': pid,
                'quick_cmd': './check %s --tier quick' % pid,
                'thorough_cmd': './check %s --tier thorough' % pid,
                'evidence_file': 'evidence/%s.json' % pid,
                'replay_cmd_template': './check %s --replay {path}' % pid,
                'engine': eng,
                'level_claimed': {'category': 'model_checking', 'text': text, 'design_ref': 'DESIGN.md section ' + ref},
                'level_note': note,
                'technique': tech,
            })
        else:
            na.append({'property_id': pid, 'reason': NOT_YET.get(pid, 'check not built yet in this session (work in progress; see DESIGN.md section 9 build order)')})
    m = {
        'version': 1,
        'setup_cmd': './setup.sh',
        'hooks': {
            'guard': 'verif',
            'enable': 'go build -tags verif (the harness under /verif/harness is always built with it)',
            'baseline_off_cmd': 'for m in . ./demo; do (cd /repo/$m && go test -mod=mod -json -vet=off -count=1 -timeout 25m ./...); done',
            'source_commits': hooks_commits(),
            'add_only': True,
        },
        'engines': [
            {'name': 'server', 'path': 'spec/RFC7540.tla spec/HttpMsg.tla spec/H2Server.tla spec/H2ServerTrace.tla harness/srvdrv.go harness/memconn.go lib/srvfam.py',
             'serves_properties': ['C01', 'C06', 'C08', 'C09', 'C10', 'C13', 'C14', 'C17', 'C18', 'C20'],
             'kind_free_text': 'TLA+ design model of the server connection + RFC oracle; TLC-generated scenarios replayed into the real server (x/net peer, in-memory conn, hook quiescence); TLC trace validation'},
            {'name': 'client', 'path': 'spec/H2Client.tla spec/H2ClientTrace.tla harness/clidrv.go lib/cliprop.py',
             'serves_properties': ['C02', 'C07', 'C11', 'C12', 'C14', 'C18', 'C20'],
             'kind_free_text': 'TLA+ design model of the client connection; TLC-generated scenarios replayed into a real http2.Conn (scripted x/net server peer, in-memory conn, hook quiescence); TLC trace validation'},
            {'name': 'ownership', 'path': 'spec/Pools.tla spec/PoolsTrace.tla harness/poolrec.go lib/props/c19.py',
             'serves_properties': ['C19'], 'kind_free_text': 'TLA+ ownership state machine over hook-recorded pool/access events + race-detector replays of model-generated schedules'},
            {'name': 'hpack', 'path': 'spec/HpackWire.tla spec/Hpack.tla spec/HpackStatic.tla spec/HpackModel.tla spec/HpackTrace.tla harness/hpack.go lib/props/hpack_common.py',
             'serves_properties': ['C03', 'C04'], 'kind_free_text': 'TLA+ transcription of RFC 7541 + TLC trace validation of real decoder/encoder runs'},
            {'name': 'frames', 'path': 'spec/Frames.tla spec/FramesModel.tla spec/FramesTrace.tla harness/frames*.go lib/props/frames_common.py',
             'serves_properties': ['C05', 'C16'], 'kind_free_text': 'TLA+ transcription of the RFC 7540 frame layout + TLC trace validation of real writer/parser calls and pool events'},
            {'name': 'huffman', 'path': 'spec/Huffman.tla spec/HuffmanModel.tla spec/HuffmanTrace.tla harness/huff.go', 'serves_properties': ['C15'],
             'kind_free_text': 'TLA+ transcription of RFC 7541 Appendix B + TLC trace validation of recorded real-code calls'},
        ],
        'checks': checks,
        'not_applicable': na,
        'notes': 'All checks: ./check <ID> --tier quick|thorough; exit 0 ok, 1 VIOLATION, 2 inconclusive. Specs in spec/, Go harness in harness/ (built from /repo working tree with -tags verif), orchestration in lib/.',
    }
    with open(os.path.join(V, 'MANIFEST.json'), 'w') as f:
        json.dump(m, f, indent=1)

if __name__ == '__main__':
    main()
