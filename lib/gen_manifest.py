#!/usr/bin/env python3
"""Writes /verif/MANIFEST.json from the table below (single source of truth)."""
import json, os, subprocess
V = os.path.dirname(os.path.dirname(os.path.abspath(__file__)))

def hooks_commits():
    try:
        out = subprocess.run(['git', '-C', '/repo', 'log', '--format=%H %s'], stdout=subprocess.PIPE, text=True).stdout
        return [l.split()[0] for l in out.splitlines() if l.split(' ', 1)[1].startswith('verif:')]
    except Exception:
        return []

# id -> (engine, technique, level text, level note, design_ref)
CHECKS = {
 'C15': ('huffman', 'transcribed TLA+ Huffman code (TLC-checked complete prefix code) judging recorded real-code calls; exhaustive small domains + seeded random',
         'TLC proves the transcribed RFC 7541 code (table from x/net) is a complete prefix code and lossless/strict on a boundary alphabet; every call of the real HuffmanEncode/HuffmanDecode on all strings <=2 bytes (thorough: decode <=3 bytes, 16.8M) plus seeded random/mutated strings is recorded and validated line by line by HuffmanTrace.tla. Bounded-exhaustive on the real code, so any table or padding deviation on short strings is certain to be seen.',
         'trusts TLC, the x/net table transcription (cross-checked: spec vs x/net on every input), JSON trace I/O', '6 C15'),
}
SRV_NOTE = 'trusts TLC, the RFC7540.tla transcription of RFC 7540 sections 4-6, golang.org/x/net/http2 as the independent peer (framing + HPACK), hook-based quiescence detection (build tag verif), JSON trace I/O'
CHECKS['C08'] = ('server', 'TLC model of the server stream loop checked against an RFC 7540 reaction oracle; every explored (state, frame) edge replayed in lock-step into the real server; trace validation against the oracle',
  'H2Server.tla (the server at frame granularity) is model-checked exhaustively to a frame bound with the invariant that every reaction is in RFC7540!Allowed and a request is dispatched only from a complete legal sequence. TLC then emits every (abstract state, peer frame) edge it explored as a scenario; the Go harness replays each into the real server over an in-memory connection with an independent x/net peer, and H2ServerTrace.tla re-derives the RFC stream state from the logged frames and requires the observed reaction (nothing / RST_STREAM(code) / GOAWAY(code) / close) to be in Tolerate(Allowed(state, frame)).',
  SRV_NOTE, '6 C08')
NOT_YET = {}

def main():
    props = [json.loads(l) for l in open(os.path.join(V, 'properties.jsonl'))]
    checks, na = [], []
    for p in props:
        pid = p['id']
        if pid in CHECKS:
            eng, tech, text, note, ref = CHECKS[pid]
            checks.append({
                'property_id': pid,
                'quick_cmd': './check %s --tier quick' % pid,
                'thorough_cmd': './check %s --tier thorough' % pid,
                'evidence_file': 'evidence/%s.json' % pid,
                'replay_cmd_template': './check %s --replay {path}' % pid,
                'engine': eng,
                'level_claimed': {'category': 'model_checking', 'text': text, 'design_ref': 'DESIGN.md section ' + ref},
                'level_note': note,
                'technique': tech,
            })
        else:
            na.append({'property_id': pid, 'reason': NOT_YET.get(pid, 'check not built yet in this session (work in progress; see DESIGN.md section 9 build order)')})
    m = {
        'version': 1,
        'setup_cmd': './setup.sh',
        'hooks': {
            'guard': 'verif',
            'enable': 'go build -tags verif (the harness under /verif/harness is always built with it)',
            'baseline_off_cmd': 'for m in . ./demo; do (cd /repo/$m && go test -mod=mod -json -vet=off -count=1 -timeout 25m ./...); done',
            'source_commits': hooks_commits(),
            'add_only': True,
        },
        'engines': [
            {'name': 'server', 'path': 'spec/RFC7540.tla spec/HttpMsg.tla spec/H2Server.tla spec/H2ServerTrace.tla harness/srvdrv.go harness/memconn.go lib/srvfam.py',
             'serves_properties': ['C08'],
             'kind_free_text': 'TLA+ design model of the server connection + RFC oracle; TLC-generated scenarios replayed into the real server (x/net peer, in-memory conn, hook quiescence); TLC trace validation'},
            {'name': 'huffman', 'path': 'spec/Huffman.tla spec/HuffmanModel.tla spec/HuffmanTrace.tla harness/huff.go', 'serves_properties': ['C15'],
             'kind_free_text': 'TLA+ transcription of RFC 7541 Appendix B + TLC trace validation of recorded real-code calls'},
        ],
        'checks': checks,
        'not_applicable': na,
        'notes': 'All checks: ./check <ID> --tier quick|thorough; exit 0 ok, 1 VIOLATION, 2 inconclusive. Specs in spec/, Go harness in harness/ (built from /repo working tree with -tags verif), orchestration in lib/.',
    }
    with open(os.path.join(V, 'MANIFEST.json'), 'w') as f:
        json.dump(m, f, indent=1)

if __name__ == '__main__':
    main()
