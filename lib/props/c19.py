"""C19 - no data races; a pooled object never has two owners.

Three instruments, all fed by schedules that come from the TLA+ models' environment histories and generators:
 (1) spec/Pools.tla + spec/PoolsTrace.tla: every Get/Put of the library's pools and every handler's use of its
     RequestCtx is recorded by hooks (in hook order, GC off) while server and client scenarios are replayed; TLC folds
     Pools!PoolStep over the recording (double put, hand-out of an owned object, put while a handler uses the context);
 (2) the same traces carry accesses to variables with a documented owner / lock (hook vAccess); PoolsTrace!Discipline
     says who may touch them;
 (3) the scenarios, plus "burst" schedules that make handler completions, SETTINGS changes, resets, pings, timeouts,
     cancellations and Close overlap, are replayed from a -race build: a race-detector report is a real-code observation
     of exactly what the property forbids.
"""
import os, json, subprocess, concurrent.futures, re
import vlib, srvfam, srvprop, cliprop, rtfam
from srvprop import req, finish, hdrs

LEVEL = 'model_checking'


def srv_par(ctx, thorough):
    rng = ctx.rng
    out = []
    for k in range(60 if thorough else 16):
        burst = []
        pool = [finish(1, kind='stream', n=rng.choice([10, 50000])), {"op": "settings", "pairs": [[1, rng.choice([0, 100, 4096])]]}, finish(3, n=5, hdrs_=[["x-r", "v%d" % k]]),
                {"op": "settings", "pairs": [[4, rng.choice([1000, 70000])]]}, {"op": "wu", "sid": 0, "inc": 1000}, {"op": "rst", "sid": 5, "code": 8},
                {"op": "ping", "n": k}, finish(5), {"op": "wu", "sid": 1, "inc": 100000}, {"op": "prio", "sid": 9, "prio": {"dep": 0, "excl": False, "weight": 1}}]
        rng.shuffle(pool)
        steps = req(1) + req(3, body=10) + req(5, extra=[["x-dyn", "d%d" % k]]) + [{"op": "burst", "steps": pool}]
        steps += req(7) + [{"op": "burst", "steps": [finish(7, n=100), {"op": "settings", "pairs": [[1, 4096]]}]}]
        if k % 3 == 0:
            steps += req(9) + [{"op": "close"}, finish(9)]             # disconnect while a handler runs
        out.append({'tag': 'par', 'cfg': {'maxConc': 4}, 'steps': steps})
    # a stream reset by the peer (or timed out) while its handler is at work on the response: the RequestCtx is the handler's
    # until it reports back - the stream loop closes the stream without touching it
    for k in range(12 if thorough else 6):
        kind = ('stream', 'streamcl', 'buf')[k % 3]
        ender = {"op": "rst", "sid": 3, "code": (8, 0, 5)[k % 3]}
        third = req(3, body=10) if k % 2 else req(3)
        steps = req(1) + third + [{"op": "burst", "steps": [ender, finish(3, kind=kind, n=20000), {"op": "ping", "n": k}]}, finish(1, n=3)] + req(5) + [finish(5, n=1)]
        out.append({'tag': 'par', 'cfg': {'maxConc': 4}, 'steps': steps})
    # response header blocks that need CONTINUATION frames: chained frames change hands (stream loop -> write loop -> pool)
    for k, n in enumerate((17000, 40000, 70000)):
        steps = req(1) + req(3) + [finish(1, n=5, hdrs_=[["x-fill", "Z" * n]]), finish(3, n=20000, kind='stream', hdrs_=[["x-fill", "Y" * (n // 2)]])]
        steps += req(5) + [{"op": "burst", "steps": [finish(5, n=1, hdrs_=[["x-fill", "Z" * n]]), {"op": "ping", "n": k}, {"op": "settings", "pairs": [[1, 0]]}]}]
        out.append({'tag': 'bighdr', 'cfg': {'maxConc': 4}, 'steps': steps})
    # a response going out while a request body comes in: both directions draw DATA frames from the same pool at once.
    # The response is first held back by the windows; the burst that opens them carries the upload's DATA frames too.
    for k in range(8 if thorough else 4):
        up = [{"op": "data", "sid": 3, "n": rng.choice([100, 1000, 16000]), "es": False, "pad": rng.choice([-1, 5])} for _ in range(80)]
        opener = [{"op": "wu", "sid": 1, "inc": 2000000}, {"op": "wu", "sid": 0, "inc": 2000000}]
        rng.shuffle(opener)
        mix = up[:2] + opener + up[2:]
        steps = req(1) + [{"op": "hdr", "sid": 3, "fields": hdrs(3, "POST"), "es": False, "pad": -1},
                          finish(1, kind=rng.choice(['buf', 'stream']), n=rng.choice([1000000, 1800000])), {"op": "burst", "steps": mix},
                          {"op": "data", "sid": 3, "n": 10, "es": True, "pad": -1}, finish(3, n=100)]
        out.append({'tag': 'updown', 'cfg': {'maxConc': 4}, 'steps': steps})
    # idle-timeout shutdown racing requests and handler completion
    for k in range(6 if thorough else 3):
        steps = req(1) + [{"op": "wait", "ms": 140 + 5 * k}] + req(3) + [finish(1), finish(3), {"op": "wait", "ms": 200}]
        out.append({'tag': 'idle', 'cfg': {'maxConc': 4, 'idleMs': 150}, 'steps': steps})
    # request timeout (ReadTimeout) resetting streams while frames arrive
    for k in range(4 if thorough else 2):
        steps = [{"op": "hdr", "sid": 1, "fields": hdrs(1, "POST"), "es": False, "pad": -1}, {"op": "wait", "ms": 130}] + req(3) + [finish(3), {"op": "data", "sid": 1, "n": 5, "es": True, "pad": -1}]
        out.append({'tag': 'readtimeout', 'cfg': {'maxConc': 4, 'readMs': 100}, 'steps': steps})
    return out


def cli_par(ctx, thorough):
    rng = ctx.rng
    out = []
    from cliprop import call, resp, data
    for k in range(40 if thorough else 12):
        pool = [resp(1, fields=[["x-a", "b"]]), data(1, 20000, es=True), {"op": "settings", "pairs": [[4, rng.choice([100, 70000])], [1, rng.choice([0, 4096])]]},
                resp(2, es=True), {"op": "wu", "req": 3, "inc": 50000}, {"op": "wu", "req": 0, "inc": 50000}, {"op": "ping"}, {"op": "rst", "req": 4, "code": 8},
                call(5, n=30000, kind='stream'), call(6), {"op": "cancel", "req": 2}]
        rng.shuffle(pool)
        steps = [call(1), call(2), call(3, n=100000, kind=rng.choice(['buf', 'stream'])), call(4), {"op": "burst", "steps": pool}]
        if k % 2:
            steps += [{"op": "burst", "steps": [call(7), {"op": "close"}, call(8)]}]
        else:
            steps += [{"op": "burst", "steps": [call(7), {"op": "goaway", "code": 0, "last": 0, "lastreq": 3}, call(8), {"op": "srvclose"}]}]
        out.append({'tag': 'par', 'cfg': {}, 'steps': steps})
    # a streamed body whose Close takes a while (a file, a pipe): the server answers as soon as it has the last DATA frame,
    # the caller gets its Request back and returns it to the pool - whoever closes the stream must do so before that
    for kind in ('stream', 'streamcl'):
        for n in (10, 30000):
            c = call(1, n=n, kind=kind)
            c['body']['closems'] = 250
            c['nowait'] = True
            steps = [c, {"op": "awaitclose"}, resp(1, es=True), {"op": "wait", "ms": 400}, call(2, n=5, kind='stream'), resp(2, es=True)]
            out.append({'tag': 'slow-close', 'cfg': {}, 'steps': steps})
    return out


def pool_run(ctx, exe, sub, scen, label, shards, procs=None, trace=True):
    """Replay with pool tracing on; returns list of pool trace files + race logs."""
    files = []
    for i in range(shards):
        part = scen[i::shards]
        if part:
            p = os.path.join(ctx.scratch, '%s.%d' % (label, i))
            vlib.write_ndjson(p, part)
            files.append((i, p))

    def one(a):
        i, p = a
        env = dict(os.environ)
        if trace:
            # (not for the race replays: the recorder's mutex orders every pool operation of every goroutine, and with
            # that most of what the race detector is there to see)
            env.update(H2V_POOLTRACE=p + '.pool', H2V_POOLTRACE_ID=str(i + 1))
        if procs:
            env['GOMAXPROCS'] = str(procs)     # few Ps: sync.Pool hands an object released by one goroutine to the next one that asks
        pr = subprocess.run([exe, sub, '--in', p, '--out', p + '.tr'], cwd=ctx.scratch, env=env, stdout=subprocess.PIPE, stderr=subprocess.PIPE, text=True, timeout=1500)
        return p, pr
    pools, races = [], []
    with concurrent.futures.ThreadPoolExecutor(max_workers=max(1, len(files))) as ex:
        for p, pr in ex.map(one, files):
            if 'DATA RACE' in pr.stderr:
                races.append(pr.stderr)
            elif pr.returncode != 0:
                raise vlib.Inconclusive('h2v %s failed rc=%d: %s' % (sub, pr.returncode, (pr.stdout + pr.stderr)[-1500:]))
            if os.path.exists(p + '.pool'):
                pools.append(p + '.pool')
    return pools, races


def race_sites(log):
    """Distinct (function, function) pairs of the library reported by the race detector."""
    sites = set()
    for blk in log.split('WARNING: DATA RACE')[1:]:
        fns = re.findall(r'\n  (github\.com/dgrr/http2\.\S+?)\(\)', blk)
        # the innermost library frame of each of the two accesses
        tops = [m.group(1) for m in re.finditer(r'(?:Read|Write|Previous read|Previous write) at [^\n]*\n(?:  (?!github\.com/dgrr/http2\.)[^\n]*\n      [^\n]*\n)*  (github\.com/dgrr/http2\.\S+?)\(\)', blk)]
        if not tops:
            continue      # both accesses are the harness's own code (counted by the caller as harness-only)
        sites.add(' <-> '.join(sorted(set(tops))))
    return sites


def run(ctx):
    thorough = ctx.tier == 'thorough'
    ctx.assumptions = ['pool events are recorded under one mutex in hook order (put before Put, get after Get); GC is off during pool tracing',
                       'the race detector only sees races that happen in the replayed schedules']
    # the client's request context between caller, write loop, read loop and timer (client.go); the two defect
    # configurations are the seeded changes C19-1 and C19-5 and must violate
    ctx.model_check('CtxOwnership', 'CtxOwnership.cfg', workers=2)
    ctx.model_expect_violation('CtxOwnership', 'CtxOwnership_bad1.cfg', 'NoUseAfterHandBack', workers=2)
    ctx.model_expect_violation('CtxOwnership', 'CtxOwnership_bad2.cfg', 'NoUseAcrossGenerations', workers=2)
    ctx.model_check('Pools', 'Pools.cfg')
    r = ctx.tlc('Pools', 'Pools_sloppy.cfg')
    if 'is violated' not in r.out:
        raise vlib.Inconclusive('Pools.tla sanity: the release-twice variant did not violate SingleOwner/NoDuplicates')
    # scenarios: environment histories of both design models + the generators with the richest pool traffic
    hs = srvfam.gen_from_model(ctx, 'H2Server_c10_t.cfg' if thorough else 'H2Server_c10_q.cfg', workers=None if thorough else 1)
    ctx.rng.shuffle(hs)
    srv = [{'tag': 'c19-model', 'cfg': {'maxConc': 2, 'initWin': 2, 'maxBody': 3, 'unit': 1}, 'steps': srvfam.concretise(h, rng=ctx.rng), 'abs': h} for h in hs[:4000 if thorough else 500]]
    srv += [x for x in srvprop.gen_c09_extra(ctx, thorough) if x['tag'] != 'c09-inflight-padding-credit'] + srvprop.gen_c17_extra(ctx, thorough)[:1500 if thorough else 200] + srv_par(ctx, thorough)
    hc = srvfam.gen_from_model(ctx, 'H2Client_c12_t.cfg' if thorough else 'H2Client_c12_q.cfg', workers=None if thorough else 1, module='H2Client')
    ctx.rng.shuffle(hc)
    cli = [{'tag': 'c19-model', 'cfg': {'unit': 1}, 'steps': cliprop.concretise(h, rng=ctx.rng), 'abs': h} for h in hc[:3000 if thorough else 400]]
    cli += cliprop.gen_c12_extra(ctx, thorough)[:1500 if thorough else 150] + cli_par(ctx, thorough)
    for i, s in enumerate(srv + cli):
        s['id'] = i + 1
    exe = ctx.harness()
    shards = 8
    pools_s, _ = pool_run(ctx, exe, 'srv', srv, 'ps', shards)
    pools_c, _ = pool_run(ctx, exe, 'cli', cli, 'pc', shards)
    merged = os.path.join(ctx.scratch, 'pool.traces')
    nev = 0
    with open(merged, 'w') as mf:
        for k, p in enumerate(pools_s + pools_c):
            d = json.load(open(p)); d['t'] = k + 1
            nev += len(d['evs'])
            mf.write(json.dumps(d, separators=(',', ':')) + '\n')
            if k == 0:
                ctx.sample({'pool_events_head': d['evs'][:12], 'accesses': d['acc'][:6], 'objects': d['nobj']})
    r = ctx.validate('PoolsTrace', merged, timeout=1500)
    ctx.traces += len(pools_s) + len(pools_c)
    ctx.evaluations += nev
    clauses = {}
    for s in r.printed('BAD'):
        m = re.match(r'(\d+) (.*)$', s, re.S)
        for c in json.loads(m.group(2)):
            clauses[c] = clauses.get(c, 0) + 1
    for c, n in sorted(clauses.items()):
        if c.startswith('C19:') or c.startswith('C17:'):
            ctx.report(c.split(' ')[0] + ('' if 'var=' not in c else ' ' + c.split(' ', 1)[1]), 'pool/ownership trace: %s (in %d process traces)' % (c, n), {'kind': 'pool', 'clause': c})
    # (3) race-detector replays of the concurrent schedules
    rexe = ctx.harness(race=True)
    reps = 3 if thorough else 1
    rs = srv_par(ctx, thorough) * reps + srv[:1500 if thorough else 150]
    rc = cli_par(ctx, thorough) * reps + cli[:1500 if thorough else 150]
    for i, s in enumerate(rs + rc):
        s = dict(s); s['id'] = i + 1
    _, races_s = pool_run(ctx, rexe, 'srv', [dict(s, id=i + 1) for i, s in enumerate(rs)], 'rs', shards, trace=False)
    _, races_c = pool_run(ctx, rexe, 'cli', [dict(s, id=i + 1) for i, s in enumerate(rc)], 'rc', shards, trace=False)
    # the concurrent schedules once more on four Ps (pooled objects change hands between goroutines sooner), the bidirectional ones three times
    par_s = [x for x in rs if x['tag'] in ('par', 'bighdr', 'idle', 'readtimeout')]
    par_c = [x for x in rc if x['tag'] == 'par']
    _, races_s2 = pool_run(ctx, rexe, 'srv', [dict(s, id=i + 1) for i, s in enumerate(par_s)], 'rs2', shards, procs=4, trace=False)
    _, races_c2 = pool_run(ctx, rexe, 'cli', [dict(s, id=i + 1) for i, s in enumerate(par_c)], 'rc2', shards, procs=4, trace=False)
    # the bidirectional ones eight times over, few processes (each keeps its pools warm), four Ps
    ud = [x for x in rs if x['tag'] == 'updown'] * 8
    _, races_s3 = pool_run(ctx, rexe, 'srv', [dict(s, id=i + 1) for i, s in enumerate(ud)], 'rs3', 3, procs=4, trace=False)
    races_s, races_c = races_s + races_s2 + races_s3, races_c + races_c2
    # the whole client stack (RoundTrip, timers, Close) with callers that reuse their buffers the moment a call returns
    rr = [x for x in rtfam.extras(ctx, thorough) if x['tag'] in ('rt-stall-body', 'rt-slow-body', 'rt-close', 'rt-goaway-mix', 'rt-dialfail')] * reps
    for x in rr:
        x['cfg'] = dict(x['cfg'], scribble=True)
        for q in x['reqs']:
            q['bodyn'] = q['bodyn'] or 2000
            q['method'] = 'POST'
    _, races_r = pool_run(ctx, rexe, 'rt', [dict(s, id=i + 1) for i, s in enumerate(rr)], 'rr', shards, trace=False)
    # a pooled client Ctx handed to the next request while its previous owner's timer can still fire shows as a request
    # that "times out" microseconds after it started: the symptom is a C12 clause, the cause is what C19 forbids
    te = [x for x in rtfam.extras(ctx, thorough) if x['tag'] == 'rt-timer-edge']
    for i, x in enumerate(te):
        x['id'] = 3000000 + i + 1
    rtfam.judge(ctx, te, rtfam.run_harness(ctx, te, 'rte'), {'C12:timed-out-before-its-timeout'}, label='rt (context reused while its timer is pending)')
    sites = set()
    for lg in races_s + races_c + races_r:
        sites |= race_sites(lg)
    ctx.evaluations += len(rs) + len(rc) + len(rr)
    ctx.extra['race_replays'] = len(rs) + len(rc) + len(rr)
    ctx.extra['race_sites'] = sorted(sites)
    ctx.extra['race_reports_total'] = sum(lg.count('WARNING: DATA RACE') for lg in races_s + races_c + races_r)
    for st in sorted(sites):
        ctx.report('C19:data-race ' + st, 'race detector: %s' % st, {'kind': 'race', 'sites': st, 'log': (races_s + races_c + races_r)[0][-4000:]})
    ctx.nontrivial = len(srv) + len(cli)
    ctx.rule = ('%d server + %d client scenarios (model histories of H2Server/H2Client + generators incl. concurrent "burst" schedules, idle/read timeouts, '
                'disconnects with handlers running) replayed with pool/ownership tracing (%d pool events validated by PoolsTrace.tla in %d process traces) and '
                '%d of them from a -race build; non-trivial = scenario count' % (len(srv), len(cli), nev, len(pools_s) + len(pools_c), len(rs) + len(rc)))


def replay(ctx, finding):
    run(ctx)
