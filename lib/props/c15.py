"""C15 - Huffman coding is the RFC 7541 code: lossless, canonical, strict on decode.

Spec: spec/Huffman.tla (+ generated HuffTab.tla), HuffmanModel.tla, HuffmanTrace.tla.
Binding: `h2v huff` records (input, output) of the real HuffmanEncode/HuffmanDecode;
HuffmanTrace judges every recorded call with the spec's Encode/Decode.
"""
import os, json
import vlib


def _validate(ctx, tracefile, label):
    rows_n = sum(1 for _ in open(tracefile))
    r = ctx.validate('HuffmanTrace', tracefile)
    ctx.traces += rows_n
    ctx.evaluations += rows_n
    bad = [int(x) for x in r.printed('BAD')]
    selfbad = [int(x) for x in r.printed('SELFBAD')]
    if r.generated < 2 * rows_n:
        raise vlib.Inconclusive('%s: TLC consumed %d of %d lines' % (label, r.generated // 2, rows_n))
    if selfbad:
        ctx.inconclusive.append('%s: spec disagrees with x/net on %d inputs (spec bug), e.g. t=%s' % (label, len(selfbad), selfbad[:3]))
    if bad:
        want = set(bad[:50])
        lines = [json.loads(l) for l in open(tracefile) if json.loads(l)['t'] in want]
        for ln in lines[:5]:
            ctx.violation('%s %s of %s' % (label, ln['ev'], ln['in'][:12]), {'kind': 'huff', 'lines': [ln]})
        if len(bad) > 5:
            ctx.notes.append('%d further rejected lines in %s' % (len(bad) - 5, label))
    return rows_n, len(bad)


def _nontrivial(tracefile, limit=200000):
    n = 0
    seen = set()
    for i, l in enumerate(open(tracefile)):
        if i > limit:
            break
        e = json.loads(l)
        k = (e['ev'], tuple(e['in']))
        if len(e['in']) > 0 and k not in seen:
            seen.add(k); n += 1
    return n


def run(ctx):
    thorough = ctx.tier == 'thorough'
    ctx.rule = ('exhaustive: encode of every string of length<=2 (all 65 536 symbol pairs), decode of every byte string of '
                'length<=2 (thorough: <=3); seeded random strings up to 300 bytes with their valid encodings and mutations '
                '(padding flipped, over-long padding, embedded EOS, truncation). non-trivial = distinct non-empty input.')
    ctx.assumptions = ['HuffTab.tla is generated from golang.org/x/net/http2/hpack/tables.go (independent of /repo); '
                       'TLC checks it is a complete prefix code with EOS = 30 ones',
                       'spec is cross-checked against x/net on every input (SELFBAD => inconclusive)']
    # 1. design-level model: transcription is a lossless, canonical, strict code
    ctx.model_check('HuffmanModel', 'HuffmanModel_t.cfg' if thorough else 'HuffmanModel.cfg')
    # 2+3. record real-code calls, validate
    pre = os.path.join(ctx.scratch, 'hf')
    jobs = [('pairs', ['--mode', 'pairs']), ('dec2', ['--mode', 'dec2']),
            ('rand', ['--mode', 'rand', '--seed', ctx.seed, '--n', 20000 if thorough else 1500])]
    for name, args in jobs:
        ctx.h2v(['huff'] + args + ['--out', pre + name])
        f = pre + name + '.0'
        ctx.nontrivial += _nontrivial(f)
        _validate(ctx, f, name)
        if name == 'rand':
            ctx.sample(json.loads(open(f).readline()))
            with open(f) as fh:
                for i, l in enumerate(fh):
                    if i == 2:
                        ctx.sample(json.loads(l))
        os.remove(f)
    if thorough:
        step = 8
        for lo in range(0, 256, step):
            ctx.h2v(['huff', '--mode', 'dec3', '--lo', lo, '--hi', lo + step - 1, '--out', pre + 'd3'])
            f = pre + 'd3.0'
            n, _ = _validate(ctx, f, 'dec3[%d..%d]' % (lo, lo + step - 1))
            ctx.nontrivial += n
            os.remove(f)
    ctx.exhaustive = True
    ctx.extra['exhaustive_domains'] = ['encode: len<=2', 'decode: len<=%d' % (3 if thorough else 2)]


def replay(ctx, finding):
    inp = os.path.join(ctx.scratch, 'replay.in')
    vlib.write_ndjson(inp, finding['lines'])
    ctx.h2v(['huff', '--mode', 'file', '--in', inp, '--out', os.path.join(ctx.scratch, 'rp')])
    _validate(ctx, os.path.join(ctx.scratch, 'rp.0'), 'replay')
