"""C16 - wire parsers are total: any bytes give a result or an error, in bounded work.

Every byte string fed to ReadFrameFrom[WithSize] must give the verdict of Frames!ParseFrame (accept with the right fields and
9+length bytes consumed / skip an unknown type / reject: over the limit, impossible fixed size or padding, truncated), never
panic, allocate O(length) only when the length passed the limit, leave the reader at the next frame, and leave the pools
consistent (per-call ownership machine over the pool hook events, plus two Acquire calls after each truncated read).
HPACK.Next on arbitrary bytes: every step consumes input or fails, output is bounded, no panic.
"""
import os
import vlib
from props import frames_common as fc


def run(ctx):
    thorough = ctx.tier == 'thorough'
    ctx.rule = ('read domain of C05 (legal shapes and their illegal neighbours, limits {len-1,len,16384,2^24-1,none}, headers announcing up to 2^24-1); '
                'every truncation offset of valid frames of all 10 types (+1 unknown) followed by two AcquireFrame calls; seeded random bytes, '
                'random headers, 1-3 byte mutations and length-field mutations of valid frames, the go fuzz corpora with all their prefixes; '
                'HPACK: all 1-octet inputs, all pairs over an 18-octet representation alphabet, seeds with all prefixes, seeded random blocks. '
                'non-trivial = distinct non-empty input.')
    ctx.assumptions = list(fc.COMMON_ASSUMPTIONS) + [
        'allocation is TotalAlloc around the recorded call (GC off, pools emptied first when the input announces or carries > 4 KB) and per call over '
        '8 more repetitions; bound 3*length + 4096 when the length passed the limit, 4096 otherwise',
        'pool events are validated per call: an object is owned from its Get to its Put; the harness process runs with GOMAXPROCS(1) so that '
        'sync.Pool hands a doubly released object out twice deterministically',
        'HPACK output bound per step: 2*consumed + 4096 (one table entry of the default 4096-octet table, or literals: Huffman expands <= 8/5)']
    fc.model(ctx)
    corpus = os.path.join(os.environ.get('VERIF_REPO', vlib.REPO), 'testdata', 'fuzz')
    f = fc.record(ctx, 'trunc', 't', ['--level', 2 if thorough else 1])
    fc.validate(ctx, f, 'trunc', samples=1)
    f = fc.record(ctx, 'read', 'r', ['--level', 1])
    fc.validate(ctx, f, 'read', samples=1)
    n = 60000 if thorough else 4000
    chunks = 4 if thorough else 1
    for k in range(chunks):
        f = fc.record(ctx, 'rand', 'x%d' % k, ['--seed', ctx.seed * 1000 + k, '--n', n // chunks, '--corpus', corpus])
        fc.validate(ctx, f, 'rand[%d]' % k, samples=1 if k == 0 else 0)
    for k in range(chunks):
        f = fc.record(ctx, 'hpacktotal', 'h%d' % k, ['--seed', ctx.seed * 1000 + k, '--n', (100000 if thorough else 4000) // chunks, '--corpus', corpus])
        fc.validate(ctx, f, 'hpack[%d]' % k, samples=1 if k == 0 else 0)
    ctx.extra['exhaustive_domains'] = ['every truncation offset of each seed frame', 'HPACK: all 1-octet inputs, all pairs over the prefix alphabet']


def replay(ctx, finding):
    fc.replay(ctx, finding)
