"""C03 - HPACK decoder yields exactly what any conforming encoder encoded; invalid blocks are rejected.

Spec: spec/HpackWire.tla + spec/Hpack.tla (RFC 7541), design model spec/HpackModel.tla (any conforming
encoder || RFC decoder), judge spec/HpackTrace.tla.  Binding: `h2v hpackdec` feeds header-block
sequences to the real decoder both ways the library calls it (VerifNextField with block start /
fields processed like serverConn.handleHeaderFrame, and the public Next like Conn.readHeader) and
records fields, accept/reject, dynamic table and limits after every block; HpackTrace re-decodes the
same bytes from its own state.  golang.org/x/net's decoder runs on the same bytes as oracle self-check.
"""
import props.hpack_common as hc

CMD, KIND = 'hpackdec', 'hpackdec'


def run(ctx):
    thorough = ctx.tier == 'thorough'
    ctx.rule = ('(i) bounded-exhaustive: every sequence of <=2 representation classes in block 1 (20-class core alphabet; thorough: '
                'the full 68-class alphabet) x every <=1 class in block 2 (full alphabet; thorough also <=2 core), classes = indexed '
                '{static low, static>=16, 61, dynamic, 0, out of range}, literal {inc, noidx, never} x name {static idx, idx>=16, dynamic idx, '
                'raw, Huffman} x value {first-octet collision length, 1 raw, Huffman, empty}, size update {0, 64, limit, limit+1}; the same '
                'with advertised limits 0/64/100; a sweep over every first-octet collision class (3 kinds x name index 0..63); '
                '(ii) seeded random connection histories (strings to 300 octets, multi-octet integers, >70 inserts, evictions, size-update '
                'schedules), half of them steering clear of the known-defect signatures so deep states are checked on an unfixed tree; '
                '(iii) rejection half: every byte string of length <=2 as a block (thorough: also behind a table-filling block, and 256x256x19 '
                'three-octet strings), seeded mutations of valid blocks (bit flips, truncation, late/oversized size updates, index 0 / out of '
                'range, >9 continuation octets, broken Huffman tails, over-long strings); (iv) boundary integers up to 2^64-1 in every integer position (index, name index, size update, string lengths), alone, behind a table-filling block, followed by a field. non-trivial = distinct (limit, block bytes) history.')
    ctx.assumptions = ['HpackStatic.tla is generated from golang.org/x/net (independent of /repo); Huffman.tla as in C15',
                       'a representation cut short by the END of a block is invalid (the fragment API\'s "need more" is only legal before END_HEADERS)',
                       'implementation limit chosen by the spec: a prefix integer with more than nine continuation octets is a decoding error (RFC 7541 5.1)',
                       'one HeaderField per block, reused across calls, exactly as serverConn.handleHeaderFrame / Conn.readHeader do',
                       'spec is cross-checked against x/net on every block (SELFBAD => inconclusive); two documented x/net deviations tolerated: '
                       'size update after a field accepted when its table is empty, second leading size update refused when it is not']
    hc.model_check(ctx)
    seed = ctx.seed
    if not thorough:
        hc.round_(ctx, CMD, KIND, 'ex,lim,sweep,bytes2,varint,rand,mut', 'quick', ['--seed', seed, '--n', 150], sample=True)
    else:
        hc.round_(ctx, CMD, KIND, 'ex,lim,sweep,bytes2,bytes2p,varint,rand,mut', 'base', ['--seed', seed, '--n', 2500], sample=True)
        parts = 4
        for p in range(parts):
            hc.round_(ctx, CMD, KIND, 'exfull', 'exfull[%d/%d]' % (p, parts), ['--part', p, '--parts', parts])
        for p in range(2):
            hc.round_(ctx, CMD, KIND, 'expairs', 'expairs[%d/2]' % p, ['--part', p, '--parts', 2])
        step = 64
        for lo in range(0, 256, step):
            hc.round_(ctx, CMD, KIND, 'bytes3', 'bytes3[%d..%d]' % (lo, lo + step - 1), ['--lo', lo, '--hi', lo + step - 1])
    ctx.exhaustive = True
    ctx.extra['exhaustive_domains'] = ['instruction-class sequences: block1<=2 x block2<=1' + (' (full alphabet), block1<=2 x block2<=2 (core)' if thorough else ' (core x full)'),
                                       'byte strings as a block: len<=2' + (' and 256x256x19 of len 3' if thorough else '')]


def replay(ctx, finding):
    hc.replay(ctx, finding, CMD)
