"""Shared machinery of C05 (frame wire layout) and C16 (wire parsers are total).

Spec: spec/Frames.tla (RFC 7540 4.1 + 6 as FrameBytes / ParseFrame), FramesModel.tla (design-level
state space), FramesTrace.tla (judge of recorded calls).  Binding: `h2v frames --mode ...` records one
line per call of the real FrameHeader.WriteTo / ReadFrameFrom[WithSize] / HPACK.Next loop.
"""
import json, os, shutil, subprocess, collections
import vlib

FILES = ['main.go', 'tracew.go', 'frames.go', 'frames_gen.go', 'frames_x.go', 'go.mod']


def harness(ctx):
    """Build h2v.  Other engineers add files to the same Go package concurrently; when the full package
    does not build (somebody's half-written file), build only the files the frames commands need from a
    scratch copy.  FRAMES_HARNESS_SRC=<dir> forces an alternative source directory."""
    key = (False, ('verif',))
    if key in ctx._harness:
        return ctx._harness[key]
    src = os.environ.get('FRAMES_HARNESS_SRC')
    if not src:
        try:
            return ctx.harness()
        except vlib.Inconclusive as e:
            ctx.notes.append('full harness package did not build, using the frames-only subset: ' + str(e)[-300:])
            src = vlib.HARNESS
    repo = os.environ.get('VERIF_REPO', vlib.REPO)
    hdir = os.path.join(ctx.scratch, 'harness-frames')
    os.makedirs(hdir, exist_ok=True)
    for f in FILES:
        shutil.copy(os.path.join(src, f), os.path.join(hdir, f))
    gm = open(os.path.join(hdir, 'go.mod')).read().replace('=> /repo', '=> ' + repo)
    open(os.path.join(hdir, 'go.mod'), 'w').write(gm)
    shutil.copy(os.path.join(repo, 'go.sum'), os.path.join(hdir, 'go.sum'))
    out = os.path.join(ctx.scratch, 'h2v')
    p = subprocess.run([vlib.go_bin(), 'build', '-tags', 'verif', '-o', out, '.'], cwd=hdir, env=vlib.go_env(),
                       stdout=subprocess.PIPE, stderr=subprocess.STDOUT, text=True)
    if p.returncode != 0:
        raise vlib.Inconclusive('frames harness build failed:\n' + p.stdout[-3000:])
    ctx._harness[key] = out
    return out


def record(ctx, mode, name, extra=()):
    """Run one harness mode, return the trace file."""
    harness(ctx)
    pre = os.path.join(ctx.scratch, name)
    ctx.h2v(['frames', '--mode', mode, '--out', pre] + list(extra))
    return pre + '.0'


def _brief(e):
    """A trace line cut down to what a reader of the evidence needs."""
    if e['ev'] == 'read':
        b = e['in']
        return {'ev': 'read', 'src': e['src'], 'api': e['api'], 'max': e['max'], 'in_first_bytes': b['pre'][:24],
                'in_len': len(b['pre']) + b['mlen'] + len(b['suf']), 'res': e['res'], 'consumed': e['consumed'], 'next': e['next'],
                'alloc': e['alloc'], 'pool': e['pool'][:8], 'dupacq': e['dupacq'],
                'read': {k: e['g'][k] for k in ('ty', 'fl', 'sidl', 'len', 'blen')}, 'xnet': e['x']['res']}
    if e['ev'] == 'write':
        o = e['out']
        a = e['a']
        return {'ev': 'write', 'how': e['how'], 'set': {k: a[k] for k in ('ty', 'flset', 'sidl', 'es', 'eh', 'ack', 'padded', 'hasprio')},
                'src_first_bytes': e['src']['pre'][:24], 'out_first_bytes': o['pre'][:24],
                'out_len': len(o['pre']) + o['mlen'] + len(o['suf']), 'xnet': e['x']['res']}
    return {'ev': 'hpack', 'src': e['src'], 'in': e['in']['pre'][:24], 'n': e['n'], 'steps': e['steps'][:6], 'capped': e['capped'], 'panic': e['panic']}


def _key(e):
    if e['ev'] == 'read':
        return ('r', e['api'], e['max'], e['sent'], json.dumps(e['in'], sort_keys=True))
    if e['ev'] == 'write':
        return ('w', e['how'], json.dumps(e['a'], sort_keys=True), json.dumps(e['src'], sort_keys=True))
    return ('h', json.dumps(e['in'], sort_keys=True))


def _nontrivial(e):
    if e['ev'] == 'read':
        return len(e['in']['pre']) >= 1
    if e['ev'] == 'hpack':
        return e['n'] >= 1
    return True


def validate(ctx, tracefile, label, samples=0, max_reports=5, keep=False):
    """TLC judges every line of tracefile with FramesTrace.  Returns (lines, Counter of classes)."""
    rows = 0
    if not hasattr(ctx, '_fr_seen'):
        ctx._fr_seen = set()
    seen = ctx._fr_seen
    with open(tracefile) as fh:
        for idx, l in enumerate(fh):
            rows += 1
            e = json.loads(l)
            if _nontrivial(e):
                k = hash(_key(e))
                if k not in seen:
                    seen.add(k)
                    ctx.nontrivial += 1
            if samples and idx in (0, 7, 1234):
                ctx.sample(_brief(e))
    r = ctx.validate('FramesTrace', tracefile)
    ctx.traces += rows
    ctx.evaluations += rows
    if r.generated < 2 * rows:
        raise vlib.Inconclusive('%s: TLC consumed %d of %d lines' % (label, r.generated // 2, rows))
    bad = {}
    for s in r.printed('BAD'):
        parts = s.split()
        bad[int(parts[0])] = (parts[1], parts[2] if len(parts) > 2 else '')
    selfbad = [int(x) for x in r.printed('SELFBAD')]
    if selfbad:
        ctx.inconclusive.append('%s: spec disagrees with x/net on %d lines (spec bug), e.g. t=%s' % (label, len(selfbad), sorted(selfbad)[:3]))
    classes = collections.Counter(c for c, _ in bad.values())
    tot = ctx.extra.setdefault('rejected_lines_by_class', {})
    for c, n in classes.items():
        tot[c] = tot.get(c, 0) + n
    if bad:
        known = {k['class'] for k in vlib.load_known(ctx.prop)}
        # signatures of defects that have been FIXED explain nothing any more: an input may still match them,
        # but a rejection must then be explained by the remaining (open) signatures alone
        fixed = {k['class'] for k in json.load(open(os.path.join(vlib.VERIF, 'known_findings.json')))
                 if k.get('property') == ctx.prop and k.get('status') == 'fixed'}

        def _known(c):
            parts = [p for p in c.split('+') if p not in fixed]
            return bool(parts) and all(p in known for p in parts)
        # one line per class (first occurrence) for known classes, up to max_reports for the others
        want = {}
        budget = collections.Counter()
        for t in sorted(bad):
            c = bad[t][0]
            isknown = _known(c)
            if budget[c] < (1 if isknown else max_reports):
                budget[c] += 1
                want[t] = c
        lines = {}
        with open(tracefile) as fh:
            for l in fh:
                # cheap pre-filter: "t" is the last key the harness writes
                e = None
                tpos = l.rfind('"t":')
                try:
                    t = int(l[tpos + 4:].split(',')[0].split('}')[0])
                except Exception:
                    e = json.loads(l)
                    t = e['t']
                if t in want:
                    lines[t] = e or json.loads(l)
        unknown_total = 0
        for t in sorted(want):
            c, failed = bad[t]
            e = lines[t]
            parts = [p for p in c.split('+') if p not in fixed]
            if _known(c):
                for p in parts:
                    ctx.report(p, '', {})
            else:
                what = '%s %s line t=%d class=%s failed=%s' % (label, e['ev'], t, c, failed)
                ctx.report(c, what, {'kind': 'frames', 'class': c, 'failed': failed, 'brief': _brief(e), 'lines': [e]})
        for c, n in classes.items():
            if not _known(c):
                unknown_total += n
        if unknown_total > sum(1 for t in want if not _known(want[t])):
            ctx.notes.append('%s: %d rejected lines outside the known classes (first ones reported)' % (label, unknown_total))
    if not keep:
        try:
            os.remove(tracefile)
        except OSError:
            pass
    return rows, classes


def model(ctx):
    ctx.model_check('FramesModel', 'FramesModel_t.cfg' if ctx.tier == 'thorough' else 'FramesModel.cfg')


def replay(ctx, finding):
    harness(ctx)
    inp = os.path.join(ctx.scratch, 'replay.in')
    vlib.write_ndjson(inp, finding['lines'])
    ctx.h2v(['frames', '--mode', 'file', '--in', inp, '--out', os.path.join(ctx.scratch, 'rp')])
    validate(ctx, os.path.join(ctx.scratch, 'rp.0'), 'replay')


COMMON_ASSUMPTIONS = [
    'Frames.tla is written from RFC 7540 sections 4.1 and 6, independent of /repo; FramesModel checks it against itself '
    '(writer/parser inverse, consumed = 9+length, reserved bits, padding, strictness)',
    'the spec is cross-checked against golang.org/x/net/http2.Framer on every recorded byte string (SELFBAD => inconclusive); '
    'x/net additionally enforces stream-id rules at parse time, which the layout spec deliberately does not',
    'byte strings longer than 400 octets are logged as prefix + constant middle (digest-checked) + suffix; generators use bodies of that form',
    'SETTINGS parameter values outside RFC 7540 6.5.2 ranges count as parse errors (the code rejects them in Deserialize)',
    'a limit of 0 passed to ReadFrameFromWithSize means "no limit" (documented behaviour of checkLen); the missing limit before the '
    'first SETTINGS is the caller\'s (serverConn) defect, tracked under C13/C18, not a parser defect',
    'the exclusive bit of a priority section and every PUSH_PROMISE field are not observable through the public getters of the unchanged tree '
    '(reported as findings F08 / F01, compared as soon as the getters exist)',
]
