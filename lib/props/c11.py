"""C11 - client family: lib/cliprop.py (generators), spec/H2Client.tla (design model), spec/H2ClientTrace.tla (trace validation);
RoundTrip level: lib/rtfam.py, spec/H2RoundTrip.tla (design model), spec/H2RoundTripTrace.tla (trace validation)."""
import cliprop, rtfam

LEVEL = 'model_checking'


def run(ctx):
    ctx.assumptions = ['x/net Framer/hpack is the independent server peer', 'client loop hooks (verif build tag) give quiescence',
                       'request/response bodies are fixed functions of (request, offset)']
    # goroutine-level model of the write loop registering a request against the read loop processing a GOAWAY (defect K07);
    # bound to the code by the gate-goaway scenarios, which park the real write loop between the model's steps
    ctx.model_check('CliGoAwayHandshake', 'CliGoAwayHandshake.cfg', workers=1)
    ctx.model_expect_violation('CliGoAwayHandshake', 'CliGoAwayHandshake_asfound.cfg', 'NotStranded', workers=1)
    cliprop.run(ctx, 'C11')
    rtfam.run(ctx, {'C11'})


def replay(ctx, finding):
    if finding.get('kind') == 'rt':
        rtfam.replay(ctx, finding, {'C11'})
    else:
        cliprop.replay(ctx, 'C11', finding)
