"""C12 - client family: lib/cliprop.py (generators), spec/H2Client.tla (design model), spec/H2ClientTrace.tla (trace validation)."""
import cliprop

LEVEL = 'model_checking'


def run(ctx):
    ctx.assumptions = ['x/net Framer/hpack is the independent server peer', 'client loop hooks (verif build tag) give quiescence',
                       'request/response bodies are fixed functions of (request, offset)']
    cliprop.run(ctx, 'C12')


def replay(ctx, finding):
    cliprop.replay(ctx, 'C12', finding)
