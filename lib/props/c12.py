"""C12 - client family: lib/cliprop.py (generators), spec/H2Client.tla (design model), spec/H2ClientTrace.tla (trace validation);
RoundTrip level: lib/rtfam.py, spec/H2RoundTrip.tla (design model), spec/H2RoundTripTrace.tla (trace validation)."""
import cliprop, rtfam

LEVEL = 'model_checking'


def run(ctx):
    ctx.assumptions = ['x/net Framer/hpack is the independent server peer', 'client loop hooks (verif build tag) give quiescence',
                       'request/response bodies are fixed functions of (request, offset)']
    cliprop.run(ctx, 'C12')
    rtfam.run(ctx, {'C12'})


def replay(ctx, finding):
    if finding.get('kind') == 'rt':
        rtfam.replay(ctx, finding, {'C12'})
    else:
        cliprop.replay(ctx, 'C12', finding)
