"""C12 - client family: lib/cliprop.py (generators), spec/H2Client.tla (design model), spec/H2ClientTrace.tla (trace validation);
RoundTrip level: lib/rtfam.py, spec/H2RoundTrip.tla (design model), spec/H2RoundTripTrace.tla (trace validation)."""
import cliprop, rtfam

LEVEL = 'model_checking'


def run(ctx):
    ctx.assumptions = ['x/net Framer/hpack is the independent server peer', 'client loop hooks (verif build tag) give quiescence',
                       'request/response bodies are fixed functions of (request, offset)']
    # goroutine-level model of Conn.Write against the write loop leaving (close(done) first, drain second); the code side
    # is the write-storm scenario family
    ctx.model_check('CliWriteExit', 'CliWriteExit.cfg', workers=1)
    ctx.model_expect_violation('CliWriteExit', 'CliWriteExit_bad.cfg', 'AllResolved', workers=1)
    cliprop.run(ctx, 'C12')
    rtfam.run(ctx, {'C12'})


def replay(ctx, finding):
    if finding.get('kind') == 'rt':
        rtfam.replay(ctx, finding, {'C12'})
    else:
        cliprop.replay(ctx, 'C12', finding)
