"""C14 - server half: lib/srvprop.py + spec/H2Server.tla + spec/H2ServerTrace.tla;
client half: lib/cliprop.py + spec/H2ClientTrace.tla."""
import srvprop, cliprop


def run(ctx):
    # the receive-credit ledger of the design model (Ops flag "credit"): holds as written, and not when dropped frames go uncounted
    ctx.model_expect_violation('H2Server', 'H2Server_c14_bad.cfg', 'C14_ConnCredit', workers=2)
    ctx.model_expect_violation('H2Server', 'H2Server_c14_bad2.cfg', 'C14_StreamCredit', workers=2)
    ctx.model_expect_violation('H2Client', 'H2Client_c14_bad.cfg', 'C14_ConnCredit', workers=2)
    ctx.model_expect_violation('H2Client', 'H2Client_c14_bad2.cfg', 'C14_StreamCredit', workers=2)
    srvprop.run(ctx, 'C14')
    cliprop.run(ctx, 'C14', id_offset=1000000)


def replay(ctx, finding):
    if finding.get('kind') == 'cli':
        cliprop.replay(ctx, 'C14', finding)
    else:
        srvprop.replay(ctx, 'C14', finding)
