"""C14 - see lib/srvprop.py (family table, generators) and spec/H2Server.tla, spec/H2ServerTrace.tla."""
import srvprop


def run(ctx):
    srvprop.run(ctx, 'C14')


def replay(ctx, finding):
    srvprop.replay(ctx, 'C14', finding)
