"""C14 - server half: lib/srvprop.py + spec/H2Server.tla + spec/H2ServerTrace.tla;
client half: lib/cliprop.py + spec/H2ClientTrace.tla."""
import srvprop, cliprop


def run(ctx):
    srvprop.run(ctx, 'C14')
    cliprop.run(ctx, 'C14', id_offset=1000000)


def replay(ctx, finding):
    if finding.get('kind') == 'cli':
        cliprop.replay(ctx, 'C14', finding)
    else:
        srvprop.replay(ctx, 'C14', finding)
