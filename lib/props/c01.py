"""C01 - see lib/srvprop.py (family table, generators) and spec/H2Server.tla, spec/H2ServerTrace.tla.
Goroutine-level model: spec/SrvWriterQueue.tla (a response header block is one element of the shared writer queue, so it
is contiguous on the wire whatever the read loop and the timers queue; code side: bighdr-queue + the contiguity clauses)."""
import srvprop


def run(ctx):
    ctx.model_check('SrvWriterQueue', 'SrvWriterQueue.cfg', workers=2)
    ctx.model_expect_violation('SrvWriterQueue', 'SrvWriterQueue_bad1.cfg', 'Contiguous', workers=2)
    srvprop.run(ctx, 'C01')


def replay(ctx, finding):
    srvprop.replay(ctx, 'C01', finding)
