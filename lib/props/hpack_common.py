"""Shared machinery of C03 (HPACK decoder) and C04 (HPACK encoder).

Spec: spec/HpackWire.tla (RFC 7541 5-6 on bytes), spec/Hpack.tla (2-4, 6 on instructions),
spec/HpackStatic.tla (generated from x/net), spec/HpackModel.tla (design-level state space),
spec/HpackTrace.tla (trace validation, verdict lines BAD / SELFBAD).
Binding: harness/hpack.go (`h2v hpackdec`, `h2v hpackenc`) records one ndjson line per
connection history; the lines are spread over N shard files which N TLC processes judge in
parallel (reading the ndjson is single-threaded inside one TLC, measured as the bottleneck).
"""
import json, os, re, concurrent.futures
import vlib

SHARDS = 8
MODEL = 'HpackModel'


def model_check(ctx):
    # explicit heaps: the machine is shared, the JVM default (1/4 of RAM per process) invites the OOM killer
    ctx.model_check(MODEL, 'HpackModel_t.cfg' if ctx.tier == 'thorough' else 'HpackModel.cfg', heap='6g' if ctx.tier == 'thorough' else '3g')


def record(ctx, cmd, modes, out, extra=()):
    """Run the harness; returns its coverage summary {traces, blocks, nontrivial}."""
    p = ctx.h2v([cmd, '--mode', modes, '--shards', SHARDS, '--out', out] + list(extra))
    stats = {'traces': 0, 'blocks': 0, 'nontrivial': 0}
    for ln in p.stdout.splitlines():
        ln = ln.strip()
        if ln.startswith('{'):
            stats = json.loads(ln)
    return stats


def _shard_files(prefix):
    return [f for f in ('%s.%d' % (prefix, k) for k in range(SHARDS)) if os.path.exists(f) and os.path.getsize(f) > 0]


def validate(ctx, prefix, label):
    """Judge all shard files of `prefix` with HpackTrace.  Returns (lines, bad, selfbad) where bad is a
    list of (t, [classes], mode, opindex) and selfbad a list of t."""
    files = _shard_files(prefix)
    nlines = {f: sum(1 for _ in open(f)) for f in files}
    workers = max(2, vlib.NCPU // max(1, len(files)))

    def one(f):
        return f, ctx.tlc('HpackTrace', 'HpackTrace.cfg', workers=workers, env={'VERIF_TRACE': f}, heap='4g')

    with concurrent.futures.ThreadPoolExecutor(max_workers=len(files) or 1) as ex:
        results = list(ex.map(one, files))
    bad, selfbad = [], []
    for f, r in results:
        if not r.ok:
            raise vlib.Inconclusive('trace validation HpackTrace crashed on %s (rc=%d):\n%s' % (label, r.rc, r.error_text()))
        if r.generated < 2 * nlines[f]:
            raise vlib.Inconclusive('%s: TLC consumed %d of %d lines of %s' % (label, r.generated // 2, nlines[f], os.path.basename(f)))
        ctx.states += r.distinct
        ctx.transitions += r.generated
        for s in r.printed('BAD'):
            w = s.split()
            bad.append((int(w[0]), w[1].split(','), w[2], int(w[3])))
        for s in r.printed('SELFBAD'):
            selfbad.append(int(s.split()[0]))
    return sum(nlines.values()), bad, selfbad


def fetch_lines(prefix, wanted):
    """Trace lines with t in `wanted` (the shard of a trace is t % SHARDS)."""
    out = {}
    wanted = set(wanted)
    if not wanted:
        return out
    pat = re.compile(r'"t":(\d+)\}$')
    for f in _shard_files(prefix):
        with open(f) as fh:
            for ln in fh:
                m = pat.search(ln.rstrip())
                if m and int(m.group(1)) in wanted:
                    out[int(m.group(1))] = json.loads(ln)
    return out


def hexs(a):
    return bytes(a).hex()


def describe(line, op=None):
    """A short human-readable rendering of a trace line (for VIOLATION text and evidence samples)."""
    if line['k'] == 'dec':
        d = {'t': line['t'], 'fam': line.get('fam'), 'lim': line['lim'], 'blocks': [hexs(b['in'])[:80] for b in line['blocks']][:6]}
        if op:
            b = line['blocks'][op - 1]
            d['failing_block'] = hexs(b['in'])[:160]
            d['real_srv'] = {'err': b['srv']['err'], 'fields': [[bytes(x[0]).decode('latin1')[:30], bytes(x[1]).decode('latin1')[:30], x[2]] for x in b['srv']['got']][:4]}
        return d
    ops = []
    for o in line['ops'][:8]:
        if o['op'] == 'setmax':
            ops.append('SetMaxTableSize(%d)' % o['n'])
        else:
            ops.append({'fields': [[bytes(f[0]).decode('latin1')[:24], bytes(f[1]).decode('latin1')[:24], 'sens' if f[2] else '', 'store' if f[3] else ''] for f in o['fields']][:4],
                        'out': hexs(o['out'])[:80]})
    return {'t': line['t'], 'fam': line.get('fam'), 'nocomp': line['nocomp'], 'nodyn': line['nodyn'], 'ops': ops}


def report(ctx, prefix, label, bad, selfbad, kind, max_violations=5):
    """KNOWN-FINDING / VIOLATION lines for the rejected traces of one validation round."""
    known = {k['class'] for k in vlib.load_known(ctx.prop)}
    if selfbad:
        ctx.inconclusive.append('%s: spec disagrees with x/net on %d traces (spec problem), e.g. t=%s' % (label, len(selfbad), selfbad[:3]))
    if not bad:
        return
    per_class = {}
    chosen = []
    for t, classes, mode, op in bad:
        cls = next((c for c in classes if c in known), classes[0])
        per_class[cls] = per_class.get(cls, 0) + 1
        chosen.append((t, cls, classes, mode, op))
    st = ctx.extra.setdefault('rejected_by_class', {})
    for c, n in per_class.items():
        st[c] = st.get(c, 0) + n
    # one example per class (smallest trace id), every unknown class is a violation
    want = {}
    nviol = 0
    seen_sig = set()
    for distinct_first in (True, False):   # violations: one per distinct signature first, then fill up
        for t, cls, classes, mode, op in sorted(chosen):
            if cls in known:
                if cls not in want:
                    want[cls] = (t, classes, mode, op)
            elif nviol < max_violations and ('V', t, mode) not in want:
                sig = (tuple(classes), mode)
                if distinct_first and sig in seen_sig:
                    continue
                seen_sig.add(sig)
                want[('V', t, mode)] = (t, classes, mode, op)
                nviol += 1
    lines = fetch_lines(prefix, [v[0] for v in want.values()])
    examples = ctx.extra.setdefault('known_finding_examples', {})
    for key, (t, classes, mode, op) in want.items():
        ln = lines.get(t)
        if ln is None:
            raise vlib.Inconclusive('%s: trace %d not found in the shard files' % (label, t))
        finding = {'kind': kind, 'lines': [ln], 'mode': mode, 'op': op, 'classes': classes}
        if isinstance(key, tuple):
            what = '%s %s rejected at op %d (%s), signature %s: %s' % (label, kind, op, mode, ','.join(classes), json.dumps(describe(ln, op if kind == 'hpackdec' else None))[:300])
            ctx.report(','.join(classes), what, finding)
        else:
            ctx.report(key, '%s trace %d' % (label, t), finding)
            examples.setdefault(key, describe(ln, op if kind == 'hpackdec' else None))
    unknown_total = sum(1 for _, cls, _, _, _ in chosen if cls not in known)
    if unknown_total > nviol:
        ctx.notes.append('%d further rejected traces without a listed signature in %s' % (unknown_total - nviol, label))
        ctx.extra['further_unlisted_rejections'] = ctx.extra.get('further_unlisted_rejections', 0) + unknown_total - nviol


def round_(ctx, cmd, kind, modes, label, extra=(), sample=False):
    """record -> validate -> report for one set of harness modes."""
    pre = os.path.join(ctx.scratch, 'hp-' + re.sub(r'[^a-z0-9]+', '', label.lower()))
    stats = record(ctx, cmd, modes, pre, extra)
    n, bad, selfbad = validate(ctx, pre, label)
    ctx.traces += n
    ctx.evaluations += stats.get('blocks', n)
    ctx.nontrivial += stats.get('nontrivial', 0)
    if sample:
        first = _shard_files(pre)[:2]
        for f in first:
            with open(f) as fh:
                for i, ln in enumerate(fh):
                    if i in (0, 400):
                        ctx.sample(describe(json.loads(ln)))
    report(ctx, pre, label, bad, selfbad, kind)
    for f in _shard_files(pre):
        os.remove(f)
    ctx.extra.setdefault('rounds', []).append({'label': label, 'traces': n, 'rejected': len(bad), 'selfbad': len(selfbad)})
    return n, bad


def replay(ctx, finding, cmd):
    inp = os.path.join(ctx.scratch, 'replay.in')
    vlib.write_ndjson(inp, finding['lines'])
    pre = os.path.join(ctx.scratch, 'rp')
    stats = record(ctx, cmd, 'file', pre, ['--in', inp])
    n, bad, selfbad = validate(ctx, pre, 'replay')
    ctx.traces += n
    ctx.evaluations += stats.get('blocks', n)
    report(ctx, pre, 'replay', bad, selfbad, finding.get('kind', cmd))
