"""C09 - see lib/srvprop.py (family table, generators) and spec/H2Server.tla, spec/H2ServerTrace.tla."""
import srvprop


def run(ctx):
    srvprop.run(ctx, 'C09')


def replay(ctx, finding):
    srvprop.replay(ctx, 'C09', finding)
