"""C18 - server half: lib/srvprop.py + spec/H2Server.tla + spec/H2ServerTrace.tla;
client half: lib/cliprop.py + spec/H2ClientTrace.tla."""
import srvprop, cliprop


def run(ctx):
    srvprop.run(ctx, 'C18')
    cliprop.run(ctx, 'C18', id_offset=1000000)


def replay(ctx, finding):
    if finding.get('kind') == 'cli':
        cliprop.replay(ctx, 'C18', finding)
    else:
        srvprop.replay(ctx, 'C18', finding)
