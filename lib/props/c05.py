"""C05 - frames serialise to, and parse from, the RFC 7540 wire layout.

Write direction: every frame type is built through the public API (AcquireFrameHeader, AcquireFrame, setters, SetStream,
SetFlags, SetBody) or read from an independent writer and written back (what examples/proxy does); FramesTrace requires the
bytes of WriteTo to be a well-formed frame whose ParseFrame result carries exactly what was set.  Read direction: frames of an
independent writer (x/net Framer typed writers, WriteRawFrame, a byte builder) go through ReadFrameFrom[WithSize]; fields read
through the public getters, stripped padding, ignored reserved bits and bytes consumed are compared with ParseFrame.
"""
import os
import vlib
from props import frames_common as fc


def run(ctx):
    thorough = ctx.tier == 'thorough'
    level = 2 if thorough else 1
    ctx.rule = ('write: 10 types x {stream ids 0,1,2,2^31-1} x {SetFlags absent/0/defined/undefined bits} x setter combinations x body lengths '
                '0..65536 x boundary field values, plus every frame of the read domain that is legal, read and written back; '
                'read: 10 types + 7 unknown types x payload shapes (legal boundary values and their illegal neighbours) x {undefined flag bits} x '
                'stream ids {0,1,2^31-1} x R bit, all 256 flag octets on 2 shapes per type, sizes {max-1,max,max+1} for limits '
                '{payload length, 16384, 2^24-1, none}, x/net typed writers over boundary values. '
                'non-trivial = distinct (input bytes, limit) or distinct frame value.')
    ctx.assumptions = list(fc.COMMON_ASSUMPTIONS) + [
        'write-direction domain: stream ids <= 2^31-1 (FrameHeader.SetStream documents that it keeps bit 31), SetFlags is not used to set '
        'PADDED/PRIORITY/ACK-on-SETTINGS (those belong to the body setters), PING data is always 8 octets',
        'SETTINGS are compared by meaning: the value a receiver ends up with (explicit, else the RFC initial value) must equal the value the '
        'Settings object holds; for forwarded SETTINGS only parameters present in the source are compared']
    fc.model(ctx)
    f = fc.record(ctx, 'write', 'w', ['--level', level])
    fc.validate(ctx, f, 'write', samples=2)
    if not thorough:
        f = fc.record(ctx, 'read', 'r', ['--level', 1])
        fc.validate(ctx, f, 'read', samples=1)
    else:
        parts = 8
        for k in range(parts):
            f = fc.record(ctx, 'read', 'r%d' % k, ['--level', 2, '--parts', parts, '--part', k, '--alloc', 4])
            fc.validate(ctx, f, 'read[%d/%d]' % (k + 1, parts), samples=1 if k == 0 else 0)
    ctx.extra['exhaustive_domains'] = ['all 256 flag octets on two shapes of each of the 17 types', 'every listed shape x boundary value (enumerated, not sampled)']


def replay(ctx, finding):
    fc.replay(ctx, finding)
