"""C20 - server half: lib/srvprop.py + spec/H2Server.tla + spec/H2ServerTrace.tla;
client half: lib/cliprop.py + spec/H2ClientTrace.tla."""
import srvprop, cliprop


def run(ctx):
    srvprop.run(ctx, 'C20')
    cliprop.run(ctx, 'C20', id_offset=1000000)


def replay(ctx, finding):
    if finding.get('kind') == 'cli':
        cliprop.replay(ctx, 'C20', finding)
    else:
        srvprop.replay(ctx, 'C20', finding)
