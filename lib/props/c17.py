"""C17 - see lib/srvprop.py (family table, generators) and spec/H2Server.tla, spec/H2ServerTrace.tla.
Goroutine-level model: spec/H2Teardown.tla (after the peer has gone every loop of the connection ends: C17_Exit,
NoLoopLeft, under weak fairness of the server's own steps); the as-found configuration must violate."""
import srvprop


def run(ctx):
    ctx.model_check('H2Teardown', 'H2Teardown.cfg', workers=8)
    ctx.model_expect_violation('H2Teardown', 'H2Teardown_asfound.cfg', 'violated', workers=8)
    srvprop.run(ctx, 'C17')


def replay(ctx, finding):
    srvprop.replay(ctx, 'C17', finding)
