"""C17 - see lib/srvprop.py (family table, generators) and spec/H2Server.tla, spec/H2ServerTrace.tla.
Goroutine-level model: spec/H2Teardown.tla (after the peer has gone every loop of the connection ends: C17_Exit,
NoLoopLeft, under weak fairness of the server's own steps); the as-found configuration must violate."""
import os, json, re
import srvprop, vlib


def run(ctx):
    ctx.model_check('H2Teardown', 'H2Teardown.cfg', workers=8)
    ctx.model_expect_violation('H2Teardown', 'H2Teardown_asfound.cfg', 'violated', workers=8)
    # the shared writer queue: a producer parked on a full queue is let go when the write loop dies (seeded change C17-5)
    ctx.model_check('SrvWriterQueue', 'SrvWriterQueue.cfg', workers=2)
    ctx.model_expect_violation('SrvWriterQueue', 'SrvWriterQueue_bad2.cfg', 'NoProducerStuck', workers=2)
    srvprop.run(ctx, 'C17')
    pool_pass(ctx)


def pool_pass(ctx):
    """"... and never recycles a request context that a handler is still using": the scenarios in which the connection
    ends while handlers run are replayed with the pool recorder on (Get / Put of every pool, begin / end of every
    handler's use of its RequestCtx, in hook order); PoolsTrace.tla folds Pools!PoolStep over the recording."""
    from props import c19
    thorough = ctx.tier == 'thorough'
    scen = [s for s in srvprop.gen_c17_extra(ctx, thorough) if s['tag'] in ('many-handlers', 'stopread', 'prefix', 'late-answered', 'late-peer-reset')]
    scen = [s for s in scen if s['tag'] != 'prefix' or not any(st.get('op') == 'finish' for st in s['steps'])][:400 if thorough else 60]
    # handlers still running when the peer goes away, then a new connection in the same process takes contexts from the pool
    from srvprop import req, finish
    for k in (1, 3, 8):
        steps = []
        for i in range(k):
            steps += req(1 + 2 * i)
        scen.append({'tag': 'close-with-handlers', 'cfg': {'maxConc': 16}, 'steps': steps + [{"op": "close"}]})
        scen.append({'tag': 'after-close-with-handlers', 'cfg': {'maxConc': 16}, 'steps': steps + [finish(1, n=3)] + steps[:0]})
    for i, s in enumerate(scen):
        s['id'] = i + 1
    pools, _ = c19.pool_run(ctx, ctx.harness(), 'srv', scen, 'p17', 4)
    merged = os.path.join(ctx.scratch, 'pool17.traces')
    with open(merged, 'w') as mf:
        for k, p in enumerate(pools):
            d = json.load(open(p)); d['t'] = k + 1
            mf.write(json.dumps(d, separators=(',', ':')) + '\n')
    r = ctx.validate('PoolsTrace', merged, timeout=900)
    ctx.traces += len(pools)
    ctx.evaluations += len(scen)
    for s_ in r.printed('BAD'):
        m = re.match(r'(\d+) (.*)$', s_, re.S)
        for c in json.loads(m.group(2)):
            if c.startswith('C17:'):
                ctx.report(c.split(' ')[0], 'pool trace: %s' % c, {'kind': 'pool', 'clause': c})


def replay(ctx, finding):
    if finding.get('kind') == 'pool':
        return pool_pass(ctx)
    srvprop.replay(ctx, 'C17', finding)
