"""C10 - see lib/srvprop.py (family table, generators) and spec/H2Server.tla, spec/H2ServerTrace.tla.
Goroutine-level models: spec/GoAwayHandshake.tla (last-stream-id of a GOAWAY sent beside the stream loop; bound to the
code by the "hs" step events, clause C10:goaway-handshake-out-of-order) and spec/H2Teardown.tla (ServeConn returns)."""
import srvprop


def models(ctx):
    ctx.model_check('GoAwayHandshake', 'GoAwayHandshake.cfg', workers=2)
    ctx.model_expect_violation('GoAwayHandshake', 'GoAwayHandshake_bad1.cfg', 'GoAwayTruth', workers=2)
    ctx.model_expect_violation('GoAwayHandshake', 'GoAwayHandshake_bad2.cfg', 'GoAwayTruth', workers=2)
    ctx.model_check('H2Teardown', 'H2Teardown.cfg', workers=8)
    ctx.model_expect_violation('H2Teardown', 'H2Teardown_asfound.cfg', 'violated', workers=8)


def inductive(ctx):
    """Apalache: IndInv of spec/GoAwayInd.tla is inductive and implies GoAwayTruth, for any set of ids within 1..6
    and unbounded integers (thorough tier; TLC's exhaustive run covers three ids)."""
    import subprocess, tempfile, shutil, os
    out = tempfile.mkdtemp(prefix='apa-', dir=ctx.scratch)
    for init, inv, length in (('Init', 'IndInv', 0), ('IndInit', 'IndInv', 1), ('IndInit', 'GoAwayTruth', 0)):
        p = subprocess.run(['timeout', '600', 'apalache-mc', 'check', '--out-dir=' + out, '--cinit=ConstInit', '--init=' + init, '--inv=' + inv,
                            '--length=%d' % length, os.path.join(ctx.specdir, 'GoAwayInd.tla')], cwd=out, stdout=subprocess.PIPE, stderr=subprocess.STDOUT, text=True)
        if 'EXITCODE: OK' not in p.stdout:
            raise __import__('vlib').Inconclusive('apalache %s => %s (length %d) did not succeed:\n%s' % (init, inv, length, p.stdout[-1500:]))
        ctx.models.append({'module': 'GoAwayInd', 'cfg': 'apalache --init=%s --inv=%s --length=%d' % (init, inv, length), 'result': 'no error'})
    shutil.rmtree(out, ignore_errors=True)


def run(ctx):
    models(ctx)
    if ctx.tier == 'thorough':
        inductive(ctx)
    srvprop.run(ctx, 'C10')


def replay(ctx, finding):
    srvprop.replay(ctx, 'C10', finding)
