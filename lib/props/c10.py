"""C10 - see lib/srvprop.py (family table, generators) and spec/H2Server.tla, spec/H2ServerTrace.tla.
Goroutine-level models: spec/GoAwayHandshake.tla (last-stream-id of a GOAWAY sent beside the stream loop; bound to the
code by the "hs" step events, clause C10:goaway-handshake-out-of-order) and spec/H2Teardown.tla (ServeConn returns)."""
import srvprop


def models(ctx):
    ctx.model_check('GoAwayHandshake', 'GoAwayHandshake.cfg', workers=2)
    ctx.model_expect_violation('GoAwayHandshake', 'GoAwayHandshake_bad1.cfg', 'GoAwayTruth', workers=2)
    ctx.model_expect_violation('GoAwayHandshake', 'GoAwayHandshake_bad2.cfg', 'GoAwayTruth', workers=2)
    ctx.model_check('H2Teardown', 'H2Teardown.cfg', workers=8)
    ctx.model_expect_violation('H2Teardown', 'H2Teardown_asfound.cfg', 'C17_Exit', workers=8)


def run(ctx):
    models(ctx)
    srvprop.run(ctx, 'C10')


def replay(ctx, finding):
    srvprop.replay(ctx, 'C10', finding)
