"""C10 - see lib/srvprop.py (family table, generators) and spec/H2Server.tla, spec/H2ServerTrace.tla.
Goroutine-level models: spec/GoAwayHandshake.tla (last-stream-id of a GOAWAY sent beside the stream loop; bound to the
code by the "hs" step events, clause C10:goaway-handshake-out-of-order) spec/GoAwaySenders.tla (several GOAWAY senders under goAwayLck; bound by the ga-two-senders scenarios) and
spec/H2Teardown.tla (ServeConn returns)."""
import srvprop


def models(ctx):
    ctx.model_check('GoAwayHandshake', 'GoAwayHandshake.cfg', workers=2)
    ctx.model_expect_violation('GoAwayHandshake', 'GoAwayHandshake_bad1.cfg', 'GoAwayTruth', workers=2)
    ctx.model_expect_violation('GoAwayHandshake', 'GoAwayHandshake_bad2.cfg', 'GoAwayTruth', workers=2)
    ctx.model_check('GoAwaySenders', 'GoAwaySenders.cfg', workers=2)
    ctx.model_expect_violation('GoAwaySenders', 'GoAwaySenders_bad1.cfg', 'GoAwayTruth', workers=2)
    ctx.model_expect_violation('GoAwaySenders', 'GoAwaySenders_bad2.cfg', 'NeverGrows', workers=2)
    ctx.model_check('H2Teardown', 'H2Teardown.cfg', workers=8)
    ctx.model_expect_violation('H2Teardown', 'H2Teardown_asfound.cfg', 'violated', workers=8)


def inductive(ctx):
    """Apalache: IndInv of spec/GoAwayInd.tla is inductive and implies GoAwayTruth, for any set of ids within 1..6
    and unbounded integers (thorough tier; TLC's exhaustive run covers three ids)."""
    import subprocess, tempfile, shutil, os
    out = tempfile.mkdtemp(prefix='apa-', dir=ctx.scratch)
    for init, inv, length in (('Init', 'IndInv', 0), ('IndInit', 'IndInv', 1), ('IndInit', 'GoAwayTruth', 0)):
        p = subprocess.run(['timeout', '600', 'apalache-mc', 'check', '--out-dir=' + out, '--cinit=ConstInit', '--init=' + init, '--inv=' + inv,
                            '--length=%d' % length, os.path.join(ctx.specdir, 'GoAwayInd.tla')], cwd=out, stdout=subprocess.PIPE, stderr=subprocess.STDOUT, text=True)
        if 'EXITCODE: OK' not in p.stdout:
            raise __import__('vlib').Inconclusive('apalache %s => %s (length %d) did not succeed:\n%s' % (init, inv, length, p.stdout[-1500:]))
        ctx.models.append({'module': 'GoAwayInd', 'cfg': 'apalache --init=%s --inv=%s --length=%d' % (init, inv, length), 'result': 'no error'})
    shutil.rmtree(out, ignore_errors=True)


def schedules(ctx):
    """Every behaviour of GoAwayHandshake.tla (TLC's state graph, dumped with action labels and walked here), projected
    on the steps that have a hook: G1 G2 G3, S1 (= Take.S1), S23 (= S2.S3).  Distinct projections = schedules."""
    import os, re
    dot = os.path.join(ctx.scratch, 'ga.dot')
    r = ctx.tlc('GoAwayHandshake', 'GoAwayHandshake.cfg', workers=1, extra=['-dump', 'dot,actionlabels', dot])
    if not r.ok:
        raise __import__('vlib').Inconclusive('GoAwayHandshake dump failed: ' + r.error_text())
    edges, init = {}, None
    for ln in open(dot):
        m = re.match(r'(-?\d+) -> (-?\d+) \[label="(\w+)"', ln)
        if m:
            edges.setdefault(m.group(1), []).append((m.group(3), m.group(2)))
            continue
        m = re.match(r'(-?\d+) \[label=', ln)
        if m and init is None:
            init = m.group(1)
    out = set()
    proj = {'G1': 'G1', 'G2': 'G2', 'G3': 'G3', 'S1': 'S1', 'S3': 'S23'}
    stack = [(init, ())]
    while stack:
        node, path = stack.pop()
        succ = edges.get(node, [])
        if not succ:
            out.add(path)
            continue
        for lab, nxt in succ:
            # S2 has no hook; the replay runs it immediately before S3, so only behaviours with S2 directly followed by S3 are replayed as they are
            stack.append((nxt, path + ((proj[lab],) if lab in proj else ())))
    return sorted(out)


def replay_schedules(ctx):
    """Replay direction of the binding: each schedule is forced onto the real server by `h2v gahs` (blocking hooks, one
    goroutine moves at a time); GoAwayHandshakeTrace.tla then requires every recorded event to be a step of the spec's own
    actions with the recorded values, GoAwayTruth to hold throughout, and the GOAWAY read off the wire to carry the spec's
    last-stream-id."""
    import json, os, re, subprocess, vlib
    sch = schedules(ctx)
    thorough = ctx.tier == 'thorough'
    if not thorough:
        sch = [s for i, s in enumerate(sch) if i % 3 == ctx.seed % 3] + sch[:5]
    scen = [{'id': i + 1, 'nstr': 3, 'steps': list(s)} for i, s in enumerate(sch)]
    exe = ctx.harness()
    shards = min(vlib.NCPU, max(1, len(scen) // 6))
    files = []
    for k in range(shards):
        p = os.path.join(ctx.scratch, 'ga.sched.%d' % k)
        vlib.write_ndjson(p, scen[k::shards])
        files.append(p)
    procs = [subprocess.Popen([exe, 'gahs', '--in', p, '--out', p + '.tr'], cwd=ctx.scratch, stdout=subprocess.PIPE, stderr=subprocess.STDOUT, text=True) for p in files]
    merged = os.path.join(ctx.scratch, 'ga.traces')
    with open(merged, 'w') as mf:
        for p, pr in zip(files, procs):
            out, _ = pr.communicate(timeout=900)
            if pr.returncode != 0:
                raise vlib.Inconclusive('h2v gahs failed: ' + out[-1500:])
            mf.write(open(p + '.tr.0').read())

    def rejected(tracefile):
        r = ctx.validate('GoAwayHandshakeTrace', tracefile, workers=4)
        acc = {int(x) for x in r.printed('ACCEPTED')}
        bad = {}
        for ln in open(tracefile):
            t = json.loads(ln)
            stuck = [e for e in t['evs'] if e['k'] in ('stuck', 'unexpectedpark', 'driverpanic')]
            if t['t'] not in acc or stuck:
                bad[t['t']] = (t, stuck)
        return bad
    bad = rejected(merged)
    ctx.traces += len(scen)
    ctx.evaluations += len(scen)
    byid = {s['id']: s for s in scen}
    for t, (tr, stuck) in sorted(bad.items())[:3]:
        # confirm on its own
        p = os.path.join(ctx.scratch, 'ga.confirm.%d' % t)
        vlib.write_ndjson(p, [dict(byid[t], id=1)])
        subprocess.run([exe, 'gahs', '--in', p, '--out', p + '.tr'], cwd=ctx.scratch, stdout=subprocess.PIPE, stderr=subprocess.STDOUT, timeout=120)
        if rejected(p + '.tr.0'):
            what = 'C10:goaway-handshake-schedule-rejected steps=%s events=%s' % (' '.join(byid[t]['steps']), ' '.join('%s(%s)' % (e.get('ev', e['k']), e.get('v', e.get('what', ''))) for e in tr['evs'])[:300])
            ctx.report('C10:goaway-handshake-schedule-rejected', what, {'kind': 'gahs', 'clause': what, 'scenario': byid[t]})
        else:
            ctx.extra.setdefault('unconfirmed_clauses', []).append('gahs schedule %s' % ' '.join(byid[t]['steps']))
            print('UNCONFIRMED property=%s clause=C10:goaway-handshake-schedule-rejected (not reproduced; not counted)' % ctx.prop, flush=True)
    ctx.rule += (' HANDSHAKE REPLAY: %d of the %d hook-level schedules of GoAwayHandshake.tla (three new streams against one GOAWAY from the read loop) forced onto '
                 'the real server with blocking hooks and validated step by step against the specification\'s own actions (GoAwayHandshakeTrace.tla).' % (len(scen), len(sch) if thorough else len(schedules(ctx))))


def run(ctx):
    models(ctx)
    replay_schedules(ctx)
    if ctx.tier == 'thorough':
        inductive(ctx)
    srvprop.run(ctx, 'C10')


def replay(ctx, finding):
    if finding.get('kind') == 'gahs':
        return replay_schedules(ctx)
    srvprop.replay(ctx, 'C10', finding)
