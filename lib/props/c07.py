"""C07 - client family: lib/cliprop.py (generators), spec/H2Client.tla (design model), spec/H2ClientTrace.tla (trace validation)."""
import cliprop

LEVEL = 'model_checking'


def run(ctx):
    ctx.assumptions = ['x/net Framer/hpack is the independent server peer', 'client loop hooks (verif build tag) give quiescence',
                       'request/response bodies are fixed functions of (request, offset)']
    # goroutine-level model of the wake-up token between the read loop (grants) and the write loop (passes over the waiting
    # bodies); the code side is the grant-during-read scenario family
    ctx.model_check('CliWinToken', 'CliWinToken.cfg', workers=2)
    ctx.model_expect_violation('CliWinToken', 'CliWinToken_bad.cfg', 'NoLostGrant', workers=2)
    cliprop.run(ctx, 'C07')


def replay(ctx, finding):
    cliprop.replay(ctx, 'C07', finding)
