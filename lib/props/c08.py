"""C08 - the server reacts to each frame as its stream's RFC 7540 state prescribes.

Model: spec/H2Server.tla (invariant C08_Reaction against spec/RFC7540.tla!Allowed, exhaustive to a
frame bound).  Scenarios: every (abstract state, environment frame) edge TLC explored.  Binding:
lock-step replay into the real server with an x/net peer; H2ServerTrace.tla classifies what the peer
observed after each frame (nothing / RST_STREAM(code) / GOAWAY(code) / close) and requires it to be in
Tolerate(Allowed(state, frame)); dispatch only from complete legal requests.
"""
import srvfam, vlib


def run(ctx):
    thorough = ctx.tier == 'thorough'
    cfg = 'H2Server_c08_t.cfg' if thorough else 'H2Server_c08_q.cfg'
    hists = srvfam.gen_from_model(ctx, cfg, workers=None if thorough else 1)   # 1 worker: deterministic BFS, reproducible sampling
    budget = 30000 if thorough else 1500
    ctx.rng.shuffle(hists)
    # keep every distinct (last event, length) class at least once, then fill up randomly
    seen, picked, rest = set(), [], []
    for h in hists:
        key = (len(h), h[-1]['op'], h[-1]['sid'], h[-1]['es'], h[-1]['eh'], h[-1]['a'])
        (picked if key not in seen else rest).append(h)
        seen.add(key)
    picked += rest[:max(0, budget - len(picked))]
    scen = []
    for i, h in enumerate(picked):
        scen.append({'id': i + 1, 'tag': 'c08', 'cfg': {'maxConc': 2, 'initWin': 2, 'maxBody': 3, 'unit': 1},
                     'steps': srvfam.concretise(h, unit=1, maxwin_m=8, rng=ctx.rng), 'abs': h})
    ctx.nontrivial = len({json_key(h) for h in picked if len(h) >= 2})
    ctx.rule = ('environment histories = every (abstract server state, peer frame / handler completion) edge of H2Server.tla up to '
                '%d steps over ids {1,3,5}(+2,0), sampled to the budget keeping every distinct last-event class; each is replayed in '
                'lock-step into the real server; non-trivial = distinct history of length >= 2' % (4 if thorough else 3))
    ctx.assumptions = ['x/net Framer/hpack is the independent peer', 'quiescence is detected from hook counters (verif build tag)',
                       'RFC7540.tla transcribes RFC 7540 5.1/6.x; tolerance per the property (stream error may be answered by a connection error)']
    tr, _ = srvfam.run_harness(ctx, scen, 'c08')
    srvfam.judge(ctx, scen, tr, props={'C08'})
    for s in scen[:2]:
        ctx.sample({'abstract': s['abs'], 'steps': s['steps']})


def json_key(h):
    import json
    return json.dumps(h, sort_keys=True)


def replay(ctx, finding):
    sc = dict(finding['scenario']); sc['id'] = 1
    tr, _ = srvfam.run_harness(ctx, [sc], 'replay', shards=1)
    srvfam.judge(ctx, [sc], tr, props={'C08'})
