"""C08 - the server reacts to each frame as its stream's RFC 7540 state prescribes.

Model: spec/H2Server.tla (invariant C08_Reaction against spec/RFC7540.tla!Allowed, exhaustive to a
frame bound).  Scenarios: every (abstract state, environment frame) edge TLC explored.  Binding:
lock-step replay into the real server with an x/net peer; H2ServerTrace.tla classifies what the peer
observed after each frame (nothing / RST_STREAM(code) / GOAWAY(code) / close) and requires it to be in
Tolerate(Allowed(state, frame)); dispatch only from complete legal requests.
"""
import srvfam, vlib
from srvprop import hdrs, req, finish, gen_frame_shapes


def gen_extra(ctx, thorough):
    """What the model has no notion of: (1) objects recycled through the process-wide pools - a stream the server
    itself reset, then (same connection, same goroutine, so the recycled object) a normal stream that completes and
    receives a frame RFC 7540 5.1 forbids; (2) every small shape of every frame type (shared with C17)."""
    rng = ctx.rng
    out = []
    resets = {
        'malformed': lambda sid: [{"op": "hdr", "sid": sid, "fields": hdrs(sid, "POST", [["X-Bad", "1"]]), "es": True, "pad": -1}],
        'cl-mismatch': lambda sid: [{"op": "hdr", "sid": sid, "fields": hdrs(sid, "POST", cl=9), "es": False, "pad": -1}, {"op": "data", "sid": sid, "n": 5, "es": True, "pad": -1}],
        'body-limit': lambda sid: [{"op": "hdr", "sid": sid, "fields": hdrs(sid, "POST"), "es": False, "pad": -1}, {"op": "data", "sid": sid, "n": 10, "es": False, "pad": -1}],
        'peer-rst': lambda sid: [{"op": "hdr", "sid": sid, "fields": hdrs(sid, "POST"), "es": False, "pad": -1}, {"op": "rst", "sid": sid, "code": 8}],
    }
    late = [lambda sid: {"op": "data", "sid": sid, "n": 3, "es": False, "pad": -1}, lambda sid: {"op": "data", "sid": sid, "n": 0, "es": True, "pad": -1},
            lambda sid: {"op": "hdr", "sid": sid, "fields": [["x-late", "1"]], "es": True, "pad": -1}, lambda sid: {"op": "wu", "sid": sid, "inc": 5},
            lambda sid: {"op": "rst", "sid": sid, "code": 8}]
    for name, mk in resets.items():
        for k in (1, 2, 4):
            for lf in late:
                steps, sid = [], 1
                for _ in range(k):
                    steps += mk(sid); sid += 2
                for _ in range(k):                       # as many normal streams, so that each recycled object is met
                    steps += req(sid) + [finish(sid, n=2)]; sid += 2
                steps += [lf(sid - 2)] + req(sid) + [finish(sid, n=1)]
                out.append({'tag': 'pool-history-' + name, 'cfg': {'maxConc': 8, 'maxBody': 5}, 'steps': steps})
    # frames the peer may still send on an id the server has refused (over the concurrency limit): its own RST_STREAM, body
    # DATA, trailers, WINDOW_UPDATE, PRIORITY - the id is not idle, whatever else it is
    for fr in ({"op": "rst", "sid": 5, "code": 8}, {"op": "data", "sid": 5, "n": 3, "es": True, "pad": -1}, {"op": "wu", "sid": 5, "inc": 5},
               {"op": "prio", "sid": 5, "prio": {"dep": 0, "excl": False, "weight": 3}}, {"op": "hdr", "sid": 5, "fields": [["x-t", "1"]], "es": True, "pad": -1}):
        steps = req(1) + req(3) + [{"op": "hdr", "sid": 5, "fields": hdrs(5, "POST"), "es": False, "pad": -1}, dict(fr), finish(1, n=1), finish(3, n=1)] + req(7) + [finish(7, n=1)]
        out.append({'tag': 'refused-then-frame', 'cfg': {'maxConc': 2}, 'steps': steps})
    out += gen_frame_shapes(ctx, thorough, 200)
    return out


def run(ctx):
    thorough = ctx.tier == 'thorough'
    cfg = 'H2Server_c08_t.cfg' if thorough else 'H2Server_c08_q.cfg'
    hists = srvfam.gen_from_model(ctx, cfg, workers=None if thorough else 1)   # 1 worker: deterministic BFS, reproducible sampling
    budget = 30000 if thorough else 1500
    ctx.rng.shuffle(hists)
    # keep every distinct (last event, length) class at least once, then fill up randomly
    seen, picked, rest = set(), [], []
    for h in hists:
        key = (len(h), h[-1]['op'], h[-1]['sid'], h[-1]['es'], h[-1]['eh'], h[-1]['a'])
        (picked if key not in seen else rest).append(h)
        seen.add(key)
    picked += rest[:max(0, budget - len(picked))]
    scen = []
    for i, h in enumerate(picked):
        scen.append({'id': i + 1, 'tag': 'c08', 'cfg': {'maxConc': 2, 'initWin': 2, 'maxBody': 3, 'unit': 1},
                     'steps': srvfam.concretise(h, unit=1, maxwin_m=8, rng=ctx.rng), 'abs': h})
    extra = gen_extra(ctx, thorough)
    for j, e in enumerate(extra):
        e['id'] = len(scen) + j + 1
    scen += extra
    ctx.nontrivial = len({json_key(h) for h in picked if len(h) >= 2}) + len(extra)
    ctx.rule = ('environment histories = every (abstract server state, peer frame / handler completion) edge of H2Server.tla up to '
                '%d steps over ids {1,3,5}(+2,0), sampled to the budget keeping every distinct last-event class; each is replayed in '
                'lock-step into the real server; non-trivial = distinct history of length >= 2. PLUS generator scenarios for what the model has '
                'no notion of: pool history (streams the server reset, then normal streams on the same connection that complete and get a forbidden '
                'frame) and small frame shapes (type x flags x length 0..10 x filler).' % (4 if thorough else 3))
    ctx.assumptions = ['x/net Framer/hpack is the independent peer', 'quiescence is detected from hook counters (verif build tag)',
                       'RFC7540.tla transcribes RFC 7540 5.1/6.x; tolerance per the property (stream error may be answered by a connection error)']
    tr, _ = srvfam.run_harness(ctx, scen, 'c08')
    srvfam.judge(ctx, scen, tr, props={'C08'})
    for s in scen[:2]:
        ctx.sample({'abstract': s.get('abs'), 'steps': s['steps']})


def json_key(h):
    import json
    return json.dumps(h, sort_keys=True)


def replay(ctx, finding):
    sc = dict(finding['scenario']); sc['id'] = 1
    tr, _ = srvfam.run_harness(ctx, [sc], 'replay', shards=1)
    srvfam.judge(ctx, [sc], tr, props={'C08'}, confirm=False)
