"""C04 - HPACK encoder output decodes to the same list and keeps the tables in sync.

Spec: spec/HpackWire.tla + spec/Hpack.tla (RFC 7541), design model spec/HpackModel.tla, judge
spec/HpackTrace.tla.  Binding: `h2v hpackenc` calls the real AppendHeader / SetMaxTableSize with
DisableCompression / DisableDynamicTable settings and records the emitted bytes per block and the
encoder's table; HpackTrace parses the bytes (must be a complete valid RFC 7541 block), applies them to
an RFC decoder whose limit follows the SetMaxTableSize schedule and compares fields, tables, limits,
size-update placement (RFC 7541 4.2) and the representation of sensitive fields.  x/net's decoder runs
on the same bytes as oracle self-check.
"""
import props.hpack_common as hc

CMD, KIND = 'hpackenc', 'hpackenc'


def run(ctx):
    thorough = ctx.tier == 'thorough'
    ctx.rule = ('bounded-exhaustive: 3 configurations (default, DisableCompression, DisableDynamicTable) x block 1 of <=2 fields (14-template core) x '
                'SetMaxTableSize schedule {none, 0, 64, 8192, 100, 0->4096, 64->8192, 8192->64, 0->0, 4096} x block 2 of <=1 field (thorough: all 64 '
                'templates = 16 name/value shapes x store x sensitive); templates: static full match, static name match at 4 / 15 / 16 / 32 / 61, '
                'dynamic match by repetition, new name, empty value, empty name, names and values whose Huffman or raw form ends in 0x00, entry larger '
                'than a 64-octet table; every template alone / twice / twice around a resize; string lengths 0,1,126..129,254..256 (encoded) as name and '
                'as value; table sizes 30..32, 158..160; 100 stored entries (dynamic indices past 127); seeded random histories (half steering clear of '
                'the known-defect signatures). non-trivial = distinct (configuration, operation sequence).')
    ctx.assumptions = ['HpackStatic.tla is generated from golang.org/x/net (independent of /repo); Huffman.tla as in C15',
                       'SetMaxTableSize is only called between header blocks (the documented use)',
                       'sensitive inputs are made with the verif shim VerifSetSensible (the public API has no setter)',
                       'the peer decoder keeps its current maximum until told otherwise; the encoder table logged after each block is compared with it',
                       'spec is cross-checked against x/net on every block (SELFBAD => inconclusive)']
    hc.model_check(ctx)
    seed = ctx.seed
    if not thorough:
        hc.round_(ctx, CMD, KIND, 'ex,bound,rand', 'quick', ['--seed', seed, '--n', 300], sample=True)
    else:
        hc.round_(ctx, CMD, KIND, 'ex,bound,rand', 'base', ['--seed', seed, '--n', 6000], sample=True)
        parts = 4
        for p in range(parts):
            hc.round_(ctx, CMD, KIND, 'exfull', 'exfull[%d/%d]' % (p, parts), ['--part', p, '--parts', parts])
    ctx.exhaustive = True
    ctx.extra['exhaustive_domains'] = ['configuration x block1<=2 (core) x resize schedule x block2<=1 (%s)' % ('all templates' if thorough else 'core')]


def replay(ctx, finding):
    hc.replay(ctx, finding, CMD)
