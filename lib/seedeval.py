#!/usr/bin/env python3
"""Evaluate seeded defects: for each <dir> (patch.diff, seeded_demo_test.go, meta.json) apply the patch in a scratch
worktree of /repo HEAD, confirm the demo fails with / passes without the patch, run the property's quick check with
VERIF_REPO=<worktree> and record whether it raised a VIOLATION.  usage: seedeval.py <srcdir> [ids...]"""
import json, os, subprocess, sys, shutil, time
V = os.path.dirname(os.path.dirname(os.path.abspath(__file__)))
WT = '/tmp/wt-seed'
ENV = dict(os.environ, GOFLAGS='-mod=mod', GOPROXY='off')

def sh(cmd, cwd=None, env=None, timeout=1800):
    p = subprocess.run(cmd, shell=True, cwd=cwd, env=env or ENV, stdout=subprocess.PIPE, stderr=subprocess.STDOUT, text=True, timeout=timeout)
    return p.returncode, p.stdout

def main():
    src = sys.argv[1]
    ids = sys.argv[2:] or sorted(d for d in os.listdir(src) if os.path.isdir(os.path.join(src, d)) and os.path.exists(os.path.join(src, d, 'patch.diff')))
    if not os.path.exists(WT):
        sh('git -C /repo worktree add --detach %s HEAD' % WT)
    head = sh('git -C /repo rev-parse HEAD')[1].strip()
    sh('git reset -q --hard && git clean -fdq && git checkout -q --detach %s' % head, cwd=WT)
    results = {}
    for d in ids:
        sd = os.path.join(src, d)
        meta = json.load(open(os.path.join(sd, 'meta.json')))
        prop = meta['property']
        res = {'property': prop, 'summary': meta.get('summary', '')[:200]}
        sh('git reset -q --hard && git clean -fdq', cwd=WT)
        shutil.copy(os.path.join(sd, 'seeded_demo_test.go'), os.path.join(WT, 'seeded_demo_test.go'))
        rc0, out0 = sh('go test -vet=off -count=1 -run TestSeededDemo . 2>&1 | tail -5', cwd=WT, timeout=900)
        res['demo_passes_without'] = ('FAIL' not in out0 and 'ok' in out0)
        rc, out = sh('git apply %s 2>&1' % os.path.join(sd, 'patch.diff'), cwd=WT)
        res['applies'] = rc == 0
        if rc != 0:
            res['apply_out'] = out[-400:]
            results[d] = res; print(d, res, flush=True); continue
        rcb, outb = sh('go build ./... && go vet . 2>&1 | tail -3', cwd=WT)
        res['builds'] = rcb == 0
        rc1, out1 = sh('go test -vet=off -count=1 -run TestSeededDemo . 2>&1 | tail -5', cwd=WT, timeout=900)
        res['demo_fails_with'] = 'FAIL' in out1
        os.remove(os.path.join(WT, 'seeded_demo_test.go'))
        t = time.time()
        rcc, outc = sh('./check %s --tier quick' % prop, cwd=V, env=dict(os.environ, VERIF_REPO=WT), timeout=1800)
        res['check_rc'] = rcc
        res['check_s'] = round(time.time() - t)
        res['caught'] = rcc == 1 and 'VIOLATION property=%s' % prop in outc
        res['check_tail'] = [l[:220] for l in outc.splitlines() if l.startswith('VIOLATION') or l.startswith('INCONCLUSIVE') or 'tier=' in l][:4]
        results[d] = res
        print(d, json.dumps(res), flush=True)
        sh('rm -f %s/findings/%s-*' % (V, prop))
    sh('git reset -q --hard && git clean -fdq', cwd=WT)
    json.dump(results, open('/tmp/seedeval.json', 'w'), indent=1)

main()
