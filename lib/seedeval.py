#!/usr/bin/env python3
"""Evaluate seeded defects: for each <dir> (patch.diff, seeded_demo_test.go, meta.json) apply the patch in a scratch
worktree of /repo HEAD, confirm the demo fails with / passes without the patch, run the property's quick check with
VERIF_REPO=<worktree> and record whether it raised a VIOLATION.  The checks run from a snapshot copy of /verif (so that
work on /verif can go on meanwhile and /verif/evidence is not overwritten by runs against a changed tree); results are
merged into <dir>/meta.json ("evaluation") and seeded/RESULTS.md is regenerated.  usage: seedeval.py <srcdir> [ids...]"""
import json, os, subprocess, sys, shutil, time
V = os.path.dirname(os.path.dirname(os.path.abspath(__file__)))
SFX = os.environ.get('SEEDEVAL_SUFFIX', '')     # a second instance can run beside the first with its own worktree and snapshot
WT = '/tmp/wt-seed' + SFX
SNAP = '/tmp/verif-snap' + SFX
ENV = dict(os.environ, GOFLAGS='-mod=mod', GOPROXY='off')

def sh(cmd, cwd=None, env=None, timeout=1800):
    p = subprocess.run(cmd, shell=True, cwd=cwd, env=env or ENV, stdout=subprocess.PIPE, stderr=subprocess.STDOUT, text=True, timeout=timeout)
    return p.returncode, p.stdout

def main():
    src = sys.argv[1]
    ids = sys.argv[2:] or sorted(d for d in os.listdir(src) if os.path.isdir(os.path.join(src, d)) and os.path.exists(os.path.join(src, d, 'patch.diff')))
    if not os.path.exists(WT):
        sh('git -C /repo worktree add --detach %s HEAD' % WT)
    head = sh('git -C /repo rev-parse HEAD')[1].strip()
    sh('git reset -q --hard && git clean -fdq && git checkout -q --detach %s' % head, cwd=WT)
    results = {}
    sh('rm -rf %s && mkdir -p %s && rsync -a --exclude .git --exclude findings --exclude seeded %s/ %s/' % (SNAP, SNAP, V, SNAP))
    for d in ids:
        sd = os.path.join(src, d)
        meta = json.load(open(os.path.join(sd, 'meta.json')))
        prop = meta['property'][:3]
        res = {'property': prop, 'summary': meta.get('summary', '')[:200]}
        sh('git reset -q --hard && git clean -fdq', cwd=WT)
        shutil.copy(os.path.join(sd, 'seeded_demo_test.go'), os.path.join(WT, 'seeded_demo_test.go'))
        race = '-race ' if meta.get('demo_needs_race') else ''
        denv = dict(ENV, CGO_ENABLED='1') if race else ENV
        rc0, out0 = sh('go test %s-vet=off -count=1 -run TestSeededDemo . 2>&1 | tail -5' % race, cwd=WT, env=denv, timeout=900)
        res['demo_passes_without'] = ('FAIL' not in out0 and 'ok' in out0)
        rc, out = sh('git apply %s 2>&1' % os.path.join(sd, 'patch.diff'), cwd=WT)
        res['applies'] = rc == 0
        if rc != 0:
            res['apply_out'] = out[-400:]
            results[d] = res; print(d, res, flush=True); continue
        rcb, outb = sh('go build ./... && go vet . 2>&1 | tail -3', cwd=WT)
        res['builds'] = rcb == 0
        rc1, out1 = sh('go test %s-vet=off -count=1 -run TestSeededDemo . 2>&1 | tail -5' % race, cwd=WT, env=denv, timeout=900)
        res['demo_fails_with'] = 'FAIL' in out1
        os.remove(os.path.join(WT, 'seeded_demo_test.go'))
        t = time.time()
        rcc, outc = sh('./check %s --tier quick' % prop, cwd=SNAP, env=dict(os.environ, VERIF_REPO=WT), timeout=1800)
        res['check_rc'] = rcc
        res['check_s'] = round(time.time() - t)
        res['caught'] = rcc == 1 and 'VIOLATION property=%s' % prop in outc
        res['check_tail'] = [l[:220] for l in outc.splitlines() if l.startswith('VIOLATION') or l.startswith('INCONCLUSIVE') or 'tier=' in l][:4]
        results[d] = res
        print(d, json.dumps(res), flush=True)
        ev = meta.get('evaluation', {})
        first = ev['first_pass'] if 'first_pass' in ev else res['caught']
        meta['evaluation'] = {'applied_to': 'scratch worktree of /repo HEAD %s (lib/seedeval.py)' % head[:7],
                              'demo_fails_with_patch': res['demo_fails_with'], 'demo_passes_without_patch': res['demo_passes_without'],
                              'check': './check %s --tier quick (VERIF_REPO=<worktree>)' % prop, 'check_exit': rcc, 'caught': res['caught'],
                              'first_pass': first, 'first_violation': (res['check_tail'] or [''])[0]}
        json.dump(meta, open(os.path.join(sd, 'meta.json'), 'w'), indent=1)
    sh('git reset -q --hard && git clean -fdq', cwd=WT)
    json.dump(results, open('/tmp/seedeval%s.json' % SFX, 'w'), indent=1)
    sh('rm -rf %s' % SNAP)
    results_md(src)


def results_md(src):
    rows = []
    for d in sorted(os.listdir(src)):
        mp = os.path.join(src, d, 'meta.json')
        if not os.path.exists(mp):
            continue
        m = json.load(open(mp)); e = m.get('evaluation', {})
        cell = lambda s: str(s).replace('|', '/').replace('\n', ' ')[:160]
        rows.append('| %s | %s | %s | %s | %s | %s |' % (d, m.get('property'), cell(m.get('summary', '')), cell(m.get('needs', '')),
                    'yes' if e.get('caught') else ('NO' if 'caught' in e else 'not evaluated'),
                    'yes' if e.get('first_pass') else ('no (check strengthened)' if e.get('caught') else 'no')))
    with open(os.path.join(src, 'RESULTS.md'), 'w') as f:
        f.write('# Seeded changes and the checks that report them\n\nWritten by lib/seedeval.py runs (see DESIGN.md section 13). '
                '`first pass` = reported by the check as it was before the change was seen.\n\n'
                '| id | property | change | needs | reported by quick check | first pass |\n|---|---|---|---|---|---|\n' + '\n'.join(rows) + '\n')

main()
