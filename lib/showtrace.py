#!/usr/bin/env python3
"""Debug helper: replay a saved finding (or a scenario json) through the real server and print the trace compactly."""
import sys, json, os, subprocess, tempfile
sys.path.insert(0, os.path.dirname(os.path.abspath(__file__)))
import vlib
TY = {0:'DATA',1:'HEADERS',2:'PRIORITY',3:'RST',4:'SETTINGS',5:'PUSH',6:'PING',7:'GOAWAY',8:'WU',9:'CONT'}
def fs(f):
    keys = ['sid','len','es','eh','ack','inc','code','last','dep','hbad','sbad','iw','xfl','padbad','pad']
    d = {k: f[k] for k in keys if f.get(k) not in (0, False, -1, None)}
    s = '%s %s' % (TY.get(f['ty'], f['ty']), d)
    if f.get('fields'):
        s += ' ' + str([(bytes(n).decode('latin1'), bytes(v).decode('latin1')[:20]) for n, v in f['fields']])
    return s
def main():
    obj = json.load(open(sys.argv[1]))
    sc = obj.get('scenario', obj)
    sc['id'] = 1
    ctx = vlib.Ctx('DBG', 'quick', 1)
    exe = ctx.harness()
    p = os.path.join(ctx.scratch, 's'); vlib.write_ndjson(p, [sc])
    cli = any(st.get('op') in ('call', 'resp', 'srvclose') for st in sc['steps'])
    subprocess.run([exe, 'cli' if cli else 'srv', '--in', p, '--out', p + '.tr'], check=True)
    tr = json.loads(open(p + '.tr.0').readline())
    if 'abs' in sc and sc['abs'] and isinstance(sc['abs'][0], dict): print('ABS', [tuple(e.values()) for e in sc['abs']])
    for e in tr['evs']:
        k = e['k']
        if k in ('send', 'recv'): print('%-5s %s%s' % (k, ('r%s ' % e['req']) if 'req' in e else '', fs(e['f'])))
        elif k == 'q' and cli: print('  q   open=%d pending=%d queued=%d closed=%s canopen=%s%s' % (e['open'], e['pending'], e['queued'], e['closed'], e['canopen'], ' SETTLED' if e['settled'] else ''))
        elif k == 'q': print('  q   run=%d strms=%d open=%d ring=%d%s' % (e['running'], e['strms'], e['open'], e['ring'], ' SETTLED' if e['settled'] else ''))
        elif k == 'hstart': print('HSTART sid=%d %s %s blen=%d fields=%s' % (e['sid'], bytes(e['method']).decode(), bytes(e['path']).decode(), e['blen'], [(bytes(n).decode('latin1'), bytes(v).decode('latin1')[:20]) for n, v in e['fields']]))
        else: print(k.upper(), {a: (b if a != 'fields' else [(bytes(n).decode('latin1'), bytes(v).decode('latin1')[:20]) for n, v in b]) for a, b in e.items() if a != 'k'})
    if len(sys.argv) > 2:
        import srvfam
        tf = os.path.join(ctx.scratch, 'one.tr'); open(tf, 'w').write(json.dumps(dict(tr, t=1)) + '\n')
        if cli:
            import cliprop
            bad = cliprop.judge(ctx, [sc], tf, {'C02','C07','C11','C12','C14','C18','C20'}, confirm=False)
        else:
            bad, r = srvfam.validate(ctx, tf)
        print('VERDICT', bad)
    import shutil; shutil.rmtree(ctx.scratch, ignore_errors=True)
main()
