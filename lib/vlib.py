"""Common machinery for the /verif checks.

Every check follows the same pipeline (DESIGN.md section 2):
  1. TLC model-checks the design-level TLA+ module of the property family
     (exhaustive on small constants) -> states / transitions for the evidence;
     a failure there is a specification problem (exit 2), never a violation.
  2. scenarios / inputs are produced (many by TLC itself: behaviours of the
     model's environment half), the Go harness `h2v` (built from /repo's
     working tree with -tags verif) replays them into the real code and
     records ndjson traces;
  3. TLC validates the recorded traces against the *Trace.tla module of the
     family; only a rejected real-code trace is a VIOLATION (exit 1);
  4. rejected traces are matched against /verif/known_findings.json
     (re-validated with that one defect tolerated) -> KNOWN-FINDING lines.
"""
import json, os, re, shutil, subprocess, sys, tempfile, time, glob, hashlib, random

VERIF = os.path.dirname(os.path.dirname(os.path.abspath(__file__)))
REPO = '/repo'
SPEC = os.path.join(VERIF, 'spec')
HARNESS = os.path.join(VERIF, 'harness')
NCPU = os.cpu_count() or 4
TLA_CP = '/opt/veriftools/tla/tla2tools.jar:/opt/veriftools/tla/CommunityModules-deps.jar'


def go_bin():
    cands = ['/root/go/pkg/mod/golang.org/toolchain@v0.0.1-go1.25.0.linux-amd64/bin/go',
             '/usr/local/bin/go1.26']
    for c in cands:
        if os.path.exists(c):
            return c
    return 'go'


def go_env():
    e = dict(os.environ)
    e.update(GOFLAGS='-mod=mod', GOPROXY='off', GOSUMDB='off', GOTOOLCHAIN='local', CGO_ENABLED=e.get('CGO_ENABLED', '0'))
    return e


class Inconclusive(Exception):
    pass


class TLCResult:
    def __init__(self, rc, out, wall):
        self.rc, self.out, self.wall = rc, out, wall
        m = re.search(r'(\d+) states generated, (\d+) distinct states found', out)
        self.generated = int(m.group(1)) if m else 0
        self.distinct = int(m.group(2)) if m else 0
        # simulation mode prints a different summary
        m2 = re.search(r'The number of states generated: (\d+)', out)
        if m2 and not m:
            self.generated = int(m2.group(1)); self.distinct = self.generated
        self.ok = (rc == 0 and 'Error:' not in out)
        self.lines = out.splitlines()

    def printed(self, prefix):
        """Values printed by PrintT("<prefix> ...") in the spec (TLA+ quoted strings)."""
        res = []
        for ln in self.lines:
            ln = ln.strip()
            if ln.startswith('"' + prefix):
                try:
                    s = json.loads(ln)
                except Exception:
                    s = ln.strip('"').replace('\\"', '"').replace('\\\\', '\\')
                res.append(s[len(prefix):].strip())
        return res

    def error_text(self):
        keep = [l for l in self.lines if not re.match(r'^(Linting|Semantic processing|Parsing file|Starting|Computing|Finished|Progress|TLC2|Running|Warning: Please|\(Use the|Picked up)', l)]
        txt = '\n'.join(keep[-40:])
        i = self.out.find('Fingerprint Stack Trace')
        if i >= 0:
            txt += '\n' + self.out[i:i + 1500]
        return txt


class Ctx:
    def __init__(self, prop, tier, seed, level='model_checking'):
        self.prop, self.tier, self.seed, self.level = prop, tier, seed, level
        self.t0 = time.time()
        self.scratch = tempfile.mkdtemp(prefix='verif-%s-' % prop)
        self.specdir = os.path.join(self.scratch, 'spec')
        shutil.copytree(SPEC, self.specdir)
        self._harness = {}
        self.states = 0
        self.transitions = 0
        self.traces = 0
        self.evaluations = 0
        self.nontrivial = 0
        self.samples = []
        self.violations = []      # (what, replay_path)
        self.known_hits = []      # strings
        self.notes = []
        self.inconclusive = []
        self.extra = {}
        self.rule = ''
        self.assumptions = []
        self.checker_cmds = []
        self.exhaustive = False
        self.rng = random.Random(seed)
        self.models = []

    # ---------------------------------------------------------------- build
    def harness(self, race=False, tags=('verif',)):
        key = (race, tuple(tags))
        if key in self._harness:
            return self._harness[key]
        # VERIF_REPO=<dir> builds against another checkout of dgrr/http2 (a scratch worktree with a
        # candidate fix or a seeded mutation) instead of /repo: the harness is copied and its
        # `replace` line rewritten, /verif/harness itself is left alone.
        hdir = HARNESS
        repo = os.environ.get('VERIF_REPO', REPO)
        if repo != REPO:
            hdir = os.path.join(self.scratch, 'harness-src')
            if not os.path.exists(hdir):
                shutil.copytree(HARNESS, hdir)
                gm = open(os.path.join(hdir, 'go.mod')).read().replace('=> /repo', '=> ' + repo)
                open(os.path.join(hdir, 'go.mod'), 'w').write(gm)
        shutil.copy(os.path.join(repo, 'go.sum'), os.path.join(hdir, 'go.sum'))
        out = os.path.join(self.scratch, 'h2v' + ('-race' if race else ''))
        cmd = [go_bin(), 'build', '-tags', ','.join(tags), '-o', out]
        env = go_env()
        if race:
            cmd.insert(2, '-race'); env['CGO_ENABLED'] = '1'
        cmd.append('.')
        p = subprocess.run(cmd, cwd=hdir, env=env, stdout=subprocess.PIPE, stderr=subprocess.STDOUT, text=True)
        if p.returncode != 0:
            raise Inconclusive('harness build failed:\n' + p.stdout[-3000:])
        self._harness[key] = out
        return out

    def h2v(self, args, race=False, timeout=3600, env=None, check=True):
        exe = self.harness(race=race)
        e = dict(os.environ)
        if env:
            e.update(env)
        t = time.time()
        p = subprocess.run([exe] + [str(a) for a in args], cwd=self.scratch, env=e, stdout=subprocess.PIPE,
                           stderr=subprocess.PIPE, text=True, timeout=timeout)
        if check and p.returncode != 0:
            raise Inconclusive('h2v %s failed rc=%d:\n%s' % (' '.join(map(str, args[:3])), p.returncode, (p.stdout + p.stderr)[-3000:]))
        return p

    # ------------------------------------------------------------------ TLC
    def tlc(self, module, cfg=None, workers=None, env=None, timeout=1500, extra=(), heap=None, simulate=None, deadlock_ok=True, jvm=()):
        workers = workers or NCPU
        cfg = cfg or (module + '.cfg')
        md = tempfile.mkdtemp(prefix='md-', dir=self.scratch)
        # java is called directly (not through the `tlc` wrapper) so that -Xss is on the command
        # line: the launcher then gives the *main* thread (ASSUMEs, initial states) the big stack too.
        jtmp = os.path.join(self.scratch, 'jtmp')       # TLC unpacks its standard modules into java.io.tmpdir: keep that inside the scratch directory
        os.makedirs(jtmp, exist_ok=True)
        cmd = ['timeout', str(timeout), 'java', '-Xss512m', '-Djava.io.tmpdir=' + jtmp] + list(jvm) + (['-Xmx' + heap] if heap else []) + [
               '-XX:+UseParallelGC', '-cp', TLA_CP, 'tlc2.TLC',
               '-workers', str(workers), '-metadir', md, '-fpmem', '0.05', '-config', cfg]
        if simulate:
            cmd += ['-simulate', simulate]
        cmd += list(extra) + [module + '.tla']
        e = dict(os.environ)
        e.pop('JAVA_TOOL_OPTIONS', None)
        if env:
            e.update({k: str(v) for k, v in env.items()})
        t = time.time()
        p = subprocess.run(cmd, cwd=self.specdir, env=e, stdout=subprocess.PIPE, stderr=subprocess.STDOUT, text=True)
        shutil.rmtree(md, ignore_errors=True)
        r = TLCResult(p.returncode, p.stdout, time.time() - t)
        self.checker_cmds.append(' '.join(cmd[2:]))
        return r

    def model_check(self, module, cfg=None, **kw):
        """Design-level exhaustive run; failure => Inconclusive (a model problem)."""
        r = self.tlc(module, cfg, **kw)
        if not r.ok:
            raise Inconclusive('model %s/%s did not check clean (rc=%d):\n%s' % (module, cfg, r.rc, r.error_text()))
        self.states += r.distinct
        self.transitions += r.generated
        self.models.append({'module': module, 'cfg': cfg or module + '.cfg', 'distinct': r.distinct, 'generated': r.generated, 'wall_s': round(r.wall, 1)})
        return r

    def model_expect_violation(self, module, cfg, what, **kw):
        """The same model with a named design defect switched on MUST violate `what` (an invariant / property name):
        guards against a vacuous model.  Anything else => Inconclusive."""
        r = self.tlc(module, cfg, **kw)
        if r.ok or what not in r.out:
            raise Inconclusive('model %s/%s was expected to violate %s and did not (vacuous model?):\n%s' % (module, cfg, what, r.out[-1500:]))
        self.models.append({'module': module, 'cfg': cfg, 'expected_violation': what, 'wall_s': round(r.wall, 1)})
        return r

    def validate(self, module, tracefile, cfg=None, env=None, chunk=None, **kw):
        """Trace validation run.  Returns TLCResult; TLC failure => Inconclusive.  A file with more than `chunk` traces is
        validated in pieces (one JVM each): the Json module holds a whole file in memory, and the thorough tiers record
        tens of thousands of traces."""
        with open(tracefile) as f:
            nlines = sum(1 for _ in f)
        if chunk and nlines > chunk:
            outs, wall, k = [], 0.0, 0
            with open(tracefile) as f:
                part = []
                def flush():
                    nonlocal part, k, wall
                    if not part:
                        return
                    p = '%s.part%d' % (tracefile, k)
                    with open(p, 'w') as pf:
                        pf.writelines(part)
                    r = self.validate(module, p, cfg=cfg, env=env, chunk=10 ** 9, **kw)
                    outs.append(r.out); wall += r.wall
                    os.remove(p)
                    part, k = [], k + 1
                for ln in f:
                    part.append(ln)
                    if len(part) >= chunk:
                        flush()
                flush()
            return TLCResult(0, '\n'.join(outs), wall)
        e = {'VERIF_TRACE': tracefile}
        if env:
            e.update(env)
        r = self.tlc(module, cfg, env=e, **kw)
        if not r.ok:
            raise Inconclusive('trace validation %s crashed (rc=%d):\n%s' % (module, r.rc, r.error_text()))
        self.states += r.distinct
        self.transitions += r.generated
        return r

    # ------------------------------------------------------------- verdicts
    def save_finding(self, name, obj):
        d = os.path.join(VERIF, 'findings')
        os.makedirs(d, exist_ok=True)
        h = hashlib.sha1(json.dumps(obj, sort_keys=True).encode()).hexdigest()[:10]
        path = os.path.join(d, '%s-%s-%s.json' % (self.prop, name, h))
        obj = dict(obj); obj['property'] = self.prop
        with open(path, 'w') as f:
            json.dump(obj, f, indent=1)
        return path

    def violation(self, what, finding):
        path = self.save_finding(re.sub(r'[^A-Za-z0-9]+', '_', what)[:40], finding)
        self.violations.append((what, path))
        print('VIOLATION property=%s replay=%s  # %s' % (self.prop, path, what), flush=True)

    def known(self, what):
        self.known_hits.append(what)
        print('KNOWN-FINDING: property=%s %s' % (self.prop, what), flush=True)

    def report(self, cls, what, finding):
        """A rejected real-code trace/line.  `cls` is the defect signature the TRACE SPEC computed for it
        ("none" when it matches no listed signature).  Listed in known_findings.json (status finding) =>
        KNOWN-FINDING (printed once per class), anything else => VIOLATION."""
        if not hasattr(self, '_known'):
            self._known = {k['class']: k for k in load_known(self.prop)}
            self._known_seen = {}
        if cls in self._known:
            self._known_seen[cls] = self._known_seen.get(cls, 0) + 1
            if self._known_seen[cls] == 1:
                self.known('%s: %s' % (cls, self._known[cls].get('what', '')))
            return False
        self.violation(what, finding)
        return True

    def sample(self, obj):
        if len(self.samples) < 4:
            self.samples.append(obj)

    # -------------------------------------------------------------- evidence
    def finish(self, rc=None):
        wall = time.time() - self.t0
        cov = {
            'states': max(self.states, 0), 'transitions': max(self.transitions, 0),
            'traces_validated_against_impl': self.traces,
            'evaluations': self.evaluations, 'distinct_nontrivial': self.nontrivial,
            'rule': self.rule, 'samples': self.samples or ['(no sample recorded)'],
            'checker_cmd': ' ; '.join(self.checker_cmds[:6]),
            'exhaustive': self.exhaustive, 'models': self.models,
            'known_findings_hit': self.known_hits, 'inconclusive': self.inconclusive,
        }
        cov.update(self.extra)
        ev = {'property_id': self.prop, 'tier': self.tier, 'seed': self.seed, 'level': self.level,
              'coverage': cov, 'assumptions': self.assumptions, 'wall_s': round(wall, 2),
              'violations': len(self.violations)}
        # evidence/ describes /repo only: a run against another checkout (VERIF_REPO, used to evaluate seeded
        # changes) leaves its record under findings/ (not committed)
        evdir = os.path.join(VERIF, 'findings', 'evidence-other-tree') if os.environ.get('VERIF_REPO') else os.path.join(VERIF, 'evidence')
        os.makedirs(evdir, exist_ok=True)
        with open(os.path.join(evdir, self.prop + '.json'), 'w') as f:
            json.dump(ev, f, indent=1, default=str)
        if os.environ.get('VERIF_KEEP'):
            print('scratch kept at', self.scratch)
        else:
            shutil.rmtree(self.scratch, ignore_errors=True)
        if rc is not None:
            return rc
        if self.violations:
            return 1
        if self.inconclusive:
            return 2
        return 0


def run_proc(cmd, cwd, timeout, env=None):
    """subprocess.run for a harness process that may hang because the code under test has dead-locked: on timeout the
    process gets SIGQUIT (a Go program then dumps every goroutine's stack) and is reaped; returns
    (returncode, stdout, stderr, hung)."""
    import signal
    p = subprocess.Popen(cmd, cwd=cwd, env=env, stdout=subprocess.PIPE, stderr=subprocess.PIPE, text=True)
    try:
        out, err = p.communicate(timeout=timeout)
        return p.returncode, out, err, False
    except subprocess.TimeoutExpired:
        p.send_signal(signal.SIGQUIT)
        try:
            out, err = p.communicate(timeout=30)
        except subprocess.TimeoutExpired:
            p.kill()
            out, err = p.communicate()
        return (p.returncode if p.returncode else 2), out, 'fatal error: harness process hung (SIGQUIT after %ds)\n' % timeout + err, True


def load_known(prop):
    p = os.path.join(VERIF, 'known_findings.json')
    if not os.path.exists(p):
        return []
    return [k for k in json.load(open(p)) if k.get('property') == prop and k.get('status') == 'finding']


def read_ndjson(path):
    out = []
    with open(path) as f:
        for ln in f:
            ln = ln.strip()
            if ln:
                out.append(json.loads(ln))
    return out


def write_ndjson(path, rows):
    with open(path, 'w') as f:
        for r in rows:
            f.write(json.dumps(r, separators=(',', ':')) + '\n')
