"""Client family (C02 C07 C11 C12 + client halves of C14 C18 C20).

 spec/H2Client.tla + cfg --TLC--> environment histories (caller actions + server frames)
 concretise()            ------->  steps for `h2v cli` (real http2.Conn, scripted x/net server peer)
 spec/H2ClientTrace.tla  --TLC-->  "BAD <t> [clauses]"
"""
import json, os, re, subprocess, concurrent.futures
import vlib, srvfam

MAXWIN = 2**31 - 1


def concretise(hist, unit=1, rng=None, variety=True):
    steps = []
    called = []
    for ev in hist:
        op, i, a, b, es = ev['op'], ev['req'], ev['a'], ev['b'], ev['es']
        if op == 'call':
            n = a
            st = {"op": "call", "req": i, "method": "POST" if n else rng.choice(["GET", "GET", "HEAD", "DELETE"]) if variety else "GET"}
            if variety:
                st["fields"] = rng.choice([[], [["x-a", "b"]], [["accept", "*/*"], ["x-long", "v" * rng.choice([1, 40, 200])]],
                                           [["cookie", "a=b"]], [["connection", "keep-alive"], ["x-k", "1"]], [["user-agent", "verif-cli/1"]]])
            if n:
                st["body"] = {"kind": rng.choice(["buf", "stream", "streamcl"]) if variety else "buf", "n": n,
                              "chunk": rng.choice([0, 1000, 16384]) if variety else 0, "eof": rng.choice([0, 1]) if variety else 0}
            steps.append(st)
            called.append(i)
        elif op == 'resp':
            st = {"op": "resp", "req": i, "status": rng.choice([200, 200, 204, 404, 500]) if variety else 200, "es": es, "pad": -1,
                  "fields": rng.choice([[], [["x-r", "1"]], [["server", "verif"], ["x-long", "w" * 60]], [["set-cookie", "a=b"], ["set-cookie", "c=d"]]]) if variety else []}
            if a == 2:   # informational response: 1xx, never ends the stream
                st["status"] = rng.choice([100, 103, 103]) if variety else 103
                st["fields"] = [["link", "</s.css>; rel=preload"]] if st["status"] == 103 else []
                st["es"] = False
            if a == 1:   # malformed response
                bad = rng.choice(['upper', 'nostatus', 'dupstatus', 'conn', 'cl', 'pseudo'])
                if bad == 'upper':
                    st["fields"] = st["fields"] + [["X-Upper", "1"]]
                elif bad == 'nostatus':
                    st["rawfields"] = True; st["fields"] = [["x-r", "1"]]
                elif bad == 'dupstatus':
                    st["rawfields"] = True; st["fields"] = [[":status", "200"], [":status", "404"]]
                elif bad == 'conn':
                    st["fields"] = st["fields"] + [["connection", "close"]]
                elif bad == 'cl':
                    st["fields"] = st["fields"] + [["content-length", "abc"]]
                else:
                    st["rawfields"] = True; st["fields"] = [[":status", "200"], [":path", "/x"]]
            if variety and rng.random() < 0.4:
                st["split"] = sorted(rng.sample(range(1, 60), rng.choice([1, 2])))
            if variety and rng.random() < 0.2:
                st["pad"] = rng.choice([0, 5])
            steps.append(st)
        elif op == 'data':
            st = {"op": "data", "req": i, "n": a * unit, "es": es, "pad": -1}
            if variety and a and rng.random() < 0.3:
                st["pad"] = rng.choice([0, 9])
            steps.append(st)
        elif op == 'rst':
            steps.append({"op": "rst", "req": i, "code": a})
        elif op == 'goaway':
            st = {"op": "goaway", "code": rng.choice([0, 0, 2, 11]) if variety else 0, "last": 0}
            if a == 1 and called:
                st["lastreq"] = min(called)
            elif a == 2 and called:
                st["lastreq"] = max(called)
            steps.append(st)
        elif op == 'wu':
            steps.append({"op": "wu", "req": i, "inc": a * unit})
        elif op == 'settings':
            steps.append({"op": "settings", "pairs": [[4, a * unit]]})
        elif op == 'mfs':
            steps.append({"op": "settings", "pairs": [[5, {1: 16384, 2: 32768, 3: 65536}[a]]]})
        elif op == 'srvclose':
            steps.append({"op": "srvclose"})
        elif op == 'close':
            steps.append({"op": "close"})
        elif op == 'cancel':
            steps.append({"op": "cancel", "req": i})
        else:
            raise ValueError(op)
    return steps


def run_harness(ctx, scenarios, label, shards=None, race=False, timeout=900):
    shards = shards or min(vlib.NCPU, max(1, len(scenarios) // 20))
    files = []
    for i in range(shards):
        part = scenarios[i::shards]
        if part:
            p = os.path.join(ctx.scratch, '%s.scen.%d' % (label, i))
            vlib.write_ndjson(p, part)
            files.append(p)
    exe = ctx.harness(race=race)

    def one(p):
        out = p + '.tr'
        # a shard normally takes well under a second per scenario; a harness that is still running long after that is
        # stuck in the code under test (run_proc then asks it for its goroutines' stacks)
        rc, so, se, hung = vlib.run_proc([exe, 'cli', '--in', p, '--out', out], ctx.scratch, max(240, 3 * sum(1 for _ in open(p))) if timeout == 900 else timeout)
        pr = subprocess.CompletedProcess([exe], rc, so, se)
        return p, out + '.0', pr
    merged = os.path.join(ctx.scratch, label + '.traces')
    racelog = []
    with concurrent.futures.ThreadPoolExecutor(max_workers=max(1, len(files))) as ex, open(merged, 'w') as mf:
        for p, out, pr in ex.map(one, files):
            if 'WARNING: DATA RACE' in pr.stderr:
                racelog.append(pr.stderr[-6000:])
            elif pr.returncode != 0 and ('all goroutines are asleep' in pr.stderr or 'fatal error:' in pr.stderr or 'panic:' in pr.stderr) \
                    and 'github.com/dgrr/http2.' in pr.stderr:
                # the Go runtime gave up on the process with the library on the stack (global deadlock, fatal error,
                # panic outside any recover): a fact about the code under test, judged by crashed() below
                if not hasattr(ctx, 'crashes'):
                    ctx.crashes = []
                ctx.crashes.append((p, pr.stderr[-6000:]))
                if os.path.exists(out):
                    os.remove(out)          # whatever it wrote before dying may end in half a line
                continue
            elif pr.returncode != 0:
                raise vlib.Inconclusive('h2v cli failed on %s rc=%d: %s' % (p, pr.returncode, (pr.stdout + pr.stderr)[-2000:]))
            if os.path.exists(out):
                with open(out) as f:
                    for ln in f:
                        mf.write(ln)
                os.remove(out)
    return merged, racelog


def _validate(ctx, tracefile):
    r = ctx.validate('H2ClientTrace', tracefile, chunk=2500)
    bad = {}
    for s in r.printed('BAD'):
        m = re.match(r'(\d+) (.*)$', s, re.S)
        if m:
            try:
                bad[int(m.group(1))] = json.loads(m.group(2))
            except Exception:
                bad[int(m.group(1))] = [m.group(2)]
    return bad


def judge(ctx, scenarios, tracefile, props, label='cli', confirm=True):
    n = sum(1 for _ in open(tracefile))
    bad = _validate(ctx, tracefile)
    ctx.traces += n
    ctx.evaluations += n
    byid = {s['id']: s for s in scenarios}
    others, percls, conf = {}, {}, {}
    ctx.extra.setdefault('rejected_by_clause', {})

    def rerun(scs, lab):
        tr, _ = run_harness(ctx, scs, lab, shards=1)
        return _validate(ctx, tr)
    xseen = 0
    for t, clauses in sorted(bad.items()):
        for c in clauses:
            p = c.split(':', 1)[0]
            if p == 'X':
                # a harness-level trouble (quiescence not reached in time, driver panic) makes the run inconclusive only if
                # it happens again when the scenario is replayed on its own: under load one slow scheduling turn is enough
                if (not confirm) or xseen < 3 and srvfam.confirmed(ctx, byid.get(t), c, rerun):
                    ctx.inconclusive.append('trace %d: %s' % (t, c))
                xseen += 1
                continue
            if p in props or any(c.startswith(x) for x in props if ':' in x):
                cls = c.split(' ')[0]
                percls[c] = percls.get(c, 0) + 1
                if percls[c] <= 2:
                    ok = (not confirm) or cls in getattr(ctx, '_known', {}) or srvfam.confirmed(ctx, byid.get(t), c, rerun)
                    conf[c] = conf.get(c, False) or ok
                    if ok:
                        ctx.extra['rejected_by_clause'][c] = ctx.extra['rejected_by_clause'].get(c, 0) + 1
                        ctx.report(cls, '%s: %s' % (label, c), {'kind': 'cli', 'clause': c, 'scenario': byid.get(t)})
                elif conf.get(c) and cls not in getattr(ctx, '_known', {}):
                    ctx.extra['rejected_by_clause'][c] = ctx.extra['rejected_by_clause'].get(c, 0) + 1
                    ctx.violations.append((c, '(see first two of this clause)'))
            else:
                others[c.split(' ')[0]] = others.get(c.split(' ')[0], 0) + 1
    if others:
        ctx.extra.setdefault('other_property_clauses_seen', {}).update(others)
    return bad


# ------------------------------------------------------------------ generators for what the model abstracts

def call(i, n=0, kind='buf', fields=None, method=None, chunk=0, eof=0):
    st = {"op": "call", "req": i, "method": method or ("POST" if n else "GET"), "fields": fields or []}
    if n:
        st["body"] = {"kind": kind, "n": n, "chunk": chunk, "eof": eof}
    return st


def resp(i, status=200, fields=None, es=False, split=None, pad=-1, **kw):
    st = {"op": "resp", "req": i, "status": status, "fields": fields or [], "es": es, "pad": pad}
    if split:
        st["split"] = split
    st.update(kw)
    return st


def data(i, n, es=True, pad=-1, chunks=None):
    st = {"op": "data", "req": i, "n": n, "es": es, "pad": pad}
    if chunks:
        st["chunks"] = chunks
    return st


def gen_stalled_writer(ctx, thorough):
    """The write loop is stuck in a socket write (a large upload the server is slow to read) while the read loop has
    control frames to hand it: PING acks, then the WINDOW_UPDATEs that a large response is owed.  None of them may be
    lost - a server that keeps to its windows stops sending when its credit is not returned, and the caller never sees
    the rest of the body."""
    out = []
    for npings in ((150, 400) if thorough else (200,)):
        for nfr in (64, 40):      # 64 x 16384 = the client's whole window, stream and connection
            steps = [{"op": "settings", "pairs": [[4, 4000000]]}, {"op": "wu", "req": 0, "inc": 4000000}, call(2), {"op": "stopread"},
                     call(1, n=2000000, kind='buf'),
                     {"op": "burst", "steps": [{"op": "ping"} for _ in range(npings)] + [resp(2), data(2, nfr * 16384, es=False, chunks=[16384] * nfr)]},
                     {"op": "wait", "ms": 50}, {"op": "resumeread"}, {"op": "wait", "ms": 50}, data(2, 1000, es=True), resp(1, es=True), call(3), resp(3, es=True)]
            out.append({'tag': 'stalled-writer', 'cfg': {'outCap': 65536}, 'steps': steps})
    return out


def gen_c02_extra(ctx, thorough):
    rng = ctx.rng
    out = gen_stalled_writer(ctx, thorough)
    rf = [["server", "verif/1.0"], ["x-custom-response", "value with spaces"], ["set-cookie", "a=b; Path=/"], ["set-cookie", "c=d"], ["cache-control", "max-age=0"]]
    # response header block continued in CONTINUATION at every byte; END_STREAM on HEADERS with CONTINUATION following
    offs = range(1, 90) if thorough else sorted(rng.sample(range(1, 80), 30))
    for o in offs:
        for es in (False, True):
            steps = [call(1), call(2, fields=[["x-b", "c"]])]
            steps += [resp(1, fields=rf, es=es, split=[o])] + ([] if es else [data(1, 10)])
            steps += [resp(2, fields=rf[:2], es=True)]           # a later response must still decode (HPACK state intact)
            out.append({'tag': 'resp-split', 'cfg': {}, 'steps': steps})
    # interleaved responses for four concurrent requests, all orders of completion, DATA chunkings and padding
    import itertools
    perms = list(itertools.permutations([1, 2, 3, 4]))
    rng.shuffle(perms)
    for perm in perms[:24 if thorough else 8]:
        steps = [call(1), call(2, n=100, kind='stream'), call(3, n=20000, kind='buf'), call(4, fields=[["x-q", "4"]])]
        pend = {i: [resp(i, status=200 + i, fields=[["x-for", str(i)]] + rf[:i % 3]), data(i, 1000 * i, es=False, chunks=[300 * i, 700 * i], pad=rng.choice([-1, 3])), data(i, 7 * i, es=True)] for i in perm}
        while any(pend.values()):
            i = rng.choice([k for k in pend if pend[k]])
            steps.append(pend[i].pop(0))
        out.append({'tag': 'interleave', 'cfg': {}, 'steps': steps})
    # request shapes: buffered / streamed declared / streamed unknown, sizes 0 .. multi-frame .. above the window
    for kind in ('buf', 'stream', 'streamcl'):
        for n in (1, 16384, 16385, 70000, 140000):
            for chunk, eof in ((0, 0), (1000, 1), (20000, 0)):
                if kind == 'buf' and (chunk, eof) != (0, 0):
                    continue
                steps = [call(1, n=n, kind=kind, chunk=chunk, eof=eof, fields=[["content-type", "application/octet-stream"]]),
                         {"op": "wu", "req": 1, "inc": 200000}, {"op": "wu", "req": 0, "inc": 200000}, resp(1, es=True)]
                out.append({'tag': 'reqbody', 'cfg': {}, 'steps': steps})
    # zero-length streamed bodies and HEAD
    for kind in ('stream', 'streamcl'):
        steps = [{"op": "call", "req": 1, "method": "POST", "fields": [], "body": {"kind": kind, "n": 0, "chunk": 0, "eof": 0}}, resp(1, es=True)]
        out.append({'tag': 'emptybody', 'cfg': {}, 'steps': steps})
    # a field name that occurs more than once in a response: the caller gets every value
    multi = [["x-multi", "one"], ["x-multi", "two"], ["link", "</a>; rel=preload"], ["link", "</b>; rel=preload"], ["vary", "accept"], ["vary", "origin"], ["x-multi", "three"]]
    for k in (2, 4, 7):
        steps = [call(1), call(2), resp(1, fields=multi[:k], es=True), resp(2, fields=multi[k - 2:], es=False), data(2, 5)]
        out.append({'tag': 'dupfield', 'cfg': {}, 'steps': steps})
    # interim (1xx) responses before the final one, with and without fields, split or not; then further requests on the connection
    for interim in ([100], [103], [103, 103], [100, 103]):
        for split in (None, [3]):
            steps = [call(1), call(2, fields=[["x-b", "c"]])]
            for st in interim:
                steps.append(resp(1, status=st, fields=[["link", "</style.css>; rel=preload"]] if st == 103 else [], es=False, split=split))
            steps += [resp(1, status=200, fields=rf[:2], es=False), data(1, 12), resp(2, fields=rf[:3], es=True), call(3), resp(3, status=204, fields=[["x-last", "1"]], es=True)]
            out.append({'tag': 'interim', 'cfg': {}, 'steps': steps})
    # a response that arrives for a request its caller has given up on, then more requests: the connection's decoder stays in step
    for late in ('hdr', 'hdr+data'):
        steps = [call(1), call(2), {"op": "cancel", "req": 1}, resp(1, fields=rf, es=late == 'hdr')] + ([data(1, 20)] if late != 'hdr' else [])
        steps += [resp(2, fields=rf, es=True), call(3), resp(3, fields=rf[:2] + [["x-new", "v"]], es=True)]
        out.append({'tag': 'late-response', 'cfg': {}, 'steps': steps})
    # several streamed uploads in progress at once, stalled on windows in the middle of a chunk, released piecemeal
    for rep in range(6 if thorough else 3):
        kinds = [rng.choice(['stream', 'streamcl']) for _ in range(3)]
        steps = [{"op": "settings", "pairs": [[4, rng.choice([20000, 40000])]]}]
        steps += [call(i + 1, n=rng.choice([60000, 90000, 131072]), kind=kinds[i], chunk=rng.choice([5000, 16384, 30000, 65536])) for i in range(3)]
        for _ in range(14):
            steps.append({"op": "wu", "req": rng.choice([0, 0, 1, 2, 3]), "inc": rng.choice([1, 1000, 16384, 50000])})
        steps += [{"op": "wu", "req": i, "inc": 300000} for i in (1, 2, 3, 0)]
        steps += [resp(i, es=True) for i in (1, 2, 3)]
        out.append({'tag': 'stream-share', 'cfg': {}, 'steps': steps})
    # request header blocks that fill their last frame exactly (k * the server's MAX_FRAME_SIZE): measured, then requested
    for mfs in (16384, 20000):
        cfg = {'srvmfs': mfs} if mfs != 16384 else {}
        probe = {'id': 1, 'tag': 'probe', 'cfg': cfg, 'steps': [call(1, fields=[["x-fill", "Z" * 30000]]), resp(1, es=True)]}
        pf = os.path.join(ctx.scratch, 'cprobe%d.scen' % mfs)
        vlib.write_ndjson(pf, [probe])
        ctx.h2v(['cli', '--in', pf, '--out', pf + '.tr'])
        b0 = 0
        for ln in open(pf + '.tr.0'):
            for e in json.loads(ln)['evs']:
                if e['k'] == 'recv' and e['f']['ty'] in (1, 9) and e['f']['sid'] == 1:
                    b0 += e['f']['len']
        if b0 < 30000:
            raise vlib.Inconclusive('could not measure the request header block (got %d)' % b0)
        for k in (2, 3):
            for d in (-1, 0, 1, 2):
                L = 30000 + (k * mfs - b0) + d
                steps = [call(1, fields=[["x-fill", "Z" * L]]), call(2, fields=[["x-after", "1"]]), resp(1, es=True), resp(2, es=True)]
                out.append({'tag': 'reqblock-fills-frame', 'cfg': cfg, 'steps': steps})
    # SETTINGS_HEADER_TABLE_SIZE changes arriving while requests are being encoded: every block still decodes, with the
    # size update (if any) at its beginning
    for rep in range(30 if thorough else 10):
        big = [["x-h%d" % i, "value-%d-%s" % (i, "q" * 40)] for i in range(30)]
        burst, n = [], 0
        for j in range(10):
            burst.append({"op": "settings", "pairs": [[1, rng.choice([0, 64, 512, 4096])]]})   # delivered at the moment of the call that follows
            n += 1
            burst.append(call(n, fields=big[j % 5:] + [["x-rep", str(rep)]]))
        steps = [{"op": "burst", "steps": burst}] + [resp(i, es=True) for i in range(1, n + 1)]
        out.append({'tag': 'hts-race', 'cfg': {}, 'steps': steps})
    # connection-specific request fields must not reach the server, the rest must
    steps = [call(1, fields=[["connection", "keep-alive"], ["keep-alive", "timeout=5"], ["proxy-connection", "x"], ["upgrade", "h2c"], ["x_under", "1"], ["x-keep", "yes"]]), resp(1, es=True)]
    out.append({'tag': 'connspecific', 'cfg': {}, 'steps': steps})
    return out


def gen_c07_extra(ctx, thorough):
    rng = ctx.rng
    out = []
    for kind in ('buf', 'stream', 'streamcl'):
        for n in (70000, 200000):
            for order in ((1, 0), (0, 1)):
                steps = [call(1, n=n, kind=kind, chunk=rng.choice([0, 5000]))]
                for k in range(8):
                    for who in order:
                        steps.append({"op": "wu", "req": who, "inc": rng.choice([1, 100, 16384, 40000])})
                steps += [{"op": "wu", "req": 1, "inc": 300000}, {"op": "wu", "req": 0, "inc": 300000}, resp(1, es=True)]
                out.append({'tag': 'drain', 'cfg': {}, 'steps': steps})
    # a WINDOW_UPDATE for one stream arriving while the write loop, in the middle of a pass over the waiting bodies, sits in
    # a slow Read of another stream's body: the grant must not be lost, whatever the pass had already visited
    for nx in (1, 3, 5):
        for rep in range(2 if thorough else 1):
            steps = [{"op": "settings", "pairs": [[4, 10]]}, {"op": "wu", "req": 0, "inc": 1000000}]
            xs = list(range(1, nx + 1))
            y = nx + 1
            order = xs + [y]
            rng.shuffle(order)
            for i in order:
                if i == y:
                    c = call(y, n=600, kind='stream', chunk=100)
                    c['body']['readms'] = 120
                    steps.append(c)
                else:
                    steps.append(call(i, n=200, kind=rng.choice(['buf', 'stream'])))
            steps += [{"op": "wu", "req": y, "inc": 300, "nowait": True}, {"op": "awaitread"}]
            steps += [{"op": "wu", "req": i, "inc": 5000, "nowait": True} for i in xs]
            steps += [{"op": "wait", "ms": 50}, {"op": "wu", "req": y, "inc": 5000}] + [resp(i, es=True) for i in order]
            out.append({'tag': 'grant-during-read', 'cfg': {}, 'steps': steps})
    # SETTINGS changes while uploads are in progress: window driven negative, frame size raised and lowered
    for iw1, iw2 in ((1000, 0), (30000, 10), (65535, 1), (100, 70000)):
        steps = [{"op": "settings", "pairs": [[4, iw1]]}, call(1, n=50000, kind='buf'), call(2, n=50000, kind='stream'),
                 {"op": "settings", "pairs": [[4, iw2]]}, {"op": "wu", "req": 1, "inc": 7}, {"op": "settings", "pairs": [[4, 65535]]},
                 {"op": "wu", "req": 1, "inc": 100000}, {"op": "wu", "req": 2, "inc": 100000}, {"op": "wu", "req": 0, "inc": 100000}, resp(1, es=True), resp(2, es=True)]
        out.append({'tag': 'negwin', 'cfg': {}, 'steps': steps})
    for mfs in (16384, 32768, 1 << 20):
        steps = [{"op": "settings", "pairs": [[5, mfs], [4, 1000000]]}, {"op": "wu", "req": 0, "inc": 1000000}, call(1, n=150000, kind=rng.choice(['buf', 'stream'])), resp(1, es=True),
                 {"op": "settings", "pairs": [[5, 16384]]}, call(2, n=50000), resp(2, es=True)]
        out.append({'tag': 'mfs', 'cfg': {}, 'steps': steps})
    # MAX_FRAME_SIZE changed while a body is waiting for window: the rest goes out under the new limit
    for m1, m2 in ((65536, 16384), (32768, 16384), (16384, 65536), (1 << 20, 16384), (65536, 20000)):
        for kind in ('buf', 'stream'):
            steps = [{"op": "settings", "pairs": [[5, m1], [4, 40000]]}, call(1, n=150000, kind=kind), call(2, n=90000, kind='buf'),
                     {"op": "settings", "pairs": [[5, m2]]}, {"op": "wu", "req": 1, "inc": 120000}, {"op": "wu", "req": 0, "inc": 300000},
                     {"op": "wu", "req": 2, "inc": 120000}, resp(1, es=True), resp(2, es=True)]
            out.append({'tag': 'mfs-midbody', 'cfg': {}, 'steps': steps})
    # window changes that arrive while the write loop is in the middle of writeRequest (parked in a blocking hook): whatever
    # the server grants in that gap counts - the body goes on as far as the ledger allows once the loop is released
    for gate in ('wr.afterid', 'wr.beforepending', 'wr.afterheaders'):
        for kind in ('buf', 'stream'):
            evs = [[{"op": "settings", "pairs": [[4, 100000]]}], [{"op": "settings", "pairs": [[4, 1000]]}, {"op": "settings", "pairs": [[4, 90000]]}],
                   [{"op": "wu", "req": 0, "inc": 50000}]]
            if gate == 'wr.afterheaders':
                evs += [[{"op": "wu", "req": 2, "inc": 50000}], [{"op": "wu", "req": 2, "inc": 1}, {"op": "wu", "req": 2, "inc": 70000}, {"op": "wu", "req": 0, "inc": 70000}]]
            for ev in evs:
                c2 = call(2, n=150000, kind=kind)
                c2["gate"] = gate
                steps = [call(1), c2] + [dict(e) for e in ev] + [{"op": "ungate"}, {"op": "wu", "req": 0, "inc": 1}, resp(1, es=True),
                         {"op": "wu", "req": 2, "inc": 300000}, {"op": "wu", "req": 0, "inc": 300000}, resp(2, es=True)]
                out.append({'tag': 'gate-window', 'cfg': {}, 'steps': steps})
    # three uploads share the connection window
    steps = [call(1, n=40000), call(2, n=40000, kind='stream'), call(3, n=40000, kind='streamcl')]
    for k in range(8):
        steps.append({"op": "wu", "req": 0, "inc": 16000})
    steps += [resp(1, es=True), resp(2, es=True), resp(3, es=True)]
    out.append({'tag': 'share', 'cfg': {}, 'steps': steps})
    # SETTINGS arriving between two requests' window snapshots (config via initial settings)
    for srviw in (0, 100, 1 << 20):
        steps = [call(1, n=30000), {"op": "settings", "pairs": [[4, 50000]]}, call(2, n=30000), {"op": "wu", "req": 1, "inc": 60000}, {"op": "wu", "req": 2, "inc": 60000}, resp(1, es=True), resp(2, es=True)]
        out.append({'tag': 'iwcfg', 'cfg': {'srviw': srviw} if srviw else {}, 'steps': steps})
    return out


def gen_c11_extra(ctx, thorough):
    rng = ctx.rng
    out = gen_gate_goaway(ctx, thorough)
    # GOAWAY(last) at every position relative to three in-flight requests and their partial responses;
    # afterwards the server completes the streams at or below last in some order; new requests arrive
    for lastreq in (0, 1, 2, 3):
        for pos in range(0, 5):
            for code in (0, 2):
                pre = [call(1), call(2, n=10), call(3)]
                partial = [resp(1, fields=[["x-p", "1"]]), data(1, 5, es=False), resp(2), data(2, 3, es=False)][:pos]
                ga = {"op": "goaway", "code": code, "last": 0}
                if lastreq:
                    ga["lastreq"] = lastreq
                post = []
                order = [1, 2, 3]
                rng.shuffle(order)
                for i in order:
                    if lastreq and i <= lastreq:
                        if not any(s.get("req") == i and s["op"] == "resp" for s in partial):
                            post.append(resp(i))
                        post.append(data(i, 4, es=True))
                post.append(call(4))                                  # must not open a stream on this connection
                out.append({'tag': 'goaway-pos', 'cfg': {}, 'steps': pre + partial + [ga] + post})
    # connection loss instead of / after GOAWAY
    for k in range(6):
        steps = [call(1), call(2), resp(1), {"op": "goaway", "code": 0, "last": 0, "lastreq": 1}] + ([data(1, 5, es=True)] if k % 2 else []) + [{"op": "srvclose"}, call(3)]
        out.append({'tag': 'goaway-loss', 'cfg': {}, 'steps': steps})
    # REFUSED_STREAM
    steps = [call(1), call(2), {"op": "rst", "req": 2, "code": 7}, resp(1, es=True), call(3), resp(3, es=True)]
    out.append({'tag': 'refused', 'cfg': {}, 'steps': steps})
    # two GOAWAYs (graceful shutdown: first 2^31-1, then the real one)
    steps = [call(1), call(2), {"op": "goaway", "code": 0, "last": MAXWIN}, resp(1, es=True), {"op": "goaway", "code": 0, "last": 0, "lastreq": 1}, call(3)]
    out.append({'tag': 'goaway-twice', 'cfg': {}, 'steps': steps})
    return out


def gen_gate_goaway(ctx, thorough):
    """Schedules that lock-step replay cannot produce by itself: the client's write loop is held in a blocking hook
    between two of its steps (stream id allocated / request registered / body registered) while the read loop takes
    a GOAWAY or a connection loss; then it is released.  The request must be failed at once (retryably if it was
    never written) or go out and be answered - never be left on a stream nobody will answer."""
    out = []
    for gate in ('wr.afterid', 'wr.beforepending', 'wr.afterheaders'):
        for body, kind in ((0, 'buf'), (3000, 'buf'), (3000, 'stream'), (70000, 'streamcl')):
            if gate == 'wr.beforepending' and not body:
                continue
            for ev in ({"op": "goaway", "code": 0, "last": 0, "lastreq": 1}, {"op": "goaway", "code": 0, "last": 0}, {"op": "goaway", "code": 2, "last": 0, "lastreq": 1},
                       {"op": "srvclose"}, {"op": "close"}, {"op": "rst", "req": 1, "code": 2}, {"op": "settings", "pairs": [[3, 1]]}):
                c2 = call(2, n=body, kind=kind)
                c2["gate"] = gate
                steps = [call(1), c2, dict(ev), {"op": "ungate"}, resp(1, es=True), call(3)]
                out.append({'tag': 'gate-goaway', 'cfg': {}, 'steps': steps})
    # the same gates against everything else that can happen to the request itself while writeRequest is half done: its
    # caller gives up, the server answers or resets it early, the body's window moves
    for gate in ('wr.afterid', 'wr.beforepending', 'wr.afterheaders'):
        for body, kind in ((0, 'buf'), (3000, 'buf'), (70000, 'stream')):
            if gate == 'wr.beforepending' and not body:
                continue
            evs = [[{"op": "cancel", "req": 2}]]
            if gate == 'wr.afterheaders':
                evs += [[resp(2, es=True)], [resp(2, es=False), data(2, 10, es=True)], [{"op": "rst", "req": 2, "code": 8}], [{"op": "rst", "req": 2, "code": 7}],
                        [resp(2, status=100, es=False), resp(2, es=True)], [resp(2, es=True), {"op": "cancel", "req": 2}]]
            for ev in evs:
                c2 = call(2, n=body, kind=kind)
                c2["gate"] = gate
                steps = [call(1), c2] + [dict(e) for e in ev] + [{"op": "ungate"}, {"op": "wu", "req": 0, "inc": 200000}, resp(1, es=True), call(3), resp(3, es=True)]
                out.append({'tag': 'gate-own', 'cfg': {}, 'steps': steps})
    # the write loop parked at its select with requests piling up in its queue while the connection changes under them
    for ev in ([{"op": "goaway", "code": 0, "last": 0, "lastreq": 1}], [{"op": "goaway", "code": 0, "last": 0}], [{"op": "srvclose"}], [{"op": "close"}],
               [{"op": "settings", "pairs": [[3, 1]]}], [{"op": "settings", "pairs": [[3, 0]]}], [{"op": "rst", "req": 1, "code": 7}],
               [resp(1, es=True), {"op": "goaway", "code": 0, "last": 0, "lastreq": 1}]):
        c1 = call(1)
        c1["gate"] = "wl.idle"
        steps = [c1, call(2), call(3, n=3000, kind='stream'), call(4, n=100)] + [dict(e) for e in ev] + [{"op": "ungate"}, {"op": "wu", "req": 0, "inc": 100000}, call(5)]
        out.append({'tag': 'gate-idle', 'cfg': {}, 'steps': steps})
    # the other side of the handshake: the READ loop is parked between raising the flag and sweeping the table while the
    # write loop takes a new request through all of writeRequest
    for body, kind in ((0, 'buf'), (3000, 'buf'), (3000, 'stream')):
        for ga in ({"op": "goaway", "code": 0, "last": 0, "lastreq": 1}, {"op": "goaway", "code": 0, "last": 0}):
            g = dict(ga); g["gate"] = "rl.goaway.flagged"
            steps = [call(1), g, call(2, n=body, kind=kind), {"op": "ungate"}, resp(1, es=True), call(3)]
            out.append({'tag': 'gate-goaway-rl', 'cfg': {}, 'steps': steps})
    return out


def gen_write_storm(ctx, thorough):
    """Callers on several goroutines hand requests to a connection whose socket starts to fail under them: the write loop
    gives up between two of their calls.  One connection has one such moment, so the family is many short scenarios."""
    out = []
    for k in range(1500 if thorough else 300):
        w = (8, 8, 16)[k % 3]
        out.append({'tag': 'write-storm', 'cfg': {}, 'steps': [call(1), resp(1, es=True), {"op": "storm", "req": 10, "writers": w, "each": 96 // w, "n": (300, 500, 800)[(k // 3) % 3]}], 'confirm_copies': 300})
    return out


def gen_c12_extra(ctx, thorough):
    rng = ctx.rng
    out = gen_gate_goaway(ctx, thorough) + gen_write_storm(ctx, thorough)
    # Close while the peer has stopped reading (its GOAWAY cannot be written): what is in flight is resolved all the same
    for cap in (8, 64):
        for nreq in (1, 3):
            steps = [call(i) for i in range(1, nreq + 1)] + [{"op": "stopread"}, {"op": "close"}, {"op": "wait", "ms": 20}, {"op": "resumeread"}, call(9)]
            out.append({'tag': 'close-stalled', 'cfg': {'outCap': cap}, 'steps': steps})
    base_srv = [resp(1, fields=[["x-a", "b"]], split=[3]), data(1, 30, es=False), resp(2, es=True), data(1, 10, es=True), {"op": "ping"},
                {"op": "settings", "pairs": [[4, 70000]]}, resp(3), data(3, 5, es=True)]
    calls = [call(1), call(2, n=10), call(3, n=100, kind='stream')]
    total = 220
    cuts = range(0, total) if thorough else sorted(set(list(range(0, 30)) + rng.sample(range(30, total), 40)))
    for k in cuts:
        out.append({'tag': 'cut', 'cfg': {}, 'steps': calls + [{"op": "cut", "steps": base_srv, "cut": k}, call(4)]})
    # single-frame mutations of the server stream / adversarial frames
    adversarial = [
        {"op": "raw", "ty": 0, "fl": 0, "req": 1, "len": 20000},                     # over the advertised frame size
        {"op": "raw", "ty": 5, "fl": 4, "req": 1, "payload": [0, 0, 0, 2, 0x82]},    # PUSH_PROMISE
        {"op": "raw", "ty": 1, "fl": 4, "req": 1, "payload": [0xff, 0xff, 0xff, 0xff, 0xff, 0xff, 0xff, 0xff, 0xff, 0xff, 0xff, 0x7f]},
        {"op": "raw", "ty": 1, "fl": 0x0c, "req": 1, "payload": [200, 0x88]},          # padding longer than the frame
        {"op": "raw", "ty": 8, "fl": 0, "sid": 0, "payload": [0, 0, 0]},             # short WINDOW_UPDATE
        {"op": "raw", "ty": 4, "fl": 0, "sid": 0, "payload": [0, 1, 0]},             # bad SETTINGS length
        {"op": "raw", "ty": 7, "fl": 0, "sid": 0, "payload": [0, 0]},                # short GOAWAY
        {"op": "raw", "ty": 12, "fl": 0, "sid": 0, "payload": [1, 2, 3]},            # unknown type: ignored
        {"op": "raw", "ty": 0, "fl": 1, "sid": 99, "payload": [1]},                  # DATA on a stream nobody opened
        {"op": "raw", "ty": 9, "fl": 4, "req": 1, "payload": [0x88]},                # CONTINUATION out of the blue
        {"op": "rst", "req": 1, "code": 2}, {"op": "goaway", "code": 1, "last": 0}, {"op": "settings", "pairs": [[5, 1]]},
        {"op": "wu", "req": 0, "inc": MAXWIN}, {"op": "wu", "req": 1, "inc": 0},
    ]
    for adv in adversarial:
        for pos in (0, 1, 3):
            srv = [json.loads(json.dumps(x)) for x in base_srv]
            srv.insert(pos, adv)
            out.append({'tag': 'adversarial', 'cfg': {}, 'steps': calls + srv + [call(4), resp(4, es=True)]})
    # silence, then the user closes; Close racing Write at every stage
    for stage in range(0, 5):
        steps = []
        seq = [call(1), call(2, n=100000, kind='stream'), resp(1), data(1, 5, es=False)]
        steps += seq[:stage] + [{"op": "close"}] + seq[stage:] + [call(5)]
        out.append({'tag': 'close-race', 'cfg': {}, 'steps': steps})
    # write failures at the k-th byte
    for k in (0, 5, 30, 100, 1000, 20000):
        steps = [{"op": "failwrites", "n": k}, call(1), call(2, n=50000), resp(1, es=True), call(3)]
        out.append({'tag': 'writefail', 'cfg': {}, 'steps': steps})
    # cancellation at each stage, late frames for the cancelled stream
    for stage in range(0, 4):
        seq = [resp(1), data(1, 10, es=False), data(1, 10, es=True)]
        steps = [call(1), call(2)] + seq[:stage] + [{"op": "cancel", "req": 1}] + seq[stage:] + [resp(2, es=True), call(3), resp(3, es=True)]
        out.append({'tag': 'cancel', 'cfg': {}, 'steps': steps})
    return out


def gen_c14_extra(ctx, thorough):
    out = []
    mb = 1 << 20
    for total, chunk, pad in ((3 * mb, 16000, -1), (2 * mb, 16384 - 256, 200), (mb // 4, 500, -1)):
        frames = [data(1, chunk, es=False, pad=pad) for _ in range(total // chunk)]
        steps = [call(1), resp(1)]
        for k in range(0, len(frames), 30):
            steps.append({"op": "burst", "steps": frames[k:k + 30]})
        steps.append(data(1, 1, es=True))
        out.append({'tag': 'download', 'cfg': {}, 'steps': steps})
    # empty DATA frames (legal anywhere in a body) must not be answered with an increment of 0; padded empty ones are credited
    for pad in (-1, 0, 30):
        steps = [call(1), call(2), resp(1), data(1, 0, es=False, pad=pad), data(1, 10, es=False), data(1, 0, es=False, pad=pad), resp(2), data(2, 0, es=False, pad=pad),
                 data(1, 0, es=True), data(2, 5, es=True)]
        out.append({'tag': 'empty-data', 'cfg': {}, 'steps': steps})
    # data for cancelled requests still has to be credited to the connection window
    steps = []
    for i in range(1, 9):
        steps += [call(i), resp(i), {"op": "cancel", "req": i}, {"op": "burst", "steps": [data(i, 16000, es=False) for _ in range(12)]}]
    steps += [call(20), resp(20), data(20, 100, es=True)]
    out.append({'tag': 'cancelled-data', 'cfg': {}, 'steps': steps})
    # interleaved downloads
    steps = [call(1), call(2), call(3), resp(1), resp(2), resp(3)]
    for rnd in range(40):
        steps.append({"op": "burst", "steps": [data(i, 15000, es=False, pad=7 if i == 2 else -1) for i in (1, 2, 3)]})
    steps += [data(1, 0, es=True), data(2, 0, es=True), data(3, 0, es=True)]
    out.append({'tag': 'interleaved', 'cfg': {}, 'steps': steps})
    return out


def gen_c14_late(ctx, thorough):
    """Responses for requests whose callers have given up (cancelled): every DATA octet, END_STREAM or not, still
    counts against the connection window and has to be handed back - 80 x 16 KiB is more than the window."""
    out = []
    for es_on_data in (True, False):
        steps = []
        for i in range(1, 81):
            steps += [call(i), {"op": "cancel", "req": i}, resp(i, es=False), data(i, 16384, es=es_on_data)]
            if not es_on_data:
                steps += [data(i, 0, es=True)]
        steps += [call(99), resp(99, es=False), data(99, 30000, es=True)]
        out.append({'tag': 'late-data-after-cancel', 'cfg': {}, 'steps': steps})
    return out


def gen_c18_extra(ctx, thorough):
    rng = ctx.rng
    out = []
    ids = {1: [0, 100, 4096, 65536], 3: [0, 1, 100], 4: [0, 1, 65535, MAXWIN], 5: [16384, 20000, (1 << 24) - 1], 6: [0, 100], 9: [7], 0xff: [1]}
    for _ in range(300 if thorough else 50):
        steps, nreq = [], 0
        for j in range(rng.randrange(2, 6)):
            pairs = []
            for _ in range(rng.randrange(0, 4)):
                i = rng.choice(list(ids))
                pairs.append([i, rng.choice(ids[i])])
            steps.append({"op": "settings", "pairs": pairs})
            if rng.random() < 0.6:
                nreq += 1
                steps += [call(nreq, n=rng.choice([0, 10, 40000]), fields=[["x-big", "h" * rng.choice([1, 300])]]),
                          {"op": "wu", "req": nreq, "inc": 100000}, {"op": "wu", "req": 0, "inc": 100000}, resp(nreq, es=True)]
        out.append({'tag': 'settings-seq', 'cfg': {}, 'steps': steps})
    for pairs in ([[2, 2]], [[5, 16383]], [[5, 1 << 24]], [[4, 1 << 31]]):
        out.append({'tag': 'settings-invalid', 'cfg': {}, 'steps': [call(1), {"op": "settings", "pairs": pairs}, call(2)]})
    # ENABLE_PUSH = 0 is advertised: a PUSH_PROMISE ends the connection, whichever stream it names
    pp = lambda **kw: dict({"op": "raw", "ty": 5, "fl": 4, "payload": [0, 0, 0, 2, 0x82]}, **kw)
    out.append({'tag': 'push', 'cfg': {}, 'steps': [call(1), call(2), pp(req=1), call(3)]})                                   # a request is waiting on it
    out.append({'tag': 'push', 'cfg': {}, 'steps': [call(1), resp(1, es=True), call(2), pp(req=1), call(3)]})                 # already answered
    out.append({'tag': 'push', 'cfg': {}, 'steps': [call(1), call(2), {"op": "cancel", "req": 1}, pp(req=1), call(3)]})       # given up by its caller
    out.append({'tag': 'push', 'cfg': {}, 'steps': [call(1), pp(sid=99), call(2)]})                                          # never opened
    out.append({'tag': 'push', 'cfg': {}, 'steps': [call(1), resp(1, es=False), pp(req=1), data(1, 5), call(2)]})             # in the middle of a response
    # MAX_CONCURRENT_STREAMS
    for mcs in (1, 2):
        steps = [call(i) for i in range(1, 6)] + [resp(1, es=True), call(6), resp(6, es=True), resp(2, es=True)]
        out.append({'tag': 'maxstreams', 'cfg': {'srvmcs': mcs}, 'steps': steps})
    # header table size: initial and changed; absent parameters keep their value
    for hts in (0, 64, 256):
        steps = [{"op": "settings", "pairs": [[1, hts]]}, {"op": "settings", "pairs": [[4, 70000]]}]
        for i in range(1, 5):
            steps += [call(i, fields=[["x-custom-request-header", "value-%d" % (i % 2)], ["x-other", "o"]]), resp(i, es=True)]
        out.append({'tag': 'table-size', 'cfg': {}, 'steps': steps})
        out.append({'tag': 'table-size-initial', 'cfg': {'hashts': True, 'srvhts': hts}, 'steps': steps[1:]})
    # request header block larger than MAX_FRAME_SIZE must be split
    for sz in (20000, 40000):
        out.append({'tag': 'big-headers', 'cfg': {}, 'steps': [call(1, fields=[["x-big-%d" % i, "v" * 1000] for i in range(sz // 1000)]), resp(1, es=True)]})
    return out


RESP_LISTS = [
    ([[":status", "200"]], True), ([[":status", "200"], ["x-a", "b"]], True), ([["x-a", "b"]], False), ([[":status", "200"], [":status", "200"]], False),
    ([["x-a", "b"], [":status", "200"]], False), ([[":status", "200"], ["X-Upper", "1"]], False), ([[":status", "200"], ["connection", "close"]], False),
    ([[":status", "200"], ["transfer-encoding", "chunked"]], False), ([[":status", "200"], ["content-length", "abc"]], False),
    ([[":status", "200"], ["content-length", "5"]], True), ([[":status", "abc"]], False), ([[":status", "99"]], False), ([[":status", "1000"]], False),
    ([[":status", "200"], [":path", "/x"]], False), ([[":status", "200"], ["keep-alive", "1"]], False), ([[":status", "200"], ["upgrade", "x"]], False),
    ([[":status", "204"], ["x-a", ""]], True), ([[":status", "200"], ["proxy-connection", "x"]], False), ([[":method", "GET"]], False),
]


# every capital letter in a response field name, first / middle / last octet
RESP_LETTERS = [([[":status", "200"], [n, "1"]], False) for c in range(65, 91) for n in ('x-%sone' % chr(c), '%sx' % chr(c), 'x%s' % chr(c))]


def gen_c20_extra(ctx, thorough):
    out = []
    rng = ctx.rng
    for fields, ok in RESP_LISTS + (RESP_LETTERS if thorough else RESP_LETTERS[::3] + RESP_LETTERS[1::9] + RESP_LETTERS[2::9]):
        for position in ('first', 'after'):
            for body in (0, 5):
                steps = [call(1), call(2), call(3)]
                if position == 'after':
                    steps += [resp(1, fields=[["x-a", "b"]], es=True)]
                has_cl5 = any(f[0] == "content-length" and f[1] == "5" for f in fields)
                st = {"op": "resp", "req": 2, "rawfields": True, "fields": fields, "es": body == 0 and not has_cl5, "pad": -1}
                if rng.random() < 0.3:
                    st["split"] = [rng.randrange(1, 10)]
                steps.append(st)
                if body or has_cl5:
                    steps.append(data(2, 5, es=True))
                steps += [resp(3, es=True)] + ([] if position == 'after' else [resp(1, es=True)])   # the others must still succeed
                out.append({'tag': 'resp-list', 'cfg': {}, 'steps': steps, 'abs': [fields, ok]})
    # a well-formed final response stays well-formed behind any number of informational ones
    for interim in ([100], [103], [103, 103]):
        for tail in ('es-on-headers', 'data'):
            steps = [call(1), resp(1, es=True), call(2)]
            for stc in interim:
                steps.append(resp(2, status=stc, fields=[["link", "</s.css>; rel=preload"]] if stc == 103 else [], es=False))
            steps.append(resp(2, status=200, fields=[["x-a", "b"]], es=tail == 'es-on-headers'))
            if tail != 'es-on-headers':
                steps.append(data(2, 7, es=tail == 'data'))
            if tail == 'trailers':
                steps.append({"op": "resp", "req": 2, "rawfields": True, "fields": [["x-trailer", "t"]], "es": True, "pad": -1})
            steps += [call(3), resp(3, es=True)]
            out.append({'tag': 'interim-wellformed', 'cfg': {}, 'steps': steps})
    return out


FAM = {
    'C02': dict(cfg=('H2Client_c02_q.cfg', 'H2Client_c02_t.cfg'), budget=(700, 6000), unit=1, hcfg={}, extra=gen_c02_extra, props={'C02', 'C20:well-formed-response-rejected', 'C12:success-without-complete-response',
                       'C14:connection-credit-not-returned', 'C14:stream-credit-not-returned'}),
    'C07': dict(cfg=('H2Client_c07_q.cfg', 'H2Client_c07_t.cfg'), budget=(700, 6000), unit=13107, hcfg={'srviw': 26214}, extra=gen_c07_extra, props={'C07'}),
    'C11': dict(cfg=('H2Client_c11_q.cfg', 'H2Client_c11_t.cfg'), budget=(700, 6000), unit=1, hcfg={}, extra=gen_c11_extra, props={'C11'}),
    'C12': dict(cfg=('H2Client_c12_q.cfg', 'H2Client_c12_t.cfg'), budget=(700, 6000), unit=1, hcfg={}, extra=gen_c12_extra, props={'C12'}),
    # receive-credit ledger of the design model (Ops flag "credit"): 4 units = the client's connection window of 1 MiB
    'C14': dict(cfg=('H2Client_c14_q.cfg', 'H2Client_c14_q.cfg'), budget=(300, 3000), unit=262144, drvunit=1, hcfg={},
                extra=lambda ctx, th: gen_c14_extra(ctx, th) + gen_c14_late(ctx, th) + gen_stalled_writer(ctx, th), props={'C14'}),
}
EXTRA_ONLY = {'C18': (gen_c18_extra, {'C18', 'C02:request-block-undecodable'}), 'C20': (gen_c20_extra, {'C20'})}


def build(ctx, pid):
    thorough = ctx.tier == 'thorough'
    scen = []
    nmodel = 0
    if pid in FAM:
        fam = FAM[pid]
        cfg = fam['cfg'][1 if thorough else 0]
        hists = srvfam.gen_from_model(ctx, cfg, workers=None if thorough else 1, module='H2Client')
        budget = fam['budget'][1 if thorough else 0]
        ctx.rng.shuffle(hists)
        seen, picked, rest = set(), [], []
        for h in hists:
            key = (len(h), h[-1]['op'], h[-1]['req'], h[-1]['es'], h[-1]['a'])
            (picked if key not in seen else rest).append(h)
            seen.add(key)
        picked += rest[:max(0, budget - len(picked))]
        for h in picked:
            steps = concretise(h, unit=fam['unit'], rng=ctx.rng)
            for st in steps:
                if st.get('op') == 'data' and st.get('n', 0) > 16384 and not st.get('chunks'):
                    # (response bodies of several frames: the model's unit is a quarter of the client's window here)
                    n = st['n']
                    st['chunks'] = [16384] * (n // 16384) + ([n % 16384] if n % 16384 else [])
                    st['pad'] = -1
            # (concretise has already put response DATA in octets; the driver's own unit applies to request bodies)
            scen.append({'tag': pid.lower() + '-model', 'cfg': dict(fam['hcfg'], unit=fam.get('drvunit', fam['unit'])), 'steps': steps, 'abs': h})
        nmodel = len(scen)
        scen += fam['extra'](ctx, thorough)
        props = fam['props']
    else:
        gen, props = EXTRA_ONLY[pid]
        scen += gen(ctx, thorough)
    return scen, nmodel, props


def crashed(ctx, props, label):
    """A harness process that the Go runtime killed with the library on the stack.  C12 owns the verdict ("the process
    never panics or deadlocks"); it is confirmed by running that shard of scenarios once more."""
    for p, log in getattr(ctx, 'crashes', []):
        kind = 'deadlocked' if 'all goroutines are asleep' in log else 'hung' if 'harness process hung' in log else 'crashed'
        if 'C12' not in props:
            raise vlib.Inconclusive('h2v cli %s on %s (C12 owns this verdict):\n%s' % (kind, p, log[-1500:]))
        exe = ctx.harness()
        rc2, so2, se2, _h = vlib.run_proc([exe, 'cli', '--in', p, '--out', p + '.again'], ctx.scratch, max(240, 3 * sum(1 for _ in open(p))))
        pr = subprocess.CompletedProcess([exe], rc2, so2, se2)
        if pr.returncode != 0 and 'github.com/dgrr/http2.' in pr.stderr:
            scen = [json.loads(l) for l in open(p)]
            lines = [l for l in log.splitlines() if 'github.com/dgrr/http2.' in l][:8]
            ctx.report('C12:process-' + kind, '%s: C12:process-%s (the Go runtime stopped the harness process; library frames: %s)' % (label, kind, ' | '.join(x.strip() for x in lines)[:400]),
                       {'kind': 'cli-shard', 'clause': 'C12:process-' + kind, 'scenarios': scen, 'log': log[-3000:]})
        else:
            ctx.extra.setdefault('unconfirmed_clauses', []).append('process %s in %s' % (kind, os.path.basename(p)))
            print('UNCONFIRMED property=%s clause=C12:process-%s (not reproduced; not counted)' % (ctx.prop, kind), flush=True)
    ctx.crashes = []


def run(ctx, pid, id_offset=0):
    scen, nmodel, props = build(ctx, pid)
    for i, s in enumerate(scen):
        s['id'] = id_offset + i + 1
    ctx.nontrivial += len({json.dumps(s['steps'], sort_keys=True) for s in scen if len(s['steps']) >= 2})
    ctx.rule += (' CLIENT: %d histories from H2Client.tla (every explored edge, sampled keeping each last-event class) + %d generator scenarios '
                 '(tags %s) replayed into a real http2.Conn against a scripted x/net server peer.' % (nmodel, len(scen) - nmodel, sorted({s['tag'] for s in scen})))
    tr, _ = run_harness(ctx, scen, pid.lower() + 'cli')
    judge(ctx, scen, tr, props, label=pid.lower() + '-cli')
    crashed(ctx, props, pid.lower() + '-cli')
    for s in scen[:1] + scen[nmodel:nmodel + 1]:
        ctx.sample({'tag': s['tag'], 'abstract': s.get('abs'), 'steps': s['steps'][:12]})
    return scen


def replay(ctx, pid, finding):
    # (a scenario whose hit is a matter of chance per connection is replayed in as many copies as its confirmation used)
    scs = [dict(finding['scenario'], id=i + 1) for i in range(finding['scenario'].get('confirm_copies', 1))]
    _, _, props = build.__wrapped__(ctx, pid) if hasattr(build, '__wrapped__') else (None, None, (FAM[pid]['props'] if pid in FAM else EXTRA_ONLY[pid][1]))
    tr, _ = run_harness(ctx, scs, 'replay', shards=1)
    judge(ctx, scs, tr, props, confirm=False)
