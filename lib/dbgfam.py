#!/usr/bin/env python3
"""Debugging aid: run the generator scenarios of a server-family property and list EVERY clause the monitor raises,
by scenario tag (also clauses of other properties, which the check itself only counts).
usage: dbgfam.py <C01|C06|C09|C10|C13|C14|C17|C18|C20> [tag ...]"""
import sys, json, collections, os
sys.path.insert(0, os.path.dirname(os.path.abspath(__file__)))
import vlib, srvprop, srvfam, cliprop

def main_cli():
    pid = sys.argv[2].upper()
    ctx = vlib.Ctx('DBG', 'quick', int(os.environ.get('VERIF_SEED', '1')))
    scen = (cliprop.FAM[pid]['extra'] if pid in cliprop.FAM else cliprop.EXTRA_ONLY[pid][0])(ctx, False)
    if len(sys.argv) > 3:
        scen = [s for s in scen if s['tag'] in sys.argv[3:]]
    for i, s in enumerate(scen):
        s['id'] = i + 1
    tr, _ = cliprop.run_harness(ctx, scen, 'dbg')
    bad = cliprop.judge(ctx, scen, tr, set(), confirm=False)
    byid = {s['id']: s for s in scen}
    cnt, ex = collections.Counter(), {}
    for t, cl in bad.items():
        for c in cl:
            key = (byid[t]['tag'], c.split(' ')[0])
            cnt[key] += 1
            ex.setdefault(key, []).append((t, c))
    for k, v in sorted(cnt.items()):
        print(k, v, '   e.g.', ex[k][0][1][:200])
    json.dump({'%s|%s' % k: [{'kind': 'cli', 'clause': c, 'scenario': byid[t], 'property': pid} for t, c in v[:4]] for k, v in ex.items()}, open('/tmp/dbgfam.json', 'w'))
    print('%d scenarios, %d with clauses; examples in /tmp/dbgfam.json' % (len(scen), len(bad)))
    for p, log in getattr(ctx, 'crashes', []):
        print('HARNESS PROCESS KILLED on', p, '\n', '\n'.join(l for l in log.splitlines() if 'dgrr/http2.' in l or 'fatal' in l or 'main.' in l)[:1500])


def main():
    if sys.argv[1] == 'cli':
        return main_cli()
    pid = sys.argv[1].upper()
    ctx = vlib.Ctx('DBG', 'quick', int(os.environ.get('VERIF_SEED', '1')))
    scen = srvprop.FAM[pid]['extra'](ctx, False) if srvprop.FAM[pid].get('extra') else []
    if pid == 'C20':
        scen += srvprop.gen_c20_bodies(ctx, False)
    if len(sys.argv) > 2:
        scen = [s for s in scen if s['tag'] in sys.argv[2:]]
    for i, s in enumerate(scen):
        s['id'] = i + 1
    tr, _ = srvfam.run_harness(ctx, scen, 'dbg')
    bad, r = srvfam.validate(ctx, tr)
    byid = {s['id']: s for s in scen}
    cnt, ex = collections.Counter(), {}
    for t, cl in bad.items():
        for c in cl:
            key = (byid[t]['tag'], c.split(' ')[0])
            cnt[key] += 1
            ex.setdefault(key, []).append((t, c))
    for k, v in sorted(cnt.items()):
        print(k, v, '   e.g.', ex[k][0][1][:200])
    out = '/tmp/dbgfam.json'
    json.dump({'%s|%s' % k: [{'kind': 'srv', 'clause': c, 'scenario': byid[t], 'property': pid} for t, c in v[:4]] for k, v in ex.items()}, open(out, 'w'))
    print('%d scenarios, %d with clauses; examples (finding format, one list per key) in %s' % (len(scen), len(bad), out))
    for p, log in getattr(ctx, 'crashes', []):
        print('HARNESS PROCESS KILLED on', p, '\n', '\n'.join(l for l in log.splitlines() if 'dgrr/http2.' in l or 'fatal' in l or 'main.' in l)[:1500])

main()
