"""RoundTrip level of the client family (C11, C12, content clause of C02).

 spec/H2RoundTrip.tla + cfg  --TLC-->  design invariants checked; every terminal state's reaction vectors ("SCEN")
 scenarios()                 ------->  `h2v rt` scenarios: real ConfigureClient/RoundTrip stack, TLS in memory, reactive x/net servers
 spec/H2RoundTripTrace.tla   --TLC-->  "BAD <t> [clauses]"
"""
import json, os, re, subprocess, concurrent.futures
import vlib, srvfam

REACTS = ["ok", "okhdr", "refuse", "rst", "hdrrst", "ga_below", "ga_at_ok", "ga_at_close", "close", "partial", "silence"]
DISCLAIM = {"refuse", "ga_below"}


def _scen(tag, react, mcs, rng, nreq=None, **cfg):
    n = nreq or len(react)
    silent = any('silence' in l for l in react.values())
    c = dict(mcs=mcs, timeoutms=500 if silent else 3000, lingerms=1500)
    c.update(cfg)
    reqs = []
    for t in range(1, n + 1):
        body = rng.choice([0, 0, 0, 10, 3000])
        reqs.append({"tag": t, "method": "POST" if body else rng.choice(["GET", "GET", "HEAD", "DELETE"]), "bodyn": body, "atms": rng.choice([0, 0, 0, 1, 3])})
    return {"tag": tag, "cfg": c, "reqs": reqs, "react": {str(k): v for k, v in react.items()}}


def from_model(ctx, thorough):
    hs = srvfam.gen_from_model(ctx, 'H2RoundTrip_t.cfg' if thorough else 'H2RoundTrip_q.cfg', workers=None if thorough else 1, module='H2RoundTrip')
    seen, out = set(), []
    for h in hs:
        key = json.dumps(h, sort_keys=True)
        if key in seen:
            continue
        seen.add(key)
        out.append(h)
    ctx.rng.shuffle(out)
    budget = 4000 if thorough else 160
    # keep every reaction vector in which somebody is disclaimed (those are the ones that retry), fill up with the rest
    first = [h for h in out if any(set(l) & DISCLAIM for l in h['react'])]
    rest = [h for h in out if h not in first]
    pick = first[:budget * 2 // 3]
    pick += rest[:budget - len(pick)]
    return [_scen('rt-model', {i + 1: l for i, l in enumerate(h['react'])}, h['mcs'], ctx.rng) for h in pick], len(out)


def extras(ctx, thorough):
    rng = ctx.rng
    out = []
    # more callers than the model, every reaction of the driver, random vectors
    for _ in range(600 if thorough else 60):
        n = rng.choice([3, 4, 6])
        react = {}
        for t in range(1, n + 1):
            l = []
            for _j in range(4):
                x = rng.choice(REACTS if rng.random() < 0.7 else ["ga_below", "refuse", "ok"])
                if x == 'silence' and rng.random() < 0.7:
                    x = 'ok'
                l.append(x)
                if x not in DISCLAIM:
                    break
            react[t] = l
        out.append(_scen('rt-random', react, rng.choice([1, 2, 3, 100]), rng))
    # every request disclaimed on every attempt: RoundTrip must give up after four connections and say retryable
    for mcs in (1, 2):
        for kind in ("ga_below", "refuse"):
            out.append(_scen('rt-exhaust', {t: [kind] * 6 for t in (1, 2, 3)}, mcs, rng))
    # Client.Close racing calls in flight
    for ms in ([1, 2, 5, 20] if thorough else [1, 5]):
        for kind in ("ok", "silence", "ga_below"):
            out.append(_scen('rt-close', {t: [kind, "ok"] for t in (1, 2, 3, 4)}, 2, rng, closeatms=ms, timeoutms=600))
    # a peer that stops reading while many requests time out: the RST_STREAMs of the cancellations fill the pipe,
    # then the client's output queue (128); every request must still return
    for n in ((300, 450) if thorough else (300,)):
        out.append(_scen('rt-stall', {t: ["silence"] for t in range(1, n + 1)}, 1000, rng, nreq=n, stallafter=n, pipecap=2048, timeoutms=700))
    # a peer that stops reading, or reads slowly, in the middle of a large request body: the request still ends at its timeout
    for kind in ('stall', 'slow'):
        extra = dict(stallafter=1, pipecap=65536, bigwin=True) if kind == 'stall' else dict(slowafter=1, slowms=5, pipecap=65536, bigwin=True)
        sc = _scen('rt-%s-body' % kind, {1: ["silence"], 2: ["silence"]}, 10, rng, timeoutms=400, scribble=True, **extra)
        sc['reqs'] = [{"tag": 1, "method": "POST", "bodyn": 3000000 if kind == 'stall' else 8000000, "atms": 0}, {"tag": 2, "method": "GET", "bodyn": 0, "atms": 50}]
        out.append(sc)
    # answers that arrive about when the timer fires, request after request from the same callers: a timer that has fired
    # belongs to the request it was armed for, not to the next one that is handed the same (pooled) context
    for tmo, delay in ((8, 7), (8, 8), (12, 11), (6, 6)):
        sc = _scen('rt-timer-edge', {}, 100, rng, nreq=4, timeoutms=tmo, defreact='ok@%d' % delay)
        for q in sc['reqs']:
            q['repeat'] = 120 if thorough else 60
            q['bodyn'], q['method'] = 0, 'GET'
        out.append(sc)
    # two Clients in one process share the pools: one with a short response timeout is busy for a while, then one WITHOUT a
    # timeout makes its requests - each returns with its answer, whatever the pooled context it was handed last carried
    for tmo in (20, 60):
        sc = _scen('rt-two-clients', {}, 100, rng, nreq=4, timeoutms=tmo, defreact='ok')
        for q in sc['reqs']:
            q['repeat'] = 10
            q['bodyn'], q['method'] = 0, 'GET'
        sc['reqs'] += [{"tag": 500 + i, "method": "GET", "bodyn": 0, "atms": 4 * tmo + 100, "c2": True, "repeat": 2} for i in range(3)]
        out.append(sc)
    # dialling fails once the first connection(s) are used up
    for at in (1, 2):
        out.append(_scen('rt-dialfail', {1: ["ga_below", "ok"], 2: ["close"], 3: ["ok"]}, 1, rng, dialfailat=at))
    # answered at last-stream-id while siblings above it are disclaimed
    for _ in range(40 if thorough else 8):
        n = rng.choice([3, 4])
        react = {t: [rng.choice(["ga_at_ok", "ok", "ga_below"]), "ok"] for t in range(1, n + 1)}
        out.append(_scen('rt-goaway-mix', react, n, rng))
    return out


def run_harness(ctx, scenarios, label, timeout=900):
    shards = min(vlib.NCPU, max(1, len(scenarios) // 8))
    files = []
    for i in range(shards):
        part = scenarios[i::shards]
        if part:
            p = os.path.join(ctx.scratch, '%s.scen.%d' % (label, i))
            vlib.write_ndjson(p, part)
            files.append(p)
    exe = ctx.harness()

    def one(p):
        out = p + '.tr'
        pr = subprocess.run([exe, 'rt', '--in', p, '--out', out], cwd=ctx.scratch, stdout=subprocess.PIPE, stderr=subprocess.PIPE, text=True, timeout=timeout)
        return p, out + '.0', pr
    merged = os.path.join(ctx.scratch, label + '.traces')
    with concurrent.futures.ThreadPoolExecutor(max_workers=max(1, len(files))) as ex, open(merged, 'w') as mf:
        for p, out, pr in ex.map(one, files):
            if pr.returncode != 0:
                raise vlib.Inconclusive('h2v rt failed on %s rc=%d: %s' % (p, pr.returncode, (pr.stdout + pr.stderr)[-2000:]))
            if os.path.exists(out):
                with open(out) as f:
                    for ln in f:
                        mf.write(ln)
                os.remove(out)
    return merged


def _validate(ctx, tracefile):
    r = ctx.validate('H2RoundTripTrace', tracefile, chunk=2500)
    bad = {}
    for s in r.printed('BAD'):
        m = re.match(r'(\d+) (.*)$', s, re.S)
        if m:
            try:
                bad[int(m.group(1))] = json.loads(m.group(2))
            except Exception:
                bad[int(m.group(1))] = [m.group(2)]
    return bad


def judge(ctx, scenarios, tracefile, props, label='rt', confirm=True):
    n = sum(1 for _ in open(tracefile))
    bad = _validate(ctx, tracefile)
    ctx.traces += n
    ctx.evaluations += n
    byid = {s['id']: s for s in scenarios}
    percls, others, conf = {}, {}, {}
    ctx.extra.setdefault('rejected_by_clause', {})

    def rerun(scs, lab):
        return _validate(ctx, run_harness(ctx, scs, lab))
    xseen = 0
    for t, clauses in sorted(bad.items()):
        for c in clauses:
            p = c.split(':', 1)[0]
            if p == 'X':
                # a harness-level trouble (quiescence not reached in time, driver panic) makes the run inconclusive only if
                # it happens again when the scenario is replayed on its own: under load one slow scheduling turn is enough
                if (not confirm) or xseen < 3 and srvfam.confirmed(ctx, byid.get(t), c, rerun):
                    ctx.inconclusive.append('rt trace %d: %s' % (t, c))
                xseen += 1
                continue
            if p in props or any(c.startswith(x) for x in props if ':' in x):
                cls = c.split(' ')[0]
                percls[c] = percls.get(c, 0) + 1
                if percls[c] <= 2:
                    # the reactive driver has no lock-step: schedules vary, so a real race may need several tries
                    ok = (not confirm) or cls in getattr(ctx, '_known', {}) or srvfam.confirmed(ctx, byid.get(t), c, rerun, tries=4)
                    conf[c] = conf.get(c, False) or ok
                    if ok:
                        ctx.extra['rejected_by_clause'][c] = ctx.extra['rejected_by_clause'].get(c, 0) + 1
                        ctx.report(cls, '%s: %s' % (label, c), {'kind': 'rt', 'clause': c, 'scenario': byid.get(t)})
                elif conf.get(c) and cls not in getattr(ctx, '_known', {}):
                    ctx.extra['rejected_by_clause'][c] = ctx.extra['rejected_by_clause'].get(c, 0) + 1
                    ctx.violations.append((c, '(see first two of this clause)'))
            else:
                others[c.split(' ')[0]] = others.get(c.split(' ')[0], 0) + 1
    if others:
        ctx.extra.setdefault('other_property_clauses_seen', {}).update(others)
    return bad


def run(ctx, props, id_offset=2000000):
    thorough = ctx.tier == 'thorough'
    scen, nvec = from_model(ctx, thorough)
    nmodel = len(scen)
    scen += extras(ctx, thorough)
    for i, s in enumerate(scen):
        s['id'] = id_offset + i + 1
    ctx.nontrivial += len({json.dumps(s['react'], sort_keys=True) for s in scen})
    ctx.rule += (' ROUNDTRIP: H2RoundTrip.tla checked (C11_AtMostOnce, C11_RetryTruth, C12_SuccessTruth, C11_AnsweredCompletes, C12_AllReturn under WF); '
                 '%d of its %d distinct reaction vectors + %d generator scenarios (tags %s) played against the real ConfigureClient/RoundTrip stack '
                 '(TLS over in-memory connections, one reactive x/net server per dialled connection), each recording judged by H2RoundTripTrace.tla.'
                 % (nmodel, nvec, len(scen) - nmodel, sorted({s['tag'] for s in scen})))
    tr = run_harness(ctx, scen, 'rt')
    judge(ctx, scen, tr, props)
    if scen:
        ctx.sample({'tag': scen[0]['tag'], 'scenario': scen[0]})
    return scen


def replay(ctx, finding, props):
    sc = dict(finding['scenario']); sc['id'] = 1
    tr = run_harness(ctx, [sc], 'rtreplay')
    judge(ctx, [sc], tr, props, confirm=False)
