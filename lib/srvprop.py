"""Generic runner for the server-family properties: model cfg -> histories -> scenarios (+ hand-written
generators for what the model's alphabet abstracts away) -> real server -> H2ServerTrace."""
import json, os, random
import srvfam, vlib

MAXWIN = 2**31 - 1


def hdrs(sid, method='GET', extra=None, cl=None, path=None):
    f = [[":method", method], [":scheme", "https"], [":path", path or "/s%d" % sid], [":authority", "ex.com"], ["x-sid", str(sid)]]
    f += extra or []
    if cl is not None:
        f.append(["content-length", str(cl)])
    return f


def req(sid, body=0, es_on_headers=None, extra=None, split=None, pad=-1, prio=None, chunks=None, trailers=None, cl=False, method=None):
    """Steps of one complete well-formed request."""
    method = method or ('POST' if (body or trailers) else 'GET')
    only_headers = body == 0 and not trailers
    st = {"op": "hdr", "sid": sid, "fields": hdrs(sid, method, extra, cl=body if cl else None), "es": only_headers, "pad": pad}
    if split:
        st["split"] = split
    if prio:
        st["prio"] = prio
    steps = [st]
    if body:
        d = {"op": "data", "sid": sid, "n": body, "es": not trailers, "pad": -1}
        if chunks:
            d["chunks"] = chunks
        steps.append(d)
    if trailers:
        steps.append({"op": "hdr", "sid": sid, "fields": trailers, "es": True, "pad": -1})
    return steps


def finish(sid, kind='buf', n=0, status=200, hdrs_=None, chunk=0, eof=0):
    return {"op": "finish", "sid": sid, "shape": {"kind": kind, "n": n, "status": status, "hdrs": hdrs_ or [], "chunk": chunk, "eof": eof}}


# ------------------------------------------------------------------ extra generators

def gen_bighdr_queue(ctx, thorough):
    """A response header block that needs CONTINUATION frames is queued while the writer queue is full and the read
    loop (PING acks) competes for every slot that frees up: the block has to stay one piece."""
    out = []
    for k, n in enumerate((40000,) if not thorough else (17000, 40000, 70000, 130000)):
        for npings, cap in ((600, 64), (1300, 8192), (1000, 1024)):
            # the acks fill the writer queue and the read loop parks with the next one; the responses queue up behind it
            pool = [{"op": "ping", "n": i} for i in range(npings)]
            sids = [1 + 2 * i for i in range(8)]
            steps = []
            for sid in sids:
                steps += req(sid)
            steps += [{"op": "stopread"}, {"op": "burst", "steps": pool}, {"op": "wait", "ms": 100}]
            steps += [{"op": "burst", "steps": [finish(sid, n=5, hdrs_=[["x-fill", "XYZ"[sid % 3] * n]]) for sid in sids]}]
            steps += [{"op": "wait", "ms": 100}, {"op": "resumeread"}, {"op": "settle"}] + req(17) + [finish(17, n=1)]
            out.append({'tag': 'bighdr-queue', 'cfg': {'maxConc': 10, 'outCap': cap}, 'steps': steps})
    return out


def gen_c01_extra(ctx, thorough):
    """What the model abstracts: every split offset of real header blocks, padding/priority, empty DATA,
    DATA chunkings, response shapes x sizes around one frame and above the window, interleavings."""
    rng = ctx.rng
    out = []
    lists = [
        [],
        [["user-agent", "verif/1"], ["accept", "*/*"], ["x-custom-header", "some value with spaces"]],
        [["cookie", "a=b"], ["cookie", "c=d"], ["content-type", "application/x-www-form-urlencoded"], ["x-empty", ""], ["x-rep", "1"], ["x-rep", "2"]],
    ]
    # (1) every split offset (the block is ~40-120 bytes; offsets beyond its length are ignored by the driver)
    offs = range(1, 130) if thorough else sorted(rng.sample(range(1, 110), 40))
    for li, extra in enumerate(lists):
        for o in offs:
            steps = req(1, extra=extra, split=[o]) + [finish(1, n=5)]
            out.append({'tag': 'split1', 'cfg': {'maxConc': 4}, 'steps': steps})
        for _ in range(30 if thorough else 8):
            cuts = sorted(rng.sample(range(1, 100), 3))
            steps = req(1, body=10, extra=extra, split=cuts, trailers=[["x-t", "1"], ["x-u", "two"]]) + [finish(1, n=5)]
            steps[-2]["split"] = [rng.randrange(1, 8)]
            out.append({'tag': 'split3', 'cfg': {'maxConc': 4}, 'steps': steps})
    # (2) response shapes x sizes (0, 1, one frame -1/0/+1, above the stream window) x reader chunking / EOF style
    sizes = [0, 1, 16383, 16384, 16385, 40000, 70000] if thorough else [0, 1, 16384, 16385, 70000]
    for kind in ('buf', 'stream', 'streamcl'):
        for n in sizes:
            for chunk, eof in ((0, 0), (1000, 1), (16384, 0), (20000, 1)):
                if kind == 'buf' and (chunk, eof) != (0, 0):
                    continue
                steps = req(1) + [finish(1, kind=kind, n=n, chunk=chunk, eof=eof, status=rng.choice([200, 404, 500, 204 if n == 0 else 200]),
                                         hdrs_=rng.choice([[["x-a", "b"], ["cache-control", "no-store"]], [["x_under1", "v"], ["x-a", "b"], ["x-a", "c"]],
                                                           [["set-cookie", "k=v; Path=/"], ["x.dot~tilde", "1"]]]))]
                if n > 65535:
                    steps.append({"op": "wu", "sid": 1, "inc": 100000})
                    steps.append({"op": "wu", "sid": 0, "inc": 100000})
                out.append({'tag': 'shape', 'cfg': {'maxConc': 4}, 'steps': steps})
    # (2b) response header blocks that fill their last frame exactly (k * MAX_FRAME_SIZE octets): where the block ends and
    # where a frame ends coincide.  The size of the encoded block is the server's business, so it is measured first
    # (the filler is a character whose Huffman code has 8 bits: one octet per character either way).
    for mfs in (16384, 20000):
        probe = {'id': 1, 'tag': 'probe', 'cfg': {'maxConc': 4},
                 'steps': ([{"op": "settings", "pairs": [[5, mfs]]}] if mfs != 16384 else []) + req(1) + [finish(1, n=1, hdrs_=[["x-fill", "Z" * 30000]])]}
        pf = os.path.join(ctx.scratch, 'probe%d.scen' % mfs)
        vlib.write_ndjson(pf, [probe])
        ctx.h2v(['srv', '--in', pf, '--out', pf + '.tr'])
        b0 = 0
        for ln in open(pf + '.tr.0'):
            for e in json.loads(ln)['evs']:
                if e['k'] == 'recv' and e['f']['ty'] in (1, 9) and e['f']['sid'] == 1:
                    b0 += e['f']['len']
        if b0 < 30000:
            raise vlib.Inconclusive('could not measure the response header block (got %d)' % b0)
        for k in (2, 3):
            for d in (-1, 0, 1, 2):
                L = 30000 + (k * mfs - b0) + d
                steps = ([{"op": "settings", "pairs": [[5, mfs]]}] if mfs != 16384 else []) + req(1) + req(3) + \
                    [finish(1, n=5, hdrs_=[["x-fill", "Z" * L]]), finish(3, n=2, hdrs_=[["x-after", "1"]])]
                out.append({'tag': 'block-fills-frame', 'cfg': {'maxConc': 4}, 'steps': steps})
    # (2c) request header blocks that fill the decoder's dynamic table to exactly its size (and one octet either side):
    # the oldest entry is still there when the next request refers to it.  Entry size = name + value + 32 (RFC 7541 4.1);
    # the peer's encoder (x/net) inserts every field it cannot find whole in a table.
    base = 40 + 48 + 38          # ":path /s1", ":authority ex.com", "x-sid 1" as inserted by the first request
    for delta in (-1, 0, 1):
        fill = [["x-fill-%03d-abcdefg" % i, "v" * 14] for i in range(61)]            # 61 entries of 18 + 14 + 32 = 64
        last = 4096 - base - 61 * 64 + delta                                        # what is left for one more entry
        fill.append(["x-pad", "p" * (last - 5 - 32)])
        second = [[":method", "GET"], [":scheme", "https"], [":path", "/s1"], [":authority", "ex.com"], ["x-sid", "3"], fill[0], fill[30]]
        steps = req(1, extra=fill) + [finish(1, n=1), {"op": "hdr", "sid": 3, "fields": second, "es": True, "pad": -1}, finish(3, n=1)] + req(5) + [finish(5, n=1)]
        out.append({'tag': 'table-exact-fill', 'cfg': {'maxConc': 4, 'maxHdr': 16384}, 'steps': steps})
    # (3) request bodies: chunkings, padding, empty DATA frames, multi-frame
    for body, chunks in ((1, None), (100, [0, 40, 0, 60]), (100, [100, 0]), (20000, [16000, 4000]), (40000, [16000, 16000, 8000]), (5, [1, 1, 1, 1, 1])):
        for pad in (-1, 0, 5):
            for cl in (False, True):
                steps = req(3, body=body, chunks=chunks, cl=cl, pad=pad)
                for st in steps:
                    if st["op"] == "data":
                        st["pad"] = pad
                out.append({'tag': 'body', 'cfg': {'maxConc': 4}, 'steps': steps + [finish(3, n=3)]})
    # (4) interleavings of three requests' frames and all completion orders
    import itertools
    reqs = {1: req(1, body=10, split=[7]), 3: req(3, extra=[["x-k", "v"]], prio={"dep": 0, "excl": False, "weight": 3}), 5: req(5, body=3, trailers=[["x-t", "z"]])}
    for _ in range(120 if thorough else 25):
        pend = {k: list(v) for k, v in reqs.items()}
        steps = []
        order = []
        # ids must be opened in increasing order; otherwise pick any stream with frames left
        while any(pend.values()):
            cands = [k for k in pend if pend[k] and all(not (j < k and len(pend[j]) == len(reqs[j])) for j in pend)]
            k = rng.choice(cands)
            steps.append(pend[k].pop(0))
        for perm in [rng.sample([1, 3, 5], 3)]:
            for sid in perm:
                steps.append(finish(sid, kind=rng.choice(['buf', 'stream', 'streamcl']), n=rng.choice([0, 7, 20000]), hdrs_=[["x-sid-echo", str(sid)]]))
        out.append({'tag': 'interleave', 'cfg': {'maxConc': 4}, 'steps': steps})
    # frame objects come from pools: requests whose HEADERS carry priority fields that name a stream not opened yet, then a
    # plain request on exactly that stream - it depends on nothing, whatever the recycled frame object last held
    for dep, weight in ((41, 7), (101, 255)):
        steps = []
        for i in range(12):
            sid = 1 + 2 * i
            steps += req(sid, prio={"dep": dep, "excl": i % 2 == 1, "weight": weight}) + [finish(sid, n=1)]
        steps += req(dep, extra=[["x-plain", "1"]]) + [finish(dep, n=2)] + req(dep + 2) + [finish(dep + 2, n=1)]
        out.append({'tag': 'prio-recycled', 'cfg': {'maxConc': 4}, 'steps': steps})
    return out + gen_bighdr_queue(ctx, thorough)


def gen_c06_extra(ctx, thorough):
    """Flow control with real sizes: windows driven negative by SETTINGS, WINDOW_UPDATE to exactly 2^31-1,
    connection window exhausted across streams, frame size against a raised MAX_FRAME_SIZE."""
    rng = ctx.rng
    out = []
    for n in (70000, 140000):
        for kind in ('buf', 'stream', 'streamcl'):
            # exhaust both windows, then grant in small steps, stream and connection in both orders
            for order in ((1, 0), (0, 1)):
                steps = req(1) + [finish(1, kind=kind, n=n)]
                for i in range(6):
                    for sid in order:
                        steps.append({"op": "wu", "sid": sid, "inc": rng.choice([1, 100, 16384, 30000])})
                steps += [{"op": "wu", "sid": 1, "inc": 200000}, {"op": "wu", "sid": 0, "inc": 200000}]
                out.append({'tag': 'drain', 'cfg': {'maxConc': 4}, 'steps': steps})
    # negative window through SETTINGS_INITIAL_WINDOW_SIZE decrease, then recovery
    for iw1, iw2 in ((100, 0), (20000, 10), (65535, 1), (1000, 70000)):
        steps = [{"op": "settings", "pairs": [[4, iw1]]}] + req(1) + req(3) + [finish(1, n=30000), {"op": "settings", "pairs": [[4, iw2]]}, finish(3, kind='stream', n=30000)]
        steps += [{"op": "wu", "sid": 1, "inc": 5}, {"op": "settings", "pairs": [[4, 65535]]}, {"op": "wu", "sid": 1, "inc": 100000}, {"op": "wu", "sid": 3, "inc": 100000}, {"op": "wu", "sid": 0, "inc": 100000}]
        out.append({'tag': 'negwin', 'cfg': {'maxConc': 4}, 'steps': steps})
    # window raised to exactly 2^31-1 (legal) on stream and connection, then a large response
    steps = req(1) + [{"op": "wu", "sid": 1, "inc": MAXWIN - 65535}, {"op": "wu", "sid": 0, "inc": MAXWIN - 65535}, finish(1, n=200000)]
    out.append({'tag': 'tomax', 'cfg': {'maxConc': 4}, 'steps': steps})
    steps = [{"op": "settings", "pairs": [[4, MAXWIN]]}] + req(1) + [finish(1, n=100000), {"op": "wu", "sid": 0, "inc": 100000}]
    out.append({'tag': 'tomax', 'cfg': {'maxConc': 4}, 'steps': steps})
    # peer raises MAX_FRAME_SIZE: frames may grow but never beyond it; default 16384 otherwise
    for mfs in (16384, 32768, 1 << 20):
        steps = [{"op": "settings", "pairs": [[5, mfs], [4, 1000000]]}, {"op": "wu", "sid": 0, "inc": 1000000}] + req(1) + [finish(1, n=100000, kind=rng.choice(['buf', 'stream']))]
        out.append({'tag': 'mfs', 'cfg': {'maxConc': 4}, 'steps': steps})
    # several streams share the connection window
    steps = req(1) + req(3) + req(5) + [finish(5, n=40000), finish(1, n=40000), finish(3, n=40000, kind='stream')]
    for i in range(8):
        steps.append({"op": "wu", "sid": 0, "inc": 16000})
    out.append({'tag': 'share', 'cfg': {'maxConc': 4}, 'steps': steps})
    # a window increase and an INITIAL_WINDOW_SIZE decrease in one write: what the increase releases goes out BEFORE the
    # decrease is acknowledged, never after (the ACK says "from here on I respect the new window")
    for grant, iw2 in ((50000, 5535), (20000, 0), (100000, 60000), (16384, 1)):
        for order in ('wu-first', 'settings-first'):
            burst = [{"op": "wu", "sid": 1, "inc": grant}, {"op": "settings", "pairs": [[4, iw2]]}]
            if order == 'settings-first':
                burst.reverse()
            steps = [{"op": "wu", "sid": 0, "inc": 1000000}] + req(1) + req(3) + [finish(1, n=300000, kind=rng.choice(['buf', 'stream'])), finish(3, n=90000),
                     {"op": "burst", "steps": burst}, {"op": "settings", "pairs": [[4, 65535]]}, {"op": "wu", "sid": 1, "inc": 400000}, {"op": "wu", "sid": 3, "inc": 400000}]
            out.append({'tag': 'ack-order', 'cfg': {'maxConc': 4}, 'steps': steps})
    # k responses blocked at the same time, released by ONE window change (connection WINDOW_UPDATE, or INITIAL_WINDOW_SIZE):
    # every one of them must finish - whichever finishes first, in whatever order the server keeps them
    for k in (2, 3, 4, 5, 8):
        sids = [2 * i + 1 for i in range(k)]
        for variant in range(3 if thorough else 2):
            order = sids[:]
            rng.shuffle(order)
            steps = [{"op": "settings", "pairs": [[4, 1000000]]}]
            for sid in sids:
                steps += req(sid)
            steps += [finish(sid, n=rng.choice([30000, 40000, 66000]), kind=rng.choice(['buf', 'stream'])) for sid in order]
            steps += [{"op": "wu", "sid": 0, "inc": 2000000}]
            out.append({'tag': 'release-conn', 'cfg': {'maxConc': 10}, 'steps': steps})
            # ... the same, the releasing WINDOW_UPDATE written back to back with other frames the stream loop has to look
            # at (a new request, PRIORITY, a late RST_STREAM, a stream WINDOW_UPDATE): they wait in its queue behind it
            nsid = 2 * k + 1
            behind = [{"op": "prio", "sid": nsid + 2, "prio": {"dep": 0, "excl": False, "weight": 1}}, {"op": "wu", "sid": sids[0], "inc": 5},
                      {"op": "prio", "sid": nsid + 4, "prio": {"dep": 0, "excl": False, "weight": 9}}] + req(nsid) + \
                     [{"op": "prio", "sid": nsid + 6, "prio": {"dep": 0, "excl": False, "weight": 3}} for _ in range(rng.choice([0, 5, 30]))]
            rng.shuffle(behind)
            steps = steps[:-1] + [{"op": "burst", "steps": [{"op": "wu", "sid": 0, "inc": 2000000}] + behind}, finish(nsid, n=3)]
            out.append({'tag': 'release-conn-behind', 'cfg': {'maxConc': 10}, 'steps': steps})
            steps = [{"op": "settings", "pairs": [[4, 1000]]}]
            for sid in sids:
                steps += req(sid)
            steps += [finish(sid, n=rng.choice([5000, 7000]), kind=rng.choice(['buf', 'stream'])) for sid in order]
            steps += [{"op": "settings", "pairs": [[4, 100000]]}]
            out.append({'tag': 'release-iw', 'cfg': {'maxConc': 10}, 'steps': steps})
    return out


def gen_c10_extra(ctx, thorough):
    """Connection-scoped offences placed after 0..2 answered / running / half-sent requests, with trailing traffic."""
    rng = ctx.rng
    offences = [
        ('toolarge', {"op": "raw", "ty": 0, "fl": 0, "sid": 1, "len": 16385}),
        ('rstlen', {"op": "raw", "ty": 3, "fl": 0, "sid": 1, "payload": [0, 0, 0]}),
        ('wulen', {"op": "raw", "ty": 8, "fl": 0, "sid": 0, "payload": [0, 0, 0, 1, 0]}),
        ('pinglen', {"op": "raw", "ty": 6, "fl": 0, "sid": 0, "payload": [1, 2, 3]}),
        ('settingslen', {"op": "raw", "ty": 4, "fl": 0, "sid": 0, "payload": [0, 1, 0]}),
        ('settingsack', {"op": "raw", "ty": 4, "fl": 1, "sid": 0, "payload": [0, 1, 0, 0, 0, 1]}),
        ('cont-alone', {"op": "cont", "sid": 1, "eh": True}),
        ('pingsid', {"op": "raw", "ty": 6, "fl": 0, "sid": 3, "payload": [0] * 8}),
        ('settingssid', {"op": "raw", "ty": 4, "fl": 0, "sid": 3, "payload": []}),
        ('data0', {"op": "raw", "ty": 0, "fl": 0, "sid": 0, "payload": [1]}),
        ('headers0', {"op": "raw", "ty": 1, "fl": 5, "sid": 0, "payload": []}),
        ('even', {"op": "hdr", "sid": 2, "fields": hdrs(2), "es": True, "pad": -1}),
        ('lower', {"op": "hdr", "sid": 1, "fields": hdrs(1), "es": True, "pad": -1}),
        ('push', {"op": "raw", "ty": 5, "fl": 4, "sid": 3, "payload": [0, 0, 0, 2]}),
        ('enablepush2', {"op": "settings", "pairs": [[2, 2]]}),
        ('maxframe-small', {"op": "settings", "pairs": [[5, 100]]}),
        ('maxframe-big', {"op": "settings", "pairs": [[5, 1 << 24]]}),
        ('iw-big', {"op": "settings", "pairs": [[4, 1 << 31]]}),
        ('wu0', {"op": "wu", "sid": 0, "inc": 0}),
        ('wuover', {"op": "wu", "sid": 0, "inc": MAXWIN}),
        ('badhpack', {"op": "hdr", "sid": 99, "fields": [], "es": True, "pad": -1, "badhpack": True}),
        ('padbad', {"op": "raw", "ty": 0, "fl": 8, "sid": 1, "payload": [5, 1, 2]}),
        ('unknown-in-block', None),
        ('data-in-block', None),
    ]
    out = []
    for name, off in offences:
        for before in (0, 1, 2, 3):
            steps = []
            sids = [5, 7, 9][:min(before, 3)]
            # before: answered (5), running (7), mid-block / mid-body (9)
            if before >= 1:
                steps += req(5) + [finish(5, n=3)]
            if before >= 2:
                steps += req(7)
            if before >= 3:
                steps += req(9, body=5)[:1]
            if name == 'unknown-in-block':
                steps += [{"op": "hdr", "sid": 11, "fields": hdrs(11), "es": True, "pad": -1, "noeh": True, "split": [4]},
                          {"op": "raw", "ty": 12, "fl": 0, "sid": 0, "payload": [1]}]
            elif name == 'data-in-block':
                steps += [{"op": "hdr", "sid": 11, "fields": hdrs(11), "es": False, "pad": -1, "noeh": True, "split": [4]},
                          {"op": "data", "sid": 5 if before else 11, "n": 1, "es": False, "pad": -1}]
            else:
                o = dict(off)
                steps.append(o)
            # trailing traffic: new requests (must not be dispatched), pings, data
            tail = rng.choice([0, 1, 3])
            for i in range(tail):
                steps += req(21 + 2 * i)
            steps.append({"op": "ping", "n": 1})
            if before >= 2:
                steps.append(finish(7, n=4))
            steps.append({"op": "expectreturn", "ms": 1500})
            out.append({'tag': 'off-' + name, 'cfg': {'maxConc': 4}, 'steps': steps})
    # a large burst of trailing traffic after the offence, peer stops reading
    for name in ('wu0', 'cont-alone', 'toolarge', 'settingssid', 'pingsid', 'lower'):
        off = dict([o for o in offences if o[0] == name][0][1])
        burst = []
        for i in range(300 if thorough else 200):
            # frames the read loop hands on to the stream loop (more than the hand-off queue holds)
            burst.append({"op": "wu", "sid": 0, "inc": 1} if i % 2 else {"op": "ping", "n": i})
        steps = req(5) + [off, {"op": "burst", "steps": burst}, finish(5, n=2), {"op": "expectreturn", "ms": 2500}]
        out.append({'tag': 'trail-' + name, 'cfg': {'maxConc': 4}, 'steps': steps})
        # the offence and the trailing traffic arrive in ONE write: the read loop still has the rest buffered
        # when the stream loop reacts
        steps = req(5) + [{"op": "burst", "steps": [off] + burst}, finish(5, n=2), {"op": "expectreturn", "ms": 2500}]
        out.append({'tag': 'trail1-' + name, 'cfg': {'maxConc': 4}, 'steps': steps})
    # offences the STREAM loop detects and ends on, with more than a hand-off queue of frames behind them
    for name, off in (('data-on-halfclosed', {"op": "data", "sid": 5, "n": 1, "es": False, "pad": -1}),
                      ('headers-on-halfclosed', {"op": "hdr", "sid": 5, "fields": [["x-t", "1"]], "es": True, "pad": -1}),
                      ('selfdep', {"op": "hdr", "sid": 7, "fields": hdrs(7), "es": True, "pad": -1, "prio": {"dep": 7, "excl": False, "weight": 1}})):
        burst = [{"op": "wu", "sid": 0, "inc": 1} for i in range(300 if thorough else 200)]
        for handler_done_first in (False, True):
            steps = req(5) + ([finish(5, kind='stream', n=100000)] if handler_done_first else []) + [{"op": "burst", "steps": [off] + burst}]
            steps += ([] if handler_done_first else [finish(5, n=2)]) + [{"op": "expectreturn", "ms": 2500}]
            out.append({'tag': 'trailsl-' + name, 'cfg': {'maxConc': 4}, 'steps': steps})
    # connection errors only the stream loop can find, while the peer is not reading but goes on sending
    for name, off in (('wuover-sl', {"op": "wu", "sid": 0, "inc": MAXWIN}), ('iw-overflow-sl', {"op": "settings", "pairs": [[4, MAXWIN]]})):
        steps = [{"op": "settings", "pairs": [[4, 10000000]]}, {"op": "wu", "sid": 0, "inc": 10000000}] + req(5) + req(9) + \
                [{"op": "wu", "sid": 5, "inc": 1000}, {"op": "stopread"}, finish(9, kind='stream', n=1000000), {"op": "settle"}, off,
                 {"op": "burst", "steps": [{"op": "ping", "n": i} for i in range(50)]}, {"op": "settle"}, finish(5), {"op": "expectreturn", "ms": 3000}]
        out.append({'tag': 'noread-' + name, 'cfg': {'maxConc': 4, 'outCap': 8192}, 'steps': steps})
    for name, off in ():
        # the peer has stopped reading (its receive buffer is full of a large response) when the stream loop
        # ends the connection, and it goes on sending frames the read loop answers in place
        steps = [{"op": "settings", "pairs": [[4, 10000000]]}, {"op": "wu", "sid": 0, "inc": 10000000}] + req(5) + req(9) + \
                [{"op": "stopread"}, finish(9, kind='stream', n=1000000), {"op": "settle"}, off,
                 {"op": "burst", "steps": [{"op": "ping", "n": i} for i in range(50)]}, {"op": "settle"}, {"op": "expectreturn", "ms": 3000}]
        out.append({'tag': 'trailsl-noread-' + name, 'cfg': {'maxConc': 4, 'outCap': 8192}, 'steps': steps})
        steps = req(5) + [{"op": "stopread"}, off, {"op": "burst", "steps": burst}, {"op": "settle"}, {"op": "expectreturn", "ms": 3000}]
        out.append({'tag': 'trail-noread-' + name, 'cfg': {'maxConc': 4, 'outCap': 4096}, 'steps': steps})
    # two GOAWAY senders at once: the stream loop (DATA on an idle stream) is held inside each step of writeGoAway while
    # the read loop finds an offence of its own (WINDOW_UPDATE(0, 0)); whatever the second one announces, it is not
    # below a request that runs, and not above what the first announced
    for ev, val in (('ga.flag', 0), ('ga.read', 3), ('ga.sent', 3)):
        for second in ({"op": "wu", "sid": 0, "inc": 0}, {"op": "raw", "ty": 6, "fl": 0, "sid": 0, "payload": [1, 2, 3]}):
            steps = req(1) + req(3) + [{"op": "hold", "ev": ev, "sid": val}, {"op": "data", "sid": 9, "n": 3, "es": False, "pad": -1}, second,
                                      {"op": "wait", "ms": 50}, {"op": "slrelease"}, finish(1, n=2), finish(3, n=2), {"op": "expectreturn", "ms": 3000}]
            out.append({'tag': 'ga-two-senders', 'cfg': {'maxConc': 4}, 'steps': steps})
    return out


# ------------------------------------------------------------------ table

FAM = {
    'C01': dict(cfg=('H2Server_c01_q.cfg', 'H2Server_c01_t.cfg'), budget=(900, 8000), units=[1, 9000],
                hcfg=lambda u: {'maxConc': 2, 'unit': u}, extra=gen_c01_extra, props={'C01'}),
    'C06': dict(cfg=('H2Server_c06_q.cfg', 'H2Server_c06_t.cfg'), cfgs_t=('H2Server_c06b_t.cfg',), budget=(900, 8000), units=[13107],
                hcfg=lambda u: {'maxConc': 2, 'unit': u, 'initWin': 2 * u}, extra=gen_c06_extra, props={'C06'}),
    'C10': dict(cfg=('H2Server_c10_q.cfg', 'H2Server_c10_t.cfg'), budget=(700, 6000), units=[1],
                hcfg=lambda u: {'maxConc': 2, 'unit': u, 'initWin': 2, 'maxBody': 3}, extra=gen_c10_extra, props={'C10'}),
}


# ------------------------------------------------------------------ C09 C13 C14 C17 C18 C20 generators

def dyn(k):
    return ["x-dyn-%d" % k, "dynamic-value-%d-%s" % (k, "z" * (k % 7))]


def gen_c09_extra(ctx, thorough):
    """One or more stream-scoped offences among good streams; header blocks of the offending streams insert
    dynamic-table entries that LATER good requests reference (x/net's encoder indexes repeated fields)."""
    rng = ctx.rng
    out = []
    good_after = lambda sid, k: req(sid, extra=[dyn(k), ["x-plain", "p"]]) + [finish(sid, n=4, hdrs_=[["x-echo", str(sid)]])]

    def wrap(name, offence_steps, cfg=None, pre_running=True, k=1, extra_tail=None):
        c = {'maxConc': 3, 'noconnerr': True}
        c.update(cfg or {})
        steps = []
        steps += req(1, extra=[["x-base", "b"]])            # a good stream, handler running during the offence
        steps += offence_steps
        steps += good_after(21, k)                          # opened later, references the offender's inserts
        steps += [finish(1, n=3)]
        steps += good_after(23, k)
        steps += extra_tail or []
        out.append({'tag': 'c09-' + name, 'cfg': c, 'steps': steps})

    for k in (1, 2, 3):
        # (a) malformed field before / after an insert in the same block, block possibly split
        for pos in ('before', 'after'):
            extra = [dyn(k), ["X-Upper", "1"]] if pos == 'after' else [["X-Upper", "1"], dyn(k)]
            for split in (None, [20], [45, 60]):
                st = req(3, extra=extra, split=split)
                wrap('malformed-%s' % pos, st, k=k)
        # connection-specific / te / pseudo after regular / duplicate pseudo
        for bad in ([["connection", "close"]], [["te", "gzip"]], [["x-a", "1"], [":path", "/again"]], [[":method", "PUT"]]):
            wrap('malformed-misc', req(3, extra=[dyn(k)] + bad + [["x-tail", "t"]]), k=k)
        # (b) over-limit body: declared and actual
        wrap('body-declared', [{"op": "hdr", "sid": 3, "fields": hdrs(3, "POST", [dyn(k)], cl=5000), "es": False, "pad": -1},
                               {"op": "data", "sid": 3, "n": 100, "es": False, "pad": -1}], cfg={'maxBody': 1000}, k=k)
        # ... the declared length standing BEFORE the fields that insert into the table (the rest of the block still counts)
        for split in (None, [40]):
            f = hdrs(3, "POST")
            f = f[:4] + [["content-length", "5000"]] + f[4:] + [dyn(k), ["x-tail", "t"]]
            st = {"op": "hdr", "sid": 3, "fields": f, "es": False, "pad": -1}
            if split:
                st["split"] = split
            wrap('body-declared-first', [st, {"op": "data", "sid": 3, "n": 100, "es": False, "pad": -1}], cfg={'maxBody': 1000}, k=k)
        wrap('body-actual', req(3, body=3000, extra=[dyn(k)], chunks=[600, 600, 600, 600, 600]), cfg={'maxBody': 1000}, k=k)
        # (c) refused stream over the limit (two handlers running + one more), with inserts, block split
        wrap('refused', req(3, extra=[["x-o", "1"]]) + req(5, extra=[["x-o", "2"]]) + req(7, extra=[dyn(k)], split=[30]) + [finish(3), finish(5)], k=k)
        # (c2) a refused stream whose peer had more in flight for it: body DATA, trailers, its own RST_STREAM, a WINDOW_UPDATE
        for tail in ([{"op": "data", "sid": 7, "n": 20, "es": True, "pad": -1}],
                     [{"op": "data", "sid": 7, "n": 20, "es": False, "pad": 3}, {"op": "hdr", "sid": 7, "fields": [["x-t", "1"]], "es": True, "pad": -1}],
                     [{"op": "rst", "sid": 7, "code": 8}], [{"op": "wu", "sid": 7, "inc": 10}, {"op": "rst", "sid": 7, "code": 8}]):
            wrap('refused-inflight', req(3, extra=[["x-o", "1"]]) + req(5, extra=[["x-o", "2"]]) +
                 [{"op": "hdr", "sid": 7, "fields": hdrs(7, "POST", [dyn(k)]), "es": False, "pad": -1}] + [dict(t) for t in tail] + [finish(3), finish(5)], k=k)
        # (d) peer RST at each life stage
        wrap('rst-after-headers', [{"op": "hdr", "sid": 3, "fields": hdrs(3, "POST", [dyn(k)]), "es": False, "pad": -1}, {"op": "rst", "sid": 3, "code": 8}], k=k)
        wrap('rst-mid-body', req(3, body=50, extra=[dyn(k)])[:2] + [{"op": "rst", "sid": 3, "code": 8}] if False else
             [{"op": "hdr", "sid": 3, "fields": hdrs(3, "POST", [dyn(k)]), "es": False, "pad": -1}, {"op": "data", "sid": 3, "n": 10, "es": False, "pad": -1}, {"op": "rst", "sid": 3, "code": 8}], k=k)
        wrap('rst-handler-running', req(3, extra=[dyn(k)]) + [{"op": "rst", "sid": 3, "code": 8}], k=k, extra_tail=[finish(3, n=2)])
        wrap('rst-reply-blocked', req(3, extra=[dyn(k)]) + [finish(3, n=100000), {"op": "rst", "sid": 3, "code": 8}], k=k)
        # (e) handler panic
        wrap('panic', req(3, extra=[dyn(k)]) + [finish(3, kind='panic')], k=k)
        # (f) stream window overflow
        wrap('wu-overflow', req(3, extra=[dyn(k)]) + [{"op": "wu", "sid": 3, "inc": MAXWIN}], k=k, extra_tail=[finish(3)])
        wrap('wu-zero', req(3, extra=[dyn(k)]) + [{"op": "wu", "sid": 3, "inc": 0}], k=k, extra_tail=[finish(3)])
        # (g) frames in flight after the server's reset: DATA, trailers with inserts, WU, RST
        after = [{"op": "data", "sid": 3, "n": 30, "es": False, "pad": 3},
                 {"op": "wu", "sid": 3, "inc": 10},
                 {"op": "hdr", "sid": 3, "fields": [dyn(k + 10), ["x-t", "1"]], "es": True, "pad": -1, "split": [9]},
                 {"op": "rst", "sid": 3, "code": 8}]
        wrap('inflight-after-rst', [{"op": "hdr", "sid": 3, "fields": hdrs(3, "POST", [dyn(k), ["X-Bad", "1"]]), "es": False, "pad": -1}] + after, k=k + 10)
        # (h) content-length mismatch
        wrap('cl-mismatch', req(3, body=5, extra=[dyn(k)]) [:1] + [{"op": "data", "sid": 3, "n": 5, "es": True, "pad": -1}] if False else
             [{"op": "hdr", "sid": 3, "fields": hdrs(3, "POST", [dyn(k)], cl=9), "es": False, "pad": -1}, {"op": "data", "sid": 3, "n": 5, "es": True, "pad": -1}], k=k)
    # many discarded DATA frames in flight must not starve the connection window (credit must come back)
    big = [{"op": "data", "sid": 3, "n": 16000, "es": False, "pad": -1} for _ in range(320 if thorough else 290)]
    wrap('inflight-data-credit', [{"op": "hdr", "sid": 3, "fields": hdrs(3, "POST", [["X-Bad", "1"]]), "es": False, "pad": -1}, {"op": "burst", "steps": big}], k=1)
    # ... and neither must their padding and Pad Length octets: ~4.4 MB of them in frames that carry one octet of data each,
    # on a stream reset for its body size
    padded = [{"op": "data", "sid": 3, "n": 1, "es": False, "pad": 255} for _ in range(17500)]
    bursts = [{"op": "burst", "steps": padded[i:i + 500]} for i in range(0, len(padded), 500)]
    wrap('inflight-padding-credit', [{"op": "hdr", "sid": 3, "fields": hdrs(3, "POST"), "es": False, "pad": -1},
                                     {"op": "data", "sid": 3, "n": 1500, "es": False, "pad": -1}] + bursts, cfg={'maxBody': 1000}, k=1)
    return out


def hpack_int(v, prefix, flags=0):
    """RFC 7541 5.1 integer, as octets."""
    lim = (1 << prefix) - 1
    if v < lim:
        return [flags | v]
    out, v = [flags | lim], v - lim
    while v >= 128:
        out.append(0x80 | (v & 0x7f)); v >>= 7
    return out + [v]


def gen_c13_extra(ctx, thorough):
    rng = ctx.rng
    N = 600 if thorough else 150
    out = []
    cfg = {'maxConc': 3, 'maxBody': 2000, 'maxHdr': 4096}
    # rapid reset with handlers held: slots stay bounded
    steps = []
    for i in range(N):
        sid = 1 + 2 * i
        steps += req(sid) + [{"op": "rst", "sid": sid, "code": 8}]
    out.append({'tag': 'rapid-reset', 'cfg': cfg, 'steps': steps})
    # a refused (or malformed) request whose header block goes on and on: a field cut by the end of a frame is kept until
    # the next frame completes it - a field that declares a megabyte is not worth keeping
    for why in ('refused', 'malformed'):
        for declared in (1 << 20, 100000):
            lit = [0x00, 0x01, ord('x')] + hpack_int(declared, 7)          # literal without indexing, new name "x", value of `declared` octets
            first = [0x82, 0x87, 0x84, 0x01, 0x06] + [ord(c) for c in "ex.com"]
            if why == 'malformed':
                first += [0x00, 0x01, ord('X'), 0x01, ord('1')]           # capital in a field name
            steps = req(1) + req(3) + req(5)
            if why == 'malformed':
                steps = req(1)
            steps += [{"op": "raw", "ty": 1, "fl": 1, "sid": 7, "payload": first + lit + [97] * 100}]
            steps += [{"op": "raw", "ty": 9, "fl": 0, "sid": 7, "payload": [97] * 16000} for _ in range(40)]
            steps += [{"op": "settle"}, finish(1, n=1)]
            out.append({'tag': 'discard-cut-field', 'cfg': cfg, 'steps': steps})
    # streams left half-open (HEADERS without END_STREAM), never finished
    steps = []
    for i in range(N):
        steps.append({"op": "hdr", "sid": 1 + 2 * i, "fields": hdrs(1 + 2 * i, "POST"), "es": False, "pad": -1})
    out.append({'tag': 'half-open', 'cfg': cfg, 'steps': steps})
    # PRIORITY / WINDOW_UPDATE on ever-new idle ids
    steps = [{"op": "prio", "sid": 1 + 2 * i, "prio": {"dep": 0, "excl": False, "weight": 1}} for i in range(N)]
    out.append({'tag': 'priority-flood', 'cfg': cfg, 'steps': [{"op": "burst", "steps": steps[:100]}] + steps[100:]})
    # endless CONTINUATION: a literal whose declared length never arrives
    huge = [0x00, 0x7f, 0x80, 0x80, 0x80, 0x40]        # literal, new name, length 127 + 0x40<<21 (128 MiB)
    steps = [{"op": "raw", "ty": 1, "fl": 0, "sid": 1, "payload": huge + [97] * 1000}]
    for i in range(60 if thorough else 25):
        steps.append({"op": "raw", "ty": 9, "fl": 0, "sid": 1, "payload": [97] * 16000})
    out.append({'tag': 'continuation-flood', 'cfg': cfg, 'steps': steps})
    # many small fields across CONTINUATION frames: header list limit
    fields = hdrs(1) + [["x-f%d" % i, "v" * 50] for i in range(200)]
    out.append({'tag': 'header-list-limit', 'cfg': cfg, 'steps': [{"op": "hdr", "sid": 1, "fields": fields, "es": True, "pad": -1, "split": [1000, 2000, 3000, 5000]}]})
    # the header list a handler is given includes the trailers: request fields and trailer fields share ONE budget
    for hsz, tsz in ((3000, 3000), (3900, 400), (100, 3950), (2000, 1900)):
        fields = hdrs(1, "POST") + [["x-f%d" % i, "v" * 90] for i in range(hsz // 128)]
        trailers = [["x-t%d" % i, "w" * 90] for i in range(tsz // 128)]
        steps = [{"op": "hdr", "sid": 1, "fields": fields, "es": False, "pad": -1}, {"op": "data", "sid": 1, "n": 5, "es": False, "pad": -1},
                 {"op": "hdr", "sid": 1, "fields": trailers, "es": True, "pad": -1, "split": [500] if tsz > 1000 else []}, finish(1, n=1)]
        out.append({'tag': 'trailer-list-limit', 'cfg': cfg, 'steps': steps})
    # oversized and mis-declared bodies
    for body, cl in ((5000, None), (1500, 100), (100, 1500), (2000, 2000), (2001, None)):
        f = hdrs(1, "POST", cl=cl)
        steps = [{"op": "hdr", "sid": 1, "fields": f, "es": False, "pad": -1}, {"op": "data", "sid": 1, "n": body, "es": True, "pad": -1, "chunks": [body // 2, body - body // 2]}]
        steps += req(3) + [finish(3, n=1)]
        out.append({'tag': 'body-limit', 'cfg': cfg, 'steps': steps})
    # a body that never ends: declared small (or not at all), streamed far beyond the limit without END_STREAM
    for cl in (None, 100, 1500, 2000):
        f = hdrs(1, "POST", cl=cl)
        steps = [{"op": "hdr", "sid": 1, "fields": f, "es": False, "pad": -1}]
        steps += [{"op": "data", "sid": 1, "n": 1500, "es": False, "pad": -1} for _ in range(30)]
        steps += req(3) + [finish(3, n=1)]
        out.append({'tag': 'body-endless', 'cfg': cfg, 'steps': steps})
    # a peer that has stopped reading floods DATA on an open stream: every frame is owed a WINDOW_UPDATE the server cannot
    # get rid of - it has to push back, not to pile the replies up somewhere else
    for nfr in (300, 900):
        steps = [{"op": "hdr", "sid": 1, "fields": hdrs(1, "POST"), "es": False, "pad": -1}, {"op": "stopread"}]
        steps += [{"op": "burst", "steps": [{"op": "data", "sid": 1, "n": 2, "es": False, "pad": -1} for _ in range(300)]} for _ in range(nfr // 300)]
        steps += [{"op": "settle"}, {"op": "resumeread"}] + req(3) + [finish(3, n=1)]
        out.append({'tag': 'data-flood-stopread', 'cfg': dict(cfg, outCap=512), 'steps': steps})
    # control-frame floods with slow handlers and a peer that reads slowly
    for kind in ('ping', 'settings'):
        fl = [({"op": "ping", "n": i} if kind == 'ping' else {"op": "settings", "pairs": [[3, 10]]}) for i in range(N)]
        steps = req(1) + req(3) + [{"op": "burst", "steps": fl[:N // 2]}] + fl[N // 2:N // 2 + 20] + [finish(1), finish(3)]
        out.append({'tag': 'control-flood-' + kind, 'cfg': cfg, 'steps': steps})
    # over the concurrency limit: excess requests are refused, never run
    steps = []
    for i in range(10):
        steps += req(1 + 2 * i)
    steps += [finish(1), finish(3), finish(5)] + req(41) + [finish(41)]
    out.append({'tag': 'over-limit', 'cfg': cfg, 'steps': steps})
    return out


def gen_c14_extra(ctx, thorough):
    """A conforming sender uploads within its windows; the receiver must hand credit back."""
    out = []
    mb = 1 << 20
    # accepted upload larger than both windows, various chunkings / padding
    for total, chunk, pad in ((6 * mb, 16000, -1), (5 * mb, 16384 - 256, 200), (5 * mb, 100, -1) if thorough else (1 * mb, 4000, -1), (5 * mb, 1, 255)):
        nfr = total // max(chunk, 1) if chunk > 1 else 20000
        frames = [{"op": "data", "sid": 1, "n": chunk, "es": False, "pad": pad} for _ in range(min(nfr, 400))]
        steps = [{"op": "hdr", "sid": 1, "fields": hdrs(1, "POST"), "es": False, "pad": -1}]
        for i in range(0, len(frames), 40):
            steps.append({"op": "burst", "steps": frames[i:i + 40]})
        steps += [{"op": "data", "sid": 1, "n": 1, "es": True, "pad": -1}, finish(1, n=1)]
        out.append({'tag': 'upload', 'cfg': {'maxConc': 4, 'maxBody': 64 * mb}, 'steps': steps})
    # bodies that end in a stream error: the rejected DATA still has to be credited (several streams in a row)
    steps = []
    for i in range(40 if thorough else 30):
        sid = 1 + 2 * i
        steps.append({"op": "hdr", "sid": sid, "fields": hdrs(sid, "POST"), "es": False, "pad": -1})
        steps.append({"op": "burst", "steps": [{"op": "data", "sid": sid, "n": 16000, "es": False, "pad": -1} for _ in range(12)]})
    steps += req(201) + [finish(201, n=1)]
    out.append({'tag': 'rejected-bodies', 'cfg': {'maxConc': 4, 'maxBody': 20000}, 'steps': steps})
    # every stream's single DATA frame is the one that crosses the limit (and is dropped): more of them than
    # the whole connection window (65535 + 4 MiB) must still leave the sender with credit
    steps = []
    for i in range(330 if thorough else 300):
        sid = 1 + 2 * i
        steps.append({"op": "burst", "steps": [{"op": "hdr", "sid": sid, "fields": hdrs(sid, "POST"), "es": False, "pad": -1},
                                               {"op": "data", "sid": sid, "n": 16000, "es": False, "pad": -1}]})
    steps += req(1001) + [finish(1001, n=1)]
    out.append({'tag': 'rejected-first-frame', 'cfg': {'maxConc': 4, 'maxBody': 1000}, 'steps': steps})
    # DATA frames that carry padding and nothing else: 16384 x 256 octets are the whole stream window
    steps = [{"op": "hdr", "sid": 1, "fields": hdrs(1, "POST"), "es": False, "pad": -1}]
    for i in range(0, 16384, 512):
        steps.append({"op": "burst", "steps": [{"op": "data", "sid": 1, "n": 0, "es": False, "pad": 255} for _ in range(512)]})
    steps += [{"op": "data", "sid": 1, "n": 5, "es": True, "pad": -1}, finish(1, n=1)]
    out.append({'tag': 'padding-only', 'cfg': {'maxConc': 4, 'maxOut': 40000}, 'steps': steps})
    # interleaved uploads on three streams, one of them reset by the peer half way
    steps = [{"op": "hdr", "sid": s, "fields": hdrs(s, "POST"), "es": False, "pad": -1} for s in (1, 3, 5)]
    for rnd in range(60):
        steps.append({"op": "burst", "steps": [{"op": "data", "sid": s, "n": 15000, "es": False, "pad": 10 if s == 3 else -1} for s in (1, 3, 5) if not (s == 5 and rnd > 30)]})
        if rnd == 30:
            steps.append({"op": "rst", "sid": 5, "code": 8})
    steps += [{"op": "data", "sid": 1, "n": 0, "es": True, "pad": -1}, {"op": "data", "sid": 3, "n": 0, "es": True, "pad": -1}, finish(1), finish(3)]
    out.append({'tag': 'interleaved', 'cfg': {'maxConc': 4, 'maxBody': 64 * mb}, 'steps': steps})
    return out


def gen_frame_shapes(ctx, thorough, nquick):
    """Every small shape of every frame type: type x subset of its defined flags x payload length 0..10 x filler,
    on a new stream, on an open one and on stream 0 - then an ordinary request, which must still be served or the
    connection properly ended (no panic, no wedge, reaction within RFC7540!Allowed); the quick tier samples the
    product, the thorough tier takes all of it."""
    rng = ctx.rng
    out = []
    defined = {0: [1, 8], 1: [1, 4, 8, 0x20], 2: [], 3: [], 4: [1], 5: [4, 8], 6: [1], 7: [], 8: [], 9: [4], 10: []}
    shapes = []
    for ty, fl in defined.items():
        subsets = [0]
        for b in fl:
            subsets += [x | b for x in subsets]
        for flags in subsets:
            for ln in range(0, 11):
                for fill in ('zero', 'ff', 'count', 'len'):
                    shapes.append((ty, flags, ln, fill))
    if not thorough:
        shapes = rng.sample(shapes, nquick) + [s for s in shapes if s[0] == 1 and s[1] & 0x28 == 0x28 and s[3] in ('zero', 'len')][:40]
    for ty, flags, ln, fill in shapes:
        payload = {'zero': [0] * ln, 'ff': [255] * ln, 'count': list(range(1, ln + 1)), 'len': [max(ln - 1, 0)] + [0] * max(ln - 1, 0)}[fill][:ln]
        where = rng.choice(['new', 'open', 'zero'])
        steps = []
        if where == 'open':
            steps += [{"op": "hdr", "sid": 1, "fields": hdrs(1, "POST"), "es": False, "pad": -1}]
        steps += [{"op": "raw", "ty": ty, "fl": flags, "sid": 0 if where == 'zero' else (1 if where == 'open' else 3), "payload": payload}]
        steps += req(5) + [finish(5, n=2), {"op": "ping", "n": 1}, {"op": "close"}]
        out.append({'tag': 'frame-shape', 'cfg': {'maxConc': 4}, 'steps': steps})
    return out


def gen_c17_extra(ctx, thorough):
    """Every prefix of recorded well-formed client streams; structure-aware mutations; peer stops reading;
    writes fail at the k-th byte; disconnect while handlers run."""
    rng = ctx.rng
    out = []
    base = req(1, body=20, extra=[["x-a", "b"]], split=[9]) + req(3, extra=[["cookie", "q=1"]], pad=3) + \
        [{"op": "settings", "pairs": [[4, 70000]]}, {"op": "ping", "n": 1}, {"op": "wu", "sid": 0, "inc": 10}] + req(5, body=5, trailers=[["x-t", "1"]])
    total = 400
    cuts = range(0, total) if thorough else sorted(set(list(range(0, 60)) + rng.sample(range(60, total), 60)))
    for k in cuts:
        for released in ((True, False) if k % 7 == 0 else (True,)):
            steps = [{"op": "cut", "steps": base, "cut": k}]
            if released:
                steps += [finish(1, n=3), finish(3, kind='stream', n=5), finish(5)]
            steps.append({"op": "close"})
            out.append({'tag': 'prefix', 'cfg': {'maxConc': 4}, 'steps': steps})
    # mutations: delete / duplicate / swap / flip a field of one step
    def mutate(steps):
        s = [json.loads(json.dumps(x)) for x in steps]
        m = rng.choice(['del', 'dup', 'swap', 'flip', 'raw'])
        i = rng.randrange(len(s))
        if m == 'del':
            del s[i]
        elif m == 'dup':
            s.insert(i, json.loads(json.dumps(s[i])))
        elif m == 'swap' and len(s) > 1:
            j = rng.randrange(len(s)); s[i], s[j] = s[j], s[i]
        elif m == 'flip':
            st = s[i]
            if 'sid' in st:
                st['sid'] = rng.choice([0, 2, st['sid'] + 2, 1, 2**31 - 1])
            if 'es' in st:
                st['es'] = not st['es']
        else:
            s.insert(i, {"op": "raw", "ty": rng.randrange(0, 12), "fl": rng.choice([0, 1, 4, 5, 8, 0x20, 0xff]), "sid": rng.choice([0, 1, 3, 5, 7]),
                         "payload": [rng.randrange(256) for _ in range(rng.choice([0, 1, 4, 5, 8, 9, 30]))]})
        return s
    for _ in range(3000 if thorough else 250):
        s = mutate(base)
        if rng.random() < 0.5:
            s = mutate(s)
        fin = [finish(1), finish(3), finish(5)] if rng.random() < 0.7 else []
        tail = rng.choice([[{"op": "close"}], [{"op": "stopread"}, {"op": "settle"}, {"op": "close"}], [{"op": "failwrites", "after": rng.randrange(0, 200)}] ])
        pre = [{"op": "failwrites", "after": rng.randrange(0, 300)}] if rng.random() < 0.2 else []
        out.append({'tag': 'mutant', 'cfg': {'maxConc': 4, 'outCap': rng.choice([0, 0, 64, 1024])}, 'steps': pre + s + tail + fin})
    # frames on streams that ended in each possible way, then more traffic, then the peer goes away
    late = [{"op": "data", "sid": 1, "n": 3, "es": False, "pad": -1}, {"op": "data", "sid": 1, "n": 0, "es": True, "pad": 2},
            {"op": "hdr", "sid": 1, "fields": [["x-late", "1"]], "es": True, "pad": -1}, {"op": "cont", "sid": 1, "eh": True},
            {"op": "wu", "sid": 1, "inc": 5}, {"op": "rst", "sid": 1, "code": 8}, {"op": "prio", "sid": 1, "prio": {"dep": 0, "excl": False, "weight": 1}}]
    endings = {'answered': req(1) + [finish(1, n=3)],
               'peer-reset': [{"op": "hdr", "sid": 1, "fields": hdrs(1, "POST"), "es": False, "pad": -1}, {"op": "rst", "sid": 1, "code": 8}],
               'server-reset': [{"op": "hdr", "sid": 1, "fields": hdrs(1, "POST", [["X-Bad", "1"]]), "es": False, "pad": -1}],
               'refused': req(1)[:0] + [{"op": "hdr", "sid": 1, "fields": hdrs(1, "POST", [["te", "gzip"]]), "es": True, "pad": -1}]}
    for name, pre in endings.items():
        for fr in late:
            steps = pre + [fr] + req(3) + [finish(3, n=2), {"op": "ping", "n": 1}, {"op": "close"}]
            out.append({'tag': 'late-' + name, 'cfg': {'maxConc': 4}, 'steps': steps})
    out += gen_frame_shapes(ctx, thorough, 260)
    # the idle timer fires while the stream loop is held just before its select with a new request already waiting: the
    # select may take the request first (which re-arms the timer) and the close second.  Whichever it takes, nothing may
    # panic when the timer comes round again, and the connection still ends.  (A coin is tossed inside select: several copies.)
    for k in range(4 if thorough else 2):
        steps = req(1) + [{"op": "slpark"}, {"op": "wait", "ms": 230}] + req(3) + [{"op": "slrelease"}, {"op": "wait", "ms": 400},
                                                                                 finish(1, n=2), finish(3, n=2), {"op": "close"}]
        out.append({'tag': 'idle-race', 'cfg': {'maxConc': 4, 'idleMs': 150}, 'steps': steps})
        # ... or the stream loop has just decided to accept a new stream (the closing flag was still down) when the timer
        # fires: it is held in the step hook between that decision and the timer's re-arming until the timer has run
        steps = req(1) + [{"op": "hold", "ev": "sl.accept", "sid": 3}] + req(3) + [{"op": "wait", "ms": 230}, {"op": "slrelease"}, {"op": "wait", "ms": 400},
                                                                                  finish(1, n=2), finish(3, n=2), {"op": "close"}]
        out.append({'tag': 'idle-race', 'cfg': {'maxConc': 4, 'idleMs': 150}, 'steps': steps})
        # ... the same, with a peer that has stopped reading: the GOAWAY cannot be written, the connection cannot finish
        # closing, and lives long enough to see the re-armed timer come round
        steps = req(1) + [{"op": "hold", "ev": "sl.accept", "sid": 3}] + req(3) + \
            [{"op": "stopread"}, {"op": "wait", "ms": 230}, {"op": "slrelease"}, {"op": "wait", "ms": 400}, {"op": "resumeread"}, finish(1, n=2), finish(3, n=2), {"op": "close"}]
        out.append({'tag': 'idle-race', 'cfg': {'maxConc': 4, 'idleMs': 150, 'outCap': 16}, 'steps': steps})
        # ... and the waiting frame may be the trailers that complete a request on a stream that is already open
        steps = [{"op": "hdr", "sid": 1, "fields": hdrs(1, "POST"), "es": False, "pad": -1}, {"op": "data", "sid": 1, "n": 3, "es": False, "pad": -1},
                 {"op": "slpark"}, {"op": "wait", "ms": 230}, {"op": "hdr", "sid": 1, "fields": [["x-trailer", "t"]], "es": True, "pad": -1},
                 {"op": "slrelease"}, {"op": "wait", "ms": 400}, finish(1, n=2), {"op": "close"}]
        out.append({'tag': 'idle-race', 'cfg': {'maxConc': 4, 'idleMs': 150}, 'steps': steps})
    # the stream loop held inside a step hook (stream 3 just published / accepted / refused, or parked before its select)
    # while something else happens to the connection; then released.  No panic, no wedge, every reaction within the oracle.
    events = {
        'peer-rst': [{"op": "rst", "sid": 3, "code": 8}],
        'peer-data': [{"op": "data", "sid": 3, "n": 5, "es": True, "pad": -1}],
        'handler-done': [finish(1, n=3)],
        'bad-frame': [{"op": "wu", "sid": 0, "inc": 0}],
        'ping-settings': [{"op": "ping", "n": 7}, {"op": "settings", "pairs": [[4, 70000]]}],
        'peer-gone': [{"op": "close"}],
    }
    for ev in ('sl.publish', 'sl.accept'):
        for name, evsteps in events.items():
            third = [{"op": "hdr", "sid": 3, "fields": hdrs(3, "POST"), "es": False, "pad": -1}] if name == 'peer-data' else req(3)
            steps = req(1) + [{"op": "hold", "ev": ev, "sid": 3}] + third + [dict(e) for e in evsteps] + [{"op": "slrelease"}]
            if name != 'peer-gone':
                steps += ([finish(1, n=3)] if name != 'handler-done' else []) + [finish(3, n=2)] + req(5) + [finish(5, n=1), {"op": "close"}]
            out.append({'tag': 'hold-' + name, 'cfg': {'maxConc': 4}, 'steps': steps})
    # more handlers running than the completion queue holds when the peer disconnects
    for nh in (140, 200):
        steps = []
        for i in range(nh):
            steps += req(1 + 2 * i)
        steps += [{"op": "close"}]
        out.append({'tag': 'many-handlers', 'cfg': {'maxConc': 300}, 'steps': steps})
    # peer stops reading while large responses are pending, then disconnects with handlers running
    for n in (100000, 2000000, 3000000, 6000000):      # the larger ones overflow the 128-frame write queue
        steps = [{"op": "settings", "pairs": [[4, 10000000]]}, {"op": "wu", "sid": 0, "inc": 10000000}] + req(1) + req(3) + [{"op": "stopread"}, finish(1, n=n, kind='stream'), {"op": "settle"}, {"op": "close"}, finish(3)]
        out.append({'tag': 'stopread', 'cfg': {'maxConc': 4, 'outCap': 8192}, 'steps': steps})
    return out


def gen_c18_extra(ctx, thorough):
    rng = ctx.rng
    out = []
    ids = {1: [0, 100, 4096, 65536], 2: [0, 1], 3: [0, 1, 100], 4: [0, 1, 65535, MAXWIN], 5: [16384, 20000, (1 << 24) - 1], 6: [0, 100, 1 << 20], 9: [7], 0xff: [1]}
    # SETTINGS sequences: subsets, repeats, unknown ids, boundary values; interleaved with requests
    for _ in range(400 if thorough else 60):
        steps = []
        nreq = 0
        for j in range(rng.randrange(2, 7)):
            pairs = []
            for _ in range(rng.randrange(0, 4)):
                i = rng.choice(list(ids))
                pairs.append([i, rng.choice(ids[i])])
            steps.append({"op": "settings", "pairs": pairs})
            if rng.random() < 0.5:
                sid = 1 + 2 * nreq; nreq += 1
                steps += req(sid, extra=[["x-k", "v%d" % sid]]) + [finish(sid, n=rng.choice([0, 10, 30000]), hdrs_=[["x-resp", "r" * rng.choice([1, 100])]])]
                steps += [{"op": "wu", "sid": sid, "inc": 100000}, {"op": "wu", "sid": 0, "inc": 100000}]
        out.append({'tag': 'settings-seq', 'cfg': {'maxConc': 8}, 'steps': steps})
    # invalid values -> connection error with the RFC's code
    for pairs in ([[2, 2]], [[5, 16383]], [[5, 1 << 24]], [[4, 1 << 31]], [[4, 100], [2, 7]]):
        out.append({'tag': 'settings-invalid', 'cfg': {'maxConc': 8}, 'steps': req(1) + [{"op": "settings", "pairs": pairs}, finish(1), {"op": "expectreturn", "ms": 1500}]})
    # header table size: a parameter that is absent from a later SETTINGS frame keeps its value
    for hts in (0, 64, 256):
        steps = [{"op": "settings", "pairs": [[1, hts]]}, {"op": "settings", "pairs": [[4, 70000]]}]
        for i in range(4):
            sid = 1 + 2 * i
            steps += req(sid) + [finish(sid, n=5, hdrs_=[["x-custom-response-header", "value-%d" % (i % 2)], ["x-other", "o"]])]
        out.append({'tag': 'table-size', 'cfg': {'maxConc': 8}, 'steps': steps})
    # response header block larger than the peer's MAX_FRAME_SIZE must be split
    for sz in (10000, 20000, 40000):
        steps = req(1) + [finish(1, n=3, hdrs_=[["x-big-%d" % i, "v" * 1000] for i in range(sz // 1000)])]
        out.append({'tag': 'big-headers', 'cfg': {'maxConc': 8}, 'steps': steps})
    # the server enforces what IT advertised (16384), whatever the peer advertised
    steps = [{"op": "settings", "pairs": [[5, 65536]]}] + [{"op": "hdr", "sid": 1, "fields": hdrs(1, "POST"), "es": False, "pad": -1},
             {"op": "raw", "ty": 0, "fl": 1, "sid": 1, "len": 20000}]
    out.append({'tag': 'own-frame-size', 'cfg': {'maxConc': 8}, 'steps': steps})
    # the very first frame of a connection is already held to the limit
    out.append({'tag': 'first-frame-size', 'cfg': {'maxConc': 8, 'noSetup': True}, 'steps': [{"op": "raw", "ty": 4, "fl": 0, "sid": 0, "len": 6 * 5000}]})
    return out


VOCAB = [[":method", "GET"], [":method", "POST"], [":scheme", "https"], [":path", "/x"], [":path", ""], [":authority", "ex.com"],
         [":status", "200"], [":foo", "bar"], ["Upper", "x"], ["connection", "close"], ["keep-alive", "1"], ["te", "trailers"], ["te", "gzip"],
         ["content-length", "3"], ["content-length", "abc"], ["content-length", "18446744073709551621"], ["content-length", "03"],
         ["content-length", ""], ["x-a", "b"], ["cookie", "a=b"], ["transfer-encoding", "chunked"], ["upgrade", "h2c"], ["proxy-connection", "x"],
         ["x-a", "c"], ["host", "ex.com"]]


def gen_c20_from_lists(ctx, lists):
    """lists: header lists as index sequences into VOCAB (generated by TLC from HttpMsgModel.tla)."""
    out = []
    rng = ctx.rng
    for li, idx in enumerate(lists):
        fields = [VOCAB[i] for i in idx] + [["x-sid", "3"]]
        body = rng.choice([0, 3, 3, 5])
        trailers = rng.choice([None, None, [["x-t", "1"]], [[":path", "/t"]], [["X-T", "1"]]]) if body else None
        steps = []
        position = rng.choice(['first', 'after', 'history'])
        if position != 'first':
            steps += req(1, extra=[["x-a", "b"], ["cookie", "a=b"]]) + [finish(1, n=2)]
        st = {"op": "hdr", "sid": 3, "fields": fields, "es": body == 0 and not trailers, "pad": -1}
        r0 = rng.random()
        if r0 < 0.3:
            st["split"] = [rng.randrange(1, 30)]
        elif r0 < 0.75 and len(fields) > 1:
            st["splitf"] = sorted(set(rng.sample(range(1, len(fields)), min(len(fields) - 1, rng.choice([1, 1, 2])))))   # exactly on field boundaries
        steps.append(st)
        if body:
            steps.append({"op": "data", "sid": 3, "n": body, "es": not trailers, "pad": rng.choice([-1, -1, 0, 4])})
        if trailers:
            steps.append({"op": "hdr", "sid": 3, "fields": trailers, "es": True, "pad": -1})
        steps.append(finish(3, n=1))
        steps += req(5, extra=[["x-a", "b"]]) + [finish(5, n=1)]      # a following good request must succeed
        out.append({'tag': 'c20-list', 'cfg': {'maxConc': 4, 'noconnerr': True}, 'steps': steps, 'abs': idx})
    return out


FAM.update({
    'C09': dict(cfg=(None, None), budget=(0, 0), units=[1], hcfg=None, extra=gen_c09_extra, props={'C09', 'C01'}),
    'C13': dict(cfg=('H2Server_c10_q.cfg', 'H2Server_c10_t.cfg'), budget=(300, 8000), units=[1],
                hcfg=lambda u: {'maxConc': 2, 'unit': u, 'initWin': 2, 'maxBody': 3}, extra=gen_c13_extra, props={'C13'}),
    'C14': dict(cfg=('H2Server_c01_q.cfg', 'H2Server_c01_t.cfg'), budget=(450, 8000), units=[1, 9000],
                hcfg=lambda u: {'maxConc': 2, 'unit': u}, extra=gen_c14_extra, props={'C14'}, cfgs_all=('H2Server_c14_q.cfg',)),
    'C17': dict(cfg=('H2Server_c10_q.cfg', 'H2Server_c10_t.cfg'), budget=(300, 8000), units=[1],
                hcfg=lambda u: {'maxConc': 2, 'unit': u, 'initWin': 2, 'maxBody': 3}, extra=gen_c17_extra, props={'C17'}),
    'C18': dict(cfg=(None, None), budget=(0, 0), units=[1], hcfg=None, extra=gen_c18_extra,
                props={'C18', 'C01:response-block-undecodable', 'C08:reaction-not-allowed ty=0', 'C08:reaction-not-allowed ty=4', 'C06:data-frame-over'}),
    'C20': dict(cfg=(None, None), budget=(0, 0), units=[1], hcfg=None, extra=None,
                props={'C20', 'C09:connection-torn-down', 'C01:well-formed-request-not-dispatched', 'C01:handler-ran-twice'}),
})


def gen_c20_letters(ctx, thorough):
    """Every capital letter, and the octets either side of the range, in a field name - first, middle and last octet;
    each such request is malformed and a good one follows on the same connection."""
    out = []
    for code in list(range(64, 92)) + [96, 123]:          # '@' 'A'..'Z' '[' and '`' '{' (neither capital nor legal token/legal)
        ch = chr(code)
        for name in ('x-%sone' % ch, '%sx' % ch, 'x%s' % ch):
            if name[0] == ':':
                continue
            steps = req(1, extra=[["x-a", "b"]]) + [finish(1, n=1)]
            steps += [{"op": "hdr", "sid": 3, "fields": hdrs(3, "GET", [[name, "1"]]), "es": True, "pad": -1}, finish(3, n=1)]
            steps += req(5) + [finish(5, n=1)]
            out.append({'tag': 'c20-letters', 'cfg': {'maxConc': 4, 'noconnerr': True}, 'steps': steps})
    return out


def gen_c20_bodies(ctx, thorough):
    """content-length against DATA as delivered: padding and empty frames do not count, every byte of data does."""
    out = gen_c20_letters(ctx, thorough)
    for n, chunks in ((3, None), (10, [4, 0, 6]), (20000, [16000, 4000]), (1, [0, 1, 0])):
        for pad in (-1, 0, 4, 200):
            for delta in (0, 1, -1, 1 + max(pad, 0), 5 + max(pad, 0)):
                cl = n + delta
                if cl < 0:
                    continue
                steps = req(1, extra=[["x-a", "b"]]) + [finish(1, n=1)]
                steps += [{"op": "hdr", "sid": 3, "fields": hdrs(3, "POST", cl=cl), "es": False, "pad": -1},
                          {"op": "data", "sid": 3, "n": n, "es": True, "pad": pad, **({"chunks": chunks} if chunks else {})}, finish(3, n=1)]
                steps += req(5) + [finish(5, n=1)]
                out.append({'tag': 'c20-body', 'cfg': {'maxConc': 4, 'noconnerr': True}, 'steps': steps})
    # the same comparison wherever the request ends: on its HEADERS, on an empty DATA frame, on trailers
    for n in (0, 7):
        for delta in (0, 1, -1, 5):
            cl = n + delta
            if cl < 0:
                continue
            for end in ('hdr', 'emptydata', 'trailers', 'trailers-split'):
                if end == 'hdr' and n:
                    continue
                steps = req(1, extra=[["x-a", "b"]]) + [finish(1, n=1)]
                steps += [{"op": "hdr", "sid": 3, "fields": hdrs(3, "POST", cl=cl), "es": end == 'hdr', "pad": -1}]
                if n:
                    steps += [{"op": "data", "sid": 3, "n": n, "es": False, "pad": -1}]
                if end == 'emptydata':
                    steps += [{"op": "data", "sid": 3, "n": 0, "es": True, "pad": -1}]
                elif end.startswith('trailers'):
                    t = {"op": "hdr", "sid": 3, "fields": [["x-trailer", "t"]], "es": True, "pad": -1}
                    if end == 'trailers-split':
                        t["split"] = [2]
                    steps += [t]
                steps += [finish(3, n=1)] + req(5) + [finish(5, n=1)]
                out.append({'tag': 'c20-end', 'cfg': {'maxConc': 4, 'noconnerr': True}, 'steps': steps})
    return out


def c20_lists(ctx, thorough):
    r = ctx.tlc('HttpMsgModel', 'HttpMsgModel.cfg')
    if not r.ok:
        raise vlib.Inconclusive('HttpMsgModel did not check clean:\n' + r.error_text())
    ctx.states += r.distinct; ctx.transitions += r.generated
    ctx.models.append({'module': 'HttpMsgModel', 'cfg': 'HttpMsgModel.cfg', 'distinct': r.distinct, 'generated': r.generated, 'wall_s': round(r.wall, 1)})
    lists = sorted({tuple(x - 1 for x in json.loads(s)) for s in r.printed('SCEN')})
    ctx.rng.shuffle(lists)
    # keep every distinct multiset-of-names class, then fill to the budget
    budget = 20000 if thorough else 1500
    seen, picked, rest = set(), [], []
    for l in lists:
        key = tuple(sorted(set(l)))
        (picked if key not in seen and len(picked) < budget else rest).append(l)
        seen.add(key)
    picked += rest[:max(0, budget - len(picked))]
    return gen_c20_from_lists(ctx, picked[:budget])


def run(ctx, pid):
    fam = FAM[pid]
    thorough = ctx.tier == 'thorough'
    cfg = fam['cfg'][1 if thorough else 0]
    hists = srvfam.gen_from_model(ctx, cfg, workers=None if thorough else 1) if cfg else []
    for c2 in fam.get('cfgs_all', ()):        # further configurations of the same model, both tiers
        hists += srvfam.gen_from_model(ctx, c2, workers=None if thorough else 2)
    wide = set()
    if thorough:
        for c2 in fam.get('cfgs_t', ()):      # further bounded configurations of the same model (three streams), thorough tier only
            h2 = srvfam.gen_from_model(ctx, c2)
            wide |= {json.dumps(h, sort_keys=True) for h in h2}
            hists += h2
    budget = fam['budget'][1 if thorough else 0]
    ctx.rng.shuffle(hists)
    seen, picked, rest = set(), [], []
    for h in hists:
        key = (len(h), h[-1]['op'], h[-1]['sid'], h[-1]['es'], h[-1]['eh'], h[-1]['a'], h[-1]['b'])
        (picked if key not in seen else rest).append(h)
        seen.add(key)
    picked += rest[:max(0, budget - len(picked))]
    scen = []
    for h in picked:
        u = ctx.rng.choice(fam['units'])
        hc = fam['hcfg'](u)
        if json.dumps(h, sort_keys=True) in wide:
            hc['maxConc'] = 3
        scen.append({'tag': pid.lower() + '-model', 'cfg': hc, 'steps': srvfam.concretise(h, unit=u, maxwin_m=8, rng=ctx.rng), 'abs': h})
    nmodel = len(scen)
    if fam.get('extra'):
        scen += fam['extra'](ctx, thorough)
    if pid == 'C20':
        scen += c20_lists(ctx, thorough) + gen_c20_bodies(ctx, thorough)
    for i, s in enumerate(scen):
        s['id'] = i + 1
    ctx.nontrivial = len({json.dumps(s['steps'], sort_keys=True) for s in scen if len(s['steps']) >= 2})
    ctx.rule = ('%d environment histories from %s (every explored (abstract state, event) edge, sampled keeping each distinct last-event class) '
                '+ %d scenarios from the hand-written generators for what the model abstracts (tags: %s); each replayed in lock-step into the real '
                'server; non-trivial = distinct scenario with >= 2 steps' % (nmodel, cfg, len(scen) - nmodel, sorted({s['tag'] for s in scen})))
    ctx.assumptions = ['x/net Framer/hpack is the independent peer', 'quiescence is detected from hook counters (verif build tag)',
                       'body bytes are a fixed function of (stream, offset), compared at the receiver']
    tr, _ = srvfam.run_harness(ctx, scen, pid.lower())
    srvfam.judge(ctx, scen, tr, props=fam['props'], label=pid.lower())
    for s in scen[:1] + scen[nmodel:nmodel + 1]:
        ctx.sample({'tag': s['tag'], 'abstract': s.get('abs'), 'steps': s['steps'][:12]})


def replay(ctx, pid, finding):
    sc = dict(finding['scenario']); sc['id'] = 1
    tr, _ = srvfam.run_harness(ctx, [sc], 'replay', shards=1)
    srvfam.judge(ctx, [sc], tr, props=FAM[pid]['props'], confirm=False)


