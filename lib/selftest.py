#!/usr/bin/env python3
"""Binding demonstration (DESIGN.md 4.5) for the server and client monitors: record good traces from the real code,
require them to be accepted, then corrupt one recorded field / drop one event / swap two lines and require each
corrupted trace to be rejected with the expected clause.  Exit 0 = binding demonstrated, 2 = the monitor accepted a
corrupted trace (or rejected a good one)."""
import sys, os, json, copy
sys.path.insert(0, os.path.dirname(os.path.abspath(__file__)))
import vlib, srvfam, srvprop, cliprop
from srvprop import req, finish

def main():
    ctx = vlib.Ctx('SELFTEST', 'quick', 1)
    ok = True
    # ---------------- server
    sc = {'id': 1, 'tag': 'selftest', 'cfg': {'maxConc': 4}, 'steps': req(1, body=10, extra=[["x-a", "b"]]) + req(3) + [finish(3, n=20000), finish(1, kind='stream', n=5),
                                                                          {"op": "ping", "n": 1}, {"op": "settings", "pairs": [[4, 70000]]}]}
    tr, _ = srvfam.run_harness(ctx, [sc], 'st', shards=1)
    good = json.loads(open(tr).readline())
    def variants():
        yield 'good', good, None
        t = copy.deepcopy(good)   # a DATA frame one byte longer than recorded, beyond nothing: length ledger / body length
        for e in t['evs']:
            if e['k'] == 'recv' and e['f']['ty'] == 0 and e['f']['dlen'] > 100:
                e['f']['dlen'] += 1; e['f']['len'] += 1; break
        yield 'data-length+1', t, 'C01:response-body'
        t = copy.deepcopy(good)   # drop the handler-end event: a response nobody produced
        t['evs'] = [e for e in t['evs'] if not (e['k'] == 'hend' and e['sid'] == 3)]
        yield 'hend-dropped', t, 'C'
        t = copy.deepcopy(good)   # the handler saw another path than was sent
        for e in t['evs']:
            if e['k'] == 'hstart' and e['sid'] == 1:
                e['path'] = e['path'] + [120]; break
        yield 'path-corrupted', t, 'C01:path-differs'
        t = copy.deepcopy(good)   # a SETTINGS ack removed
        idx = [i for i, e in enumerate(t['evs']) if e['k'] == 'recv' and e['f']['ty'] == 4 and e['f']['ack']]
        del t['evs'][idx[-1]]
        yield 'ack-dropped', t, 'C18:settings-not-acknowledged'
        t = copy.deepcopy(good)   # response DATA before its HEADERS (two lines swapped)
        idx = [i for i, e in enumerate(t['evs']) if e['k'] == 'recv' and e['f']['sid'] == 3 and e['f']['ty'] in (0, 1)]
        t['evs'][idx[0]], t['evs'][idx[1]] = t['evs'][idx[1]], t['evs'][idx[0]]
        yield 'lines-swapped', t, 'C01:data-before-headers'
        t = copy.deepcopy(good)   # a stream window of 1 granted instead of the default: the recorded DATA exceeds it
        for e in t['evs']:
            if e['k'] == 'send' and e['f']['ty'] == 4 and not e['f']['ack']:
                e['f']['iw'] = 1; break
        yield 'window-shrunk', t, 'C06:stream-window-exceeded'
    rows = []
    for i, (name, t, want) in enumerate(variants()):
        t = dict(t, t=i + 1); rows.append((name, want, t))
    f = os.path.join(ctx.scratch, 'selftest.srv')
    vlib.write_ndjson(f, [r[2] for r in rows])
    bad, _ = srvfam.validate(ctx, f)
    for i, (name, want, _) in enumerate(rows):
        got = bad.get(i + 1, [])
        good_ = (want is None and not got) or (want is not None and any(c.startswith(want) for c in got))
        ok &= good_
        print('%-4s server %-16s expected %-36s got %s' % ('ok' if good_ else 'FAIL', name, want, [c[:60] for c in got]))
    # ---------------- client
    from cliprop import call, resp, data
    sc = {'id': 1, 'tag': 'selftest', 'cfg': {}, 'steps': [call(1, n=100), call(2), resp(2, fields=[["x-r", "2"]]), data(2, 50, es=True), resp(1, status=404, es=True)]}
    tr, _ = cliprop.run_harness(ctx, [sc], 'stc', shards=1)
    good = json.loads(open(tr).readline())
    def cvariants():
        yield 'good', good, None
        t = copy.deepcopy(good)
        for e in t['evs']:
            if e['k'] == 'resolve' and e['req'] == 2:
                e['status'] = 404
        yield 'status-corrupted', t, 'C02:status-differs'
        t = copy.deepcopy(good)
        t['evs'] = [e for e in t['evs'] if not (e['k'] == 'resolve' and e['req'] == 1)]
        yield 'resolve-dropped', t, 'C12:request-never-resolved'
        t = copy.deepcopy(good)
        for e in t['evs']:
            if e['k'] == 'recv' and e['f']['ty'] == 0 and e['f']['dlen'] == 100:
                e['f']['dlen'] = 99; e['f']['len'] = 99
        yield 'body-shortened', t, 'C02:request-body-truncated'
        t = copy.deepcopy(good)
        dup = [e for e in t['evs'] if e['k'] == 'resolve' and e['req'] == 2][0]
        t['evs'].insert(len(t['evs']) - 2, copy.deepcopy(dup))
        yield 'resolve-duplicated', t, 'C12:request-resolved-twice'
    rows = []
    for i, (name, t, want) in enumerate(cvariants()):
        rows.append((name, want, dict(t, t=i + 1)))
    f = os.path.join(ctx.scratch, 'selftest.cli')
    vlib.write_ndjson(f, [r[2] for r in rows])
    scen = [{'id': i + 1, 'steps': []} for i in range(len(rows))]
    bad = cliprop.judge(ctx, scen, f, {'C02', 'C07', 'C11', 'C12', 'C14', 'C18', 'C20'}, confirm=False)
    for i, (name, want, _) in enumerate(rows):
        got = bad.get(i + 1, [])
        good_ = (want is None and not got) or (want is not None and any(c.startswith(want) for c in got))
        ok &= good_
        print('%-4s client %-16s expected %-36s got %s' % ('ok' if good_ else 'FAIL', name, want, [c[:60] for c in got]))
    import shutil; shutil.rmtree(ctx.scratch, ignore_errors=True)
    for fn in os.listdir(os.path.join(vlib.VERIF, 'findings')):
        if fn.startswith('SELFTEST-'):
            os.remove(os.path.join(vlib.VERIF, 'findings', fn))
    sys.exit(0 if ok else 2)

main()
