#!/bin/sh
# usage: lib/mc.sh Module cfg [workers]  -- debug helper: model-check in a scratch copy and show a compact summary
D=$(mktemp -d /tmp/mc.XXXXXX)
cp /verif/spec/*.tla /verif/spec/*.cfg $D/
cd $D
timeout ${MC_TIMEOUT:-900} java -Xss512m -XX:+UseParallelGC -cp /opt/veriftools/tla/tla2tools.jar:/opt/veriftools/tla/CommunityModules-deps.jar tlc2.TLC -workers ${3:-16} -metadir $D/md -config $2 $1.tla > out.txt 2>&1
grep -n "^Error\|states generated\|is violated\|Finished in" out.txt | head
python3 - <<'PY'
import re
t=open('out.txt').read()
states=re.split(r'\nState \d+:', t)
if len(states)>1:
    last=states[-1]
    m=re.search(r'/\\ hist = (.*?)\n/\\ ', last, re.S)
    if m:
        h=re.sub(r'\s+',' ',m.group(1))
        for ev in re.findall(r'\[(.*?)\]', h): print('  ', ev)
    for key in ('lf','obs','allowed','over'):
        m=re.search(key+r' \|->\s*(.*?)(?=,\n\s+\w+ \|->|\s*\]\n)', last, re.S)
        if m: print(key,'=',re.sub(r'\s+',' ',m.group(1))[:600])
PY
rm -rf $D
