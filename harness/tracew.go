package main

import (
	"bufio"
	"encoding/json"
	"fmt"
	"os"
	"sync"
)

// TraceW writes ndjson trace lines, sharded by trace id so that several TLC
// processes can validate them in parallel.  Lines of one trace id always land
// in the same shard, in order.
type TraceW struct {
	mu    sync.Mutex
	files []*os.File
	ws    []*bufio.Writer
	Lines int
}

func NewTraceW(prefix string, shards int) (*TraceW, error) {
	if shards < 1 {
		shards = 1
	}
	tw := &TraceW{}
	for i := 0; i < shards; i++ {
		f, err := os.Create(fmt.Sprintf("%s.%d", prefix, i))
		if err != nil {
			return nil, err
		}
		tw.files = append(tw.files, f)
		tw.ws = append(tw.ws, bufio.NewWriterSize(f, 1<<16))
	}
	return tw, nil
}

func (tw *TraceW) Emit(t int, obj map[string]any) {
	obj["t"] = t
	b, err := json.Marshal(obj)
	if err != nil {
		panic(err)
	}
	tw.mu.Lock()
	w := tw.ws[t%len(tw.ws)]
	w.Write(b)
	w.WriteByte('\n')
	tw.Lines++
	tw.mu.Unlock()
}

func (tw *TraceW) Close() error {
	for i, w := range tw.ws {
		if err := w.Flush(); err != nil {
			return err
		}
		if err := tw.files[i].Close(); err != nil {
			return err
		}
	}
	return nil
}

// ints converts bytes to a JSON-friendly []int (encoding/json would base64 a
// []byte).  nil becomes [] so TLC sees an empty sequence.
func ints(b []byte) []int {
	out := make([]int, len(b))
	for i, c := range b {
		out[i] = int(c)
	}
	return out
}

// readNDJSON reads a file of JSON objects, one per line.
func readNDJSON(path string) ([]map[string]any, error) {
	f, err := os.Open(path)
	if err != nil {
		return nil, err
	}
	defer f.Close()
	var out []map[string]any
	sc := bufio.NewScanner(f)
	sc.Buffer(make([]byte, 1<<20), 1<<28)
	for sc.Scan() {
		if len(sc.Bytes()) == 0 {
			continue
		}
		m := map[string]any{}
		if err := json.Unmarshal(sc.Bytes(), &m); err != nil {
			return nil, err
		}
		out = append(out, m)
	}
	return out, sc.Err()
}

// bytesOf converts a decoded JSON array of numbers back to bytes.
func bytesOf(v any) []byte {
	a, _ := v.([]any)
	out := make([]byte, len(a))
	for i, x := range a {
		f, _ := x.(float64)
		out[i] = byte(int(f))
	}
	return out
}

// readLines returns the non-empty lines of a file.
func readLines(path string) ([][]byte, error) {
	f, err := os.Open(path)
	if err != nil {
		return nil, err
	}
	defer f.Close()
	var out [][]byte
	sc := bufio.NewScanner(f)
	sc.Buffer(make([]byte, 1<<20), 1<<28)
	for sc.Scan() {
		if len(sc.Bytes()) == 0 {
			continue
		}
		out = append(out, append([]byte(nil), sc.Bytes()...))
	}
	return out, sc.Err()
}
