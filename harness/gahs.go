package main

// Schedule replay for spec/GoAwayHandshake.tla: each behaviour TLC finds for the handshake between writeGoAway
// (here: the read loop answering WINDOW_UPDATE(0, 0)) and the stream loop accepting new streams is forced onto the
// real server with blocking hooks, one step at a time, and what the real code then did - which streams it accepted,
// which last-stream-id its GOAWAY carries - is recorded for GoAwayHandshakeTrace.tla.
//
// A schedule is a list of steps: "G1" "G2" "G3" (closing flag raised / lastID read / GOAWAY queued) and "S1" "S23"
// (lastID := n / flag consulted and the stream refused or accepted), the S steps applying to the streams 1, 3, 5, ...
// in turn.  The stream loop parks in SLGate (before it selects) and in the sl.* step hooks; the read loop parks in the
// ga.* step hooks; G1 is started by delivering the offending frame.  The HEADERS of all streams are delivered first,
// so they wait in sc.reader and the stream loop takes one each time it is let through SLGate.

import (
	"bytes"
	"encoding/json"
	"fmt"
	"io"
	"log"
	"net"
	"sync/atomic"
	"time"

	"github.com/dgrr/http2"
	"github.com/valyala/fasthttp"
	xh2 "golang.org/x/net/http2"
	"golang.org/x/net/http2/hpack"
)

type gaSchedule struct {
	ID    int      `json:"id"`
	Steps []string `json:"steps"`
	NStr  int      `json:"nstr"`
}

type gaPark struct {
	who, at string
	v       uint32
	resume  chan struct{}
}

func runGaSchedule(sc gaSchedule) (evs []sEvent) {
	emit := func(e sEvent) { evs = append(evs, e) } // only the conductor goroutine emits
	defer func() {
		if p := recover(); p != nil {
			emit(sEvent{"k": "driverpanic", "msg": fmt.Sprint(p)})
		}
	}()
	a, b, _, _ := newMemConn()
	parks := make(chan *gaPark, 16)
	free := make(chan struct{}) // closed when the schedule is over: nobody parks any more
	park := func(who, at string, v uint32) {
		select {
		case <-free:
			return
		default:
		}
		p := &gaPark{who: who, at: at, v: v, resume: make(chan struct{})}
		select {
		case parks <- p:
		case <-free:
			return
		}
		select {
		case <-p.resume:
		case <-free:
		}
	}
	release := make(chan struct{})
	handler := func(ctx *fasthttp.RequestCtx) { <-release }
	var logbuf bytes.Buffer
	var logMu = make(chan struct{}, 1)
	_ = logMu
	fs := &fasthttp.Server{Handler: handler, Logger: log.New(io.Discard, "", 0)}
	_ = logbuf
	s2 := http2.ConfigureServer(fs, http2.ServerConfig{PingInterval: -1, MaxConcurrentStreams: 16})
	var armed atomic.Bool
	http2.VerifOnSrvInit = func(c net.Conn, v *http2.VerifSrv) {
		if c != net.Conn(a) {
			return
		}
		v.SLGate = func() {
			if armed.Load() {
				park("sl", "gate", 0)
			}
		}
		v.OnStep = func(ev string, val uint32) {
			who := "rl"
			if len(ev) > 2 && ev[:2] == "sl" {
				who = "sl"
			}
			park(who, ev, val)
		}
	}
	ret := make(chan error, 1)
	go func() { ret <- s2.ServeConn(a) }()

	fr := xh2.NewFramer(b, b)
	fr.AllowIllegalWrites = true
	var hbuf bytes.Buffer
	henc := hpack.NewEncoder(&hbuf)
	io.WriteString(b, xh2.ClientPreface)
	fr.WriteSettings()
	// peer reader: collects what the server sends
	type got struct {
		goaway   bool
		last     uint32
		rst      []uint32
		accepted []uint32
	}
	res := make(chan got, 1)
	go func() {
		var g got
		for {
			f, err := fr.ReadFrame()
			if err != nil {
				res <- g
				return
			}
			switch f := f.(type) {
			case *xh2.GoAwayFrame:
				g.goaway, g.last = true, f.LastStreamID
			case *xh2.RSTStreamFrame:
				g.rst = append(g.rst, f.StreamID)
			case *xh2.SettingsFrame:
				if !f.IsAck() {
					fr.WriteSettingsAck()
				}
			}
		}
	}()
	time.Sleep(20 * time.Millisecond) // handshake settles; nothing is gated yet
	armed.Store(true)
	// from now on the stream loop parks every time it comes round to its select: wait for the first park
	nextPark := func(who string, d time.Duration) *gaPark {
		deadline := time.After(d)
		for {
			select {
			case p := <-parks:
				if p.who == who {
					return p
				}
				// the other goroutine parked at an unexpected moment: that is a fact about the code's program order
				emit(sEvent{"k": "unexpectedpark", "who": p.who, "at": p.at})
				close(p.resume)
			case <-deadline:
				return nil
			}
		}
	}
	fr.WriteWindowUpdate(0, 10)
	deliverHeaders := func() {
		for i := 0; i < sc.NStr; i++ {
			sid := uint32(1 + 2*i)
			hbuf.Reset()
			for _, f := range [][2]string{{":method", "GET"}, {":scheme", "https"}, {":path", fmt.Sprintf("/s%d", sid)}, {":authority", "ex.com"}} {
				henc.WriteField(hpack.HeaderField{Name: f[0], Value: f[1]})
			}
			fr.WriteHeaders(xh2.HeadersFrameParam{StreamID: sid, BlockFragment: append([]byte(nil), hbuf.Bytes()...), EndStream: true, EndHeaders: true})
		}
	}
	var sl, rl *gaPark // where each goroutine is parked right now
	// the stream loop is inside its select, past the gate: a frame it has to look at (a connection WINDOW_UPDATE)
	// makes it come round to the gate once, before any HEADERS is delivered
	sl = nextPark("sl", 2*time.Second)
	if sl == nil || sl.at != "gate" {
		emit(sEvent{"k": "stuck", "what": "stream loop did not reach its gate"})
	}
	deliverHeaders() // they queue up in sc.reader; the stream loop takes one each time it is let through its gate
	time.Sleep(5 * time.Millisecond)
	stepSL := func(want string) bool {
		// let the stream loop run until it parks in a step hook (passing its select gate on the way)
		for k := 0; k < 4; k++ {
			if sl != nil {
				close(sl.resume)
			}
			sl = nextPark("sl", 2*time.Second)
			if sl == nil {
				emit(sEvent{"k": "stuck", "what": "stream loop did not park (wanted " + want + ")"})
				return false
			}
			if sl.at != "gate" {
				emit(sEvent{"k": "hs", "ev": sl.at, "v": int(sl.v)})
				return true
			}
		}
		return false
	}
	stepRL := func(first bool) bool {
		if first {
			fr.WriteWindowUpdate(0, 0) // the read loop answers this one itself, with GOAWAY(PROTOCOL_ERROR)
		} else if rl != nil {
			close(rl.resume)
		}
		rl = nextPark("rl", 2*time.Second)
		if rl == nil {
			emit(sEvent{"k": "stuck", "what": "read loop did not park"})
			return false
		}
		emit(sEvent{"k": "hs", "ev": rl.at, "v": int(rl.v)})
		return true
	}
	ok := true
	for _, st := range sc.Steps {
		if !ok {
			break
		}
		switch st {
		case "G1":
			ok = stepRL(true)
		case "G2", "G3":
			ok = stepRL(false)
		case "S1", "S23":
			ok = stepSL(st)
		}
	}
	close(free)
	if sl != nil {
		close(sl.resume)
	}
	if rl != nil {
		close(rl.resume)
	}
	close(release)
	time.Sleep(30 * time.Millisecond)
	b.Close()
	select {
	case <-ret:
	case <-time.After(3 * time.Second):
		emit(sEvent{"k": "stuck", "what": "ServeConn did not return"})
	}
	select {
	case g := <-res:
		rst := []int{}
		for _, x := range g.rst {
			rst = append(rst, int(x))
		}
		emit(sEvent{"k": "wire", "goaway": g.goaway, "last": int(g.last), "rst": rst})
	case <-time.After(time.Second):
	}
	http2.VerifSrvForget(a)
	http2.VerifOnSrvInit = nil
	return evs
}

func cmdGahs(args []string) error {
	var in, out string
	for i := 0; i < len(args); i++ {
		switch args[i] {
		case "--in":
			i++
			in = args[i]
		case "--out":
			i++
			out = args[i]
		}
	}
	rows, err := readLines(in)
	if err != nil {
		return err
	}
	tw, err := NewTraceW(out, 1)
	if err != nil {
		return err
	}
	for _, ln := range rows {
		var sc gaSchedule
		if err := json.Unmarshal(ln, &sc); err != nil {
			return fmt.Errorf("schedule: %v", err)
		}
		evs := runGaSchedule(sc)
		tw.Emit(sc.ID, map[string]any{"steps": sc.Steps, "nstr": sc.NStr, "evs": evs})
	}
	return tw.Close()
}

func init() { cmds["gahs"] = cmdGahs }
