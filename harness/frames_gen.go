package main

// Generators (inputs only) and the write-direction executor for C05 / C16.

import (
	"bufio"
	"bytes"
	"fmt"

	"github.com/dgrr/http2"
	xh2 "golang.org/x/net/http2"
)

const frMaxID = 1<<31 - 1

// ------------------------------------------------------------------ independent writers

// frXW runs one of x/net's Framer writers and returns the bytes.
func frXW(f func(fr *xh2.Framer) error) []byte {
	var buf bytes.Buffer
	fr := xh2.NewFramer(&buf, nil)
	fr.AllowIllegalWrites = true
	if err := f(fr); err != nil {
		panic("frames generator: x/net refused to write: " + err.Error())
	}
	return buf.Bytes()
}

// frRawX writes type/flags/stream id (bit 31 = R)/payload through x/net's WriteRawFrame.
func frRawX(ty, fl byte, sid uint32, payload []byte) []byte {
	return frXW(func(fr *xh2.Framer) error { return fr.WriteRawFrame(xh2.FrameType(ty), xh2.Flags(fl), sid, payload) })
}

// frRawB is the byte-level builder for shapes no conforming writer produces: the
// declared length need not match what follows.
func frRawB(decl int, ty, fl byte, sid uint32, payload []byte) []byte {
	b := []byte{byte(decl >> 16), byte(decl >> 8), byte(decl), ty, fl, byte(sid >> 24), byte(sid >> 16), byte(sid >> 8), byte(sid)}
	return append(b, payload...)
}

func frCat(parts ...[]byte) []byte {
	var out []byte
	for _, p := range parts {
		out = append(out, p...)
	}
	return out
}

func frPrioSec(excl bool, dep uint32, wt byte) []byte {
	if excl {
		dep |= 1 << 31
	}
	return append(frU32(dep), wt)
}

func frSettingsPayload(kv ...uint32) []byte {
	var p []byte
	for i := 0; i+1 < len(kv); i += 2 {
		p = append(p, byte(kv[i]>>8), byte(kv[i]))
		p = append(p, frU32(kv[i+1])...)
	}
	return p
}

type frShape struct {
	ty, fl  byte
	payload []byte
}

// frShapes lists payload shapes of one frame type: legal ones over boundary
// values and the illegal ones next to them (one octet short/long, impossible
// padding).  level 2 widens the value sets.
func frShapes(ty byte, level int) []frShape {
	var out []frShape
	add := func(fl byte, parts ...[]byte) { out = append(out, frShape{ty, fl, frCat(parts...)}) }
	bodies := []int{0, 1, 5}
	pads := []int{0, 1, 7, 255}
	ids := []uint32{0, 1, frMaxID}
	if level > 1 {
		bodies = []int{0, 1, 2, 5, 64, 300}
		pads = []int{0, 1, 2, 7, 8, 9, 128, 254, 255}
		ids = []uint32{0, 1, 2, 3, 1 << 30, frMaxID - 1, frMaxID}
	}
	zeros := func(n int) []byte { return make([]byte, n) }
	noise := func(n int) []byte {
		b := make([]byte, n)
		for i := range b {
			b[i] = byte(0xE0 + i%16)
		}
		return b
	}
	// padded section: pad length octet, content, padding; plus the impossible neighbours
	padded := func(fl byte, fixed []byte, body []byte) {
		for _, p := range pads {
			add(fl|8, []byte{byte(p)}, fixed, body, zeros(p))
			if p > 0 && p < 100 {
				add(fl|8, []byte{byte(p)}, fixed, body, noise(p)) // non-zero padding must be ignored too
			}
		}
		rem := len(body)
		if rem+1 <= 255 {
			add(fl|8, []byte{byte(rem + 1)}, fixed, body) // pad length one more than what is left
		}
		if rem > 0 && rem <= 255 {
			add(fl|8, []byte{byte(rem)}, fixed, body) // padding swallows the body exactly: legal, empty body
		}
		add(fl|8, []byte{255}, fixed, body, zeros(200)) // too long by far
	}
	switch ty {
	case 0: // DATA
		for _, fl := range []byte{0, 1} {
			for _, n := range bodies {
				add(fl, frBody(n, 1))
				padded(fl, nil, frBody(n, 2))
			}
		}
		add(8)          // PADDED without even the pad length octet
		add(9)          // same with END_STREAM
		add(8, []byte{0}) // only the pad length octet
	case 1: // HEADERS
		for _, fl := range []byte{0, 1, 4, 5} {
			for _, n := range bodies {
				add(fl, frBody(n, 3))
				padded(fl, nil, frBody(n, 4))
				for _, dep := range ids {
					for _, ex := range []bool{false, true} {
						for _, wt := range []byte{0, 15, 255} {
							if level == 1 && (fl == 1 || fl == 4) && wt == 15 {
								continue
							}
							ps := frPrioSec(ex, dep, wt)
							add(fl|0x20, ps, frBody(n, 5))
							if wt != 15 {
								padded(fl|0x20, ps, frBody(n, 6))
							}
						}
					}
				}
			}
		}
		for k := 0; k < 5; k++ { // priority section cut short
			add(0x24, frPrioSec(true, 7, 9)[:k])
			add(0x2c, []byte{0}, frPrioSec(true, 7, 9)[:k])
			add(0x2c, []byte{2}, frPrioSec(true, 7, 9)[:k], zeros(2))
		}
		add(0x2c, []byte{3}, frPrioSec(false, 1, 1), zeros(2)) // padding eats into the priority section
		add(0x2c, []byte{6}, frPrioSec(false, 1, 1))
		add(8)
		add(0x28)
	case 2: // PRIORITY
		for _, dep := range ids {
			for _, ex := range []bool{false, true} {
				for _, wt := range []byte{0, 1, 255} {
					add(0, frPrioSec(ex, dep, wt))
				}
			}
		}
		for _, n := range []int{0, 1, 4, 6, 10} {
			add(0, frCat(frPrioSec(true, 3, 7), noise(8))[:n])
		}
	case 3: // RST_STREAM
		for _, c := range []uint32{0, 1, 8, 0xd, 0xe, 0x7fffffff, 0x80000000, 0xffffffff} {
			add(0, frU32(c))
		}
		for _, n := range []int{0, 1, 3, 5, 8} {
			add(0, frCat(frU32(8), noise(8))[:n])
		}
	case 4: // SETTINGS
		add(0)
		add(1)
		vals := map[uint32][]uint32{1: {0, 1, 4096, 0xffffffff}, 2: {0, 1, 2, 0xffffffff}, 3: {0, 1, 100, 0xffffffff},
			4: {0, 1, 65535, frMaxID, 1 << 31, 0xffffffff}, 5: {0, 16383, 16384, 1<<24 - 1, 1 << 24, 0xffffffff}, 6: {0, 1, 0xffffffff},
			0: {0, 7}, 7: {0, 7}, 8: {1}, 0xffff: {0xffffffff}}
		for _, id := range []uint32{0, 1, 2, 3, 4, 5, 6, 7, 8, 0xffff} { // fixed order: the generator must be deterministic
			vs := vals[id]
			for _, v := range vs {
				add(0, frSettingsPayload(id, v))
			}
		}
		add(0, frSettingsPayload(1, 0, 2, 0, 3, 0, 4, 0, 5, 16384, 6, 0))
		add(0, frSettingsPayload(1, 10, 1, 20))                   // repeated: last wins
		add(0, frSettingsPayload(4, 5, 9, 9, 4, 7, 2, 1, 2, 0))   // repeated with unknown in between
		add(0, frSettingsPayload(3, 5, 4, 1<<31, 3, 6))           // invalid value in the middle
		add(0, frSettingsPayload(4, 1<<31, 4, 5))                 // invalid value overwritten later: still an error
		add(0, frSettingsPayload(0x99, 1, 0xabcd, 2, 0xffff, 3))  // only unknown
		add(1, frSettingsPayload(1, 10))                          // ACK with payload
		add(1, []byte{0})
		for _, n := range []int{1, 5, 7, 11, 13} {
			add(0, frCat(frSettingsPayload(1, 10, 3, 20, 4, 30))[:n])
		}
		if level > 1 {
			var many []uint32
			for i := uint32(0); i < 60; i++ {
				many = append(many, i%9, i)
			}
			add(0, frSettingsPayload(many...))
		}
	case 5: // PUSH_PROMISE
		for _, fl := range []byte{0, 4} {
			for _, n := range bodies {
				for _, id := range ids {
					for _, r := range []uint32{0, 1 << 31} {
						add(fl, frU32(id|r), frBody(n, 7))
						if r == 0 || id == 1 {
							padded(fl, frU32(id|r), frBody(n, 8))
						}
					}
				}
			}
		}
		for k := 0; k < 4; k++ {
			add(4, frU32(5)[:k])
			add(0xc, []byte{0}, frU32(5)[:k])
			add(0xc, []byte{1}, frU32(5)[:k], zeros(1))
		}
		add(8)
		add(0xc, []byte{3}, frU32(5), zeros(2))
	case 6: // PING
		for _, fl := range []byte{0, 1} {
			add(fl, zeros(8))
			add(fl, []byte{1, 2, 3, 4, 5, 6, 7, 8})
			add(fl, bytes.Repeat([]byte{0xff}, 8))
		}
		for _, n := range []int{0, 1, 7, 9, 16} {
			add(0, noise(n))
			add(1, noise(n))
		}
	case 7: // GOAWAY
		for _, id := range append(ids, 1<<31, 1<<31|5, 0xffffffff) {
			for _, c := range []uint32{0, 2, 0xb, 0xe, 0x80000000, 0xffffffff} {
				add(0, frU32(id), frU32(c))
				if c == 2 || c == 0xffffffff {
					add(0, frU32(id), frU32(c), []byte("x"))
					add(0, frU32(id), frU32(c), frBody(64, 9))
				}
			}
		}
		add(0, frU32(3), frU32(1), frBody(1000, 10))
		for _, n := range []int{0, 1, 4, 7} {
			add(0, frCat(frU32(3), frU32(1))[:n])
		}
	case 8: // WINDOW_UPDATE
		for _, inc := range []uint32{0, 1, 2, 65535, frMaxID - 1, frMaxID} {
			add(0, frU32(inc))
			add(0, frU32(inc|1<<31))
		}
		for _, n := range []int{0, 1, 3, 5, 8} {
			add(0, frCat(frU32(9), noise(8))[:n])
		}
	case 9: // CONTINUATION
		for _, fl := range []byte{0, 4} {
			for _, n := range bodies {
				add(fl, frBody(n, 11))
			}
		}
		add(0xc, []byte{200, 1, 2}) // PADDED is undefined here: the payload is all fragment
		add(0x20, frPrioSec(true, 1, 1))
	default: // unknown types
		for _, n := range []int{0, 1, 5, 100} {
			add(0, noise(n))
			add(0xff, noise(n))
		}
	}
	return out
}

var frTypes = []byte{0, 1, 2, 3, 4, 5, 6, 7, 8, 9}
var frUnknownTypes = []byte{10, 11, 0x10, 0x7f, 0x80, 0xfe, 0xff}

// frGenRead: all types x shapes x flag octets x R bit x stream ids, and the
// size boundaries relative to the limit handed to the reader.
func frGenRead(level int, emit func(*frReadCase)) {
	def := func(in []byte, src string) {
		emit(&frReadCase{In: in, API: "def", Max: 16384, Sent: true, Src: src})
	}
	sized := func(in []byte, max uint32, sent bool, src string) {
		emit(&frReadCase{In: in, API: "size", Max: max, Sent: sent, Src: src})
	}
	sids := []uint32{0, 1, frMaxID, 1 << 31, 1<<31 | 1, 0xffffffff}
	undef := []byte{0, 0xc2}
	if level > 1 {
		undef = []byte{0, 0x02, 0x10, 0x40, 0x80, 0xc2, 0xd2}
	}
	for _, ty := range append(append([]byte(nil), frTypes...), frUnknownTypes...) {
		shapes := frShapes(ty, level)
		for i, s := range shapes {
			// (a) the shape itself on stream 1 and, rotating, on the boundary ids / with the R bit
			for _, u := range undef {
				def(frRawX(s.ty, s.fl|u, 1, s.payload), "raw")
			}
			sid := sids[i%len(sids)]
			def(frRawX(s.ty, s.fl, sid, s.payload), "raw")
			if level > 1 {
				for k, sid := range sids {
					if (i+k)%2 == 0 {
						def(frRawX(s.ty, s.fl|0x40, sid, s.payload), "raw")
					}
				}
			}
			// (b) the limit: exactly the payload length, one less, much bigger, none
			n := len(s.payload)
			if i%3 == 0 || level > 1 {
				fb := frRawX(s.ty, s.fl, 3, s.payload)
				if n >= 1 {
					sized(fb, uint32(n), true, "raw")
				}
				if n >= 2 {
					sized(fb, uint32(n-1), true, "raw")
				}
				sized(fb, 0, true, "raw")
				sized(fb, 1<<24-1, true, "raw")
			}
		}
		// (c) every flag octet on one legal and one illegal shape of the type
		if len(shapes) > 0 {
			picks := []frShape{shapes[0], shapes[len(shapes)-1]}
			if level > 1 && len(shapes) > 4 {
				picks = append(picks, shapes[len(shapes)/2], shapes[1])
			}
			for k, s := range picks {
				for fl := 0; fl < 256; fl++ {
					// level 1: all 256 octets on the legal shape of the ten known types, every
					// single bit and a few mixes elsewhere
					if level == 1 && (k > 0 || ty > 9) && !(fl&(fl-1) == 0 || fl == 0xff || fl == 0x2d || fl == 0xd2 || fl == 0x0d) {
						continue
					}
					def(frRawX(s.ty, byte(fl), 1, s.payload), "raw-flags")
				}
			}
		}
		// (d) big payloads around the default and an explicit limit
		big := func(n int) []byte {
			switch ty {
			case 0, 9:
				return frBody(n, 20)
			case 1:
				return frCat(frPrioSec(true, 5, 200), frBody(n-5, 21))
			case 5:
				return frCat(frU32(8), frBody(n-4, 22))
			case 7:
				return frCat(frU32(9), frU32(2), frBody(n-8, 23))
			case 4:
				return bytes.Repeat(frSettingsPayload(3, 77), n/6)
			}
			if ty > 9 {
				return frBody(n, 24)
			}
			return nil
		}
		flBig := byte(0)
		if ty == 1 {
			flBig = 0x24
		}
		for _, n := range []int{16383, 16384, 16385, 16386} {
			p := big(n)
			if p == nil {
				continue
			}
			def(frRawX(ty, flBig, 1, p), "raw-big")
			if n >= 16385 {
				sized(frRawX(ty, flBig, 1, p), 1<<24-1, true, "raw-big")
				sized(frRawX(ty, flBig, 1, p), 0, true, "raw-big")
				sized(frRawX(ty, flBig, 1, p), uint32(len(p)), true, "raw-big")
				sized(frRawX(ty, flBig, 1, p), uint32(len(p)-1), true, "raw-big")
			}
		}
		if ty == 0 || ty == 1 { // padded at the limit: pad length 255, body fills the rest
			for _, tot := range []int{16384, 16385} {
				fx := []byte{}
				fl := byte(8)
				if ty == 1 {
					fx = frPrioSec(false, 1, 16)
					fl = 0x2c
				}
				body := frBody(tot-1-len(fx)-255, 25)
				def(frRawX(ty, fl, 1, frCat([]byte{255}, fx, body, make([]byte, 255))), "raw-big")
			}
		}
		// (e) a header that announces more than any limit, nothing behind it
		for _, decl := range []int{16385, 1 << 20, 1<<24 - 1} {
			def(frRawB(decl, ty, 0, 1, nil), "bytes")
			sized(frRawB(decl, ty, 0, 1, []byte{1, 2, 3}), 16384, false, "bytes")
			sized(frRawB(decl, ty, 0, 1, nil), uint32(decl-1), false, "bytes")
		}
	}
	frGenXnet(level, def)
}

// frGenXnet: frames produced by x/net's typed writers (the independent encoder
// proper), over the boundary values.
func frGenXnet(level int, def func([]byte, string)) {
	ids := []uint32{1, 3, frMaxID}
	bodies := []int{0, 1, 17}
	if level > 1 {
		bodies = []int{0, 1, 17, 255, 256, 1000, 16384}
	}
	w := func(f func(fr *xh2.Framer) error) { def(frXW(f), "xnet") }
	for _, id := range ids {
		for _, n := range bodies {
			for _, es := range []bool{false, true} {
				b := frBody(n, 30)
				w(func(fr *xh2.Framer) error { return fr.WriteData(id, es, b) })
				for _, p := range []int{0, 1, 100, 255} {
					if n+p+1 > 16384 {
						continue
					}
					w(func(fr *xh2.Framer) error { return fr.WriteDataPadded(id, es, b, make([]byte, p)) })
				}
				for _, eh := range []bool{false, true} {
					for _, p := range []uint8{0, 1, 255} {
						for _, pr := range []xh2.PriorityParam{{}, {StreamDep: 0, Exclusive: true, Weight: 0}, {StreamDep: frMaxID, Weight: 255}, {StreamDep: 5, Exclusive: true, Weight: 7}} {
							if n+int(p)+6 > 16384 {
								continue
							}
							w(func(fr *xh2.Framer) error {
								return fr.WriteHeaders(xh2.HeadersFrameParam{StreamID: id, BlockFragment: b, EndStream: es, EndHeaders: eh, PadLength: p, Priority: pr})
							})
						}
						if !es && n+int(p)+5 <= 16384 {
							w(func(fr *xh2.Framer) error {
								return fr.WritePushPromise(xh2.PushPromiseParam{StreamID: id, PromiseID: id - id%2 + 2, BlockFragment: b, EndHeaders: eh, PadLength: p})
							})
						}
					}
					if !es {
						w(func(fr *xh2.Framer) error { return fr.WriteContinuation(id, eh, b) })
					}
				}
			}
		}
		for _, pr := range []xh2.PriorityParam{{}, {StreamDep: 1, Weight: 1}, {StreamDep: frMaxID, Exclusive: true, Weight: 255}} {
			w(func(fr *xh2.Framer) error { return fr.WritePriority(id, pr) })
		}
		for _, c := range []xh2.ErrCode{0, 1, 0xd, 0x1234, 0xffffffff} {
			w(func(fr *xh2.Framer) error { return fr.WriteRSTStream(id, c) })
			for _, dbg := range [][]byte{nil, []byte("bye"), frBody(70, 31)} {
				w(func(fr *xh2.Framer) error { return fr.WriteGoAway(id, c, dbg) })
			}
		}
		for _, inc := range []uint32{0, 1, 65535, frMaxID} {
			w(func(fr *xh2.Framer) error { return fr.WriteWindowUpdate(id, inc) })
			w(func(fr *xh2.Framer) error { return fr.WriteWindowUpdate(0, inc) })
		}
	}
	w(func(fr *xh2.Framer) error { return fr.WriteSettingsAck() })
	w(func(fr *xh2.Framer) error { return fr.WriteSettings() })
	sets := [][]xh2.Setting{
		{{ID: xh2.SettingHeaderTableSize, Val: 0}}, {{ID: xh2.SettingEnablePush, Val: 0}}, {{ID: xh2.SettingEnablePush, Val: 1}},
		{{ID: xh2.SettingMaxConcurrentStreams, Val: 0}}, {{ID: xh2.SettingInitialWindowSize, Val: 0}},
		{{ID: xh2.SettingInitialWindowSize, Val: frMaxID}}, {{ID: xh2.SettingMaxFrameSize, Val: 16384}},
		{{ID: xh2.SettingMaxFrameSize, Val: 1<<24 - 1}}, {{ID: xh2.SettingMaxHeaderListSize, Val: 0xffffffff}},
		{{ID: 1, Val: 8192}, {ID: 2, Val: 0}, {ID: 3, Val: 250}, {ID: 4, Val: 1 << 20}, {ID: 5, Val: 1 << 15}, {ID: 6, Val: 1 << 16}},
		{{ID: 3, Val: 1}, {ID: 0x77, Val: 9}, {ID: 3, Val: 2}},
	}
	for _, s := range sets {
		w(func(fr *xh2.Framer) error { return fr.WriteSettings(s...) })
	}
	for _, ack := range []bool{false, true} {
		w(func(fr *xh2.Framer) error { return fr.WritePing(ack, [8]byte{9, 8, 7, 6, 5, 4, 3, 2}) })
	}
}

// frValidFrames: one small valid frame per type and flag variant (seeds for
// truncation and mutation).
func frValidFrames() [][]byte {
	var out [][]byte
	for _, ty := range frTypes {
		for i, s := range frShapes(ty, 1) {
			if i%7 == 0 || i < 3 {
				out = append(out, frRawX(s.ty, s.fl, 1, s.payload))
			}
		}
	}
	out = append(out, frRawX(0x42, 3, 9, []byte("unknown-ext")))
	return out
}

// frGenTrunc: every valid frame cut at every byte offset (a reader that hits
// EOF early), alone and behind a complete frame; afterwards two frames of the
// type are acquired (Post) to see whether the pools still hand out distinct
// objects.
func frGenTrunc(level int, emit func(*frReadCase)) {
	var frames [][]byte
	for _, ty := range frTypes {
		shapes := frShapes(ty, 1)
		for i, s := range shapes {
			if level == 1 && !(i < 2 || i%9 == 0) {
				continue
			}
			if len(s.payload) > 80 {
				continue
			}
			frames = append(frames, frRawX(s.ty, s.fl, 5, s.payload))
		}
	}
	frames = append(frames, frRawX(0x33, 0, 1, []byte("ext payload")))
	frames = append(frames, frRawX(0, 1, 1, frBody(1000, 40)), frRawX(1, 0x2c, 1, frCat([]byte{9}, frPrioSec(true, 3, 4), frBody(500, 41), make([]byte, 9))))
	for _, f := range frames {
		step := 1
		if len(f) > 200 {
			step = 37
		}
		for k := 0; k <= len(f); k += step {
			c := &frReadCase{In: f[:k], API: "def", Max: 16384, Sent: false, Post: true, Src: "trunc"}
			if k%2 == 1 {
				c.API, c.Max = "size", 1<<24-1
			}
			emit(c)
		}
		emit(&frReadCase{In: f, API: "def", Max: 16384, Sent: true, Post: true, Src: "trunc-whole"})
	}
}

// ------------------------------------------------------------------ write direction

type frWriteCase struct {
	How string // "api": built with constructors/setters; "fwd": read from Src, then written again
	Src []byte

	Ty      int
	Flset   int // value for FrameHeader.SetFlags, -1 = not called
	Sid     uint32
	Es      bool
	Eh      bool
	Ack     bool
	Padded  bool
	HasPrio bool // Headers: SetStream(dep)/SetWeight called
	Excl    int  // -1 = no SetExclusive call (the unchanged tree has no such setter)
	Dep     uint32
	Wt      int
	Body    []byte
	Bapi    int // 0: Set*, 1: Append*/Write
	HasPsid bool
	Psid    uint32 // GOAWAY last stream id / PUSH_PROMISE promised id
	Code    uint32
	Inc     uint32
	StSet   [6]int
	StVal   [6]uint32
}

func (c *frWriteCase) abstract() map[string]any {
	sh, sl := frHalves(c.Sid)
	dh, dl := frHalves(c.Dep)
	ph, pl := frHalves(c.Psid)
	ch, cl := frHalves(c.Code)
	ih, il := frHalves(c.Inc)
	sv := make([]int, 12)
	for i, v := range c.StVal {
		sv[2*i], sv[2*i+1] = frHalves(v)
	}
	return map[string]any{"ty": c.Ty, "flset": c.Flset, "sidh": sh, "sidl": sl, "es": frB2i(c.Es), "eh": frB2i(c.Eh),
		"ack": frB2i(c.Ack), "padded": frB2i(c.Padded), "hasprio": frB2i(c.HasPrio), "excl": c.Excl, "deph": dh, "depl": dl, "wt": c.Wt,
		"body": frDescribe(c.Body), "bapi": c.Bapi, "haspsid": frB2i(c.HasPsid), "psidh": ph, "psidl": pl, "ch": ch, "cl": cl,
		"inch": ih, "incl": il, "stset": c.StSet[:], "stval": sv}
}

func frWriteCaseOf(r map[string]any) *frWriteCase {
	c := &frWriteCase{How: fmt.Sprint(r["how"]), Src: frMaterial(r["src"]), Flset: -1, Excl: -1}
	a, _ := r["a"].(map[string]any)
	if a == nil {
		return c
	}
	u := func(h, l string) uint32 { return uint32(frNum(a[h]))<<16 | uint32(frNum(a[l])) }
	c.Ty, c.Flset, c.Sid = frNum(a["ty"]), frNum(a["flset"]), u("sidh", "sidl")
	c.Es, c.Eh, c.Ack, c.Padded = frNum(a["es"]) == 1, frNum(a["eh"]) == 1, frNum(a["ack"]) == 1, frNum(a["padded"]) == 1
	c.HasPrio, c.Excl, c.Dep, c.Wt = frNum(a["hasprio"]) == 1, frNum(a["excl"]), u("deph", "depl"), frNum(a["wt"])
	c.Body, c.Bapi = frMaterial(a["body"]), frNum(a["bapi"])
	c.HasPsid, c.Psid, c.Code, c.Inc = frNum(a["haspsid"]) == 1, u("psidh", "psidl"), u("ch", "cl"), u("inch", "incl")
	ss, _ := a["stset"].([]any)
	sv, _ := a["stval"].([]any)
	for i := 0; i < 6 && i < len(ss) && 2*i+1 < len(sv); i++ {
		c.StSet[i] = frNum(ss[i])
		c.StVal[i] = uint32(frNum(sv[2*i]))<<16 | uint32(frNum(sv[2*i+1]))
	}
	return c
}

// frBuild constructs the frame value with the public API only.  Setters the
// unchanged tree does not have are used when present (interface assertions),
// so the same harness exercises a fixed tree more completely.
func frBuild(c *frWriteCase) (fh *http2.FrameHeader, held frFields) {
	held = frBlankFields()
	fh = http2.AcquireFrameHeader()
	fh.SetStream(c.Sid)
	body := http2.AcquireFrame(http2.FrameType(c.Ty))
	switch b := body.(type) {
	case *http2.Data:
		if c.Bapi == 0 {
			b.SetData(c.Body)
		} else {
			h := len(c.Body) / 2
			b.Append(c.Body[:h])
			b.Write(c.Body[h:])
		}
		b.SetEndStream(c.Es)
		b.SetPadding(c.Padded)
	case *http2.Headers:
		if c.Bapi == 0 {
			b.SetHeaders(c.Body)
		} else {
			h := len(c.Body) / 2
			b.AppendRawHeaders(c.Body[:h])
			b.AppendRawHeaders(c.Body[h:])
		}
		b.SetEndStream(c.Es)
		b.SetEndHeaders(c.Eh)
		b.SetPadding(c.Padded)
		if c.HasPrio {
			b.SetStream(c.Dep)
			b.SetWeight(byte(c.Wt))
			if x, ok := any(b).(interface{ SetPriority(bool) }); ok {
				x.SetPriority(true)
			}
			if x, ok := any(b).(interface{ SetExclusive(bool) }); ok && c.Excl >= 0 {
				x.SetExclusive(c.Excl == 1)
			}
		}
	case *http2.Continuation:
		if c.Bapi == 0 {
			b.SetHeader(c.Body)
		} else {
			h := len(c.Body) / 2
			b.AppendHeader(c.Body[:h])
			b.Write(c.Body[h:])
		}
		b.SetEndHeaders(c.Eh)
	case *http2.Priority:
		b.SetStream(c.Dep)
		b.SetWeight(byte(c.Wt))
		if x, ok := any(b).(interface{ SetExclusive(bool) }); ok && c.Excl >= 0 {
			x.SetExclusive(c.Excl == 1)
		}
	case *http2.RstStream:
		b.SetCode(http2.ErrorCode(c.Code))
	case *http2.Settings:
		b.SetAck(c.Ack)
		if c.StSet[0] == 1 {
			b.SetHeaderTableSize(c.StVal[0])
		}
		if c.StSet[1] == 1 {
			b.SetPush(c.StVal[1] != 0)
		}
		if c.StSet[2] == 1 {
			b.SetMaxConcurrentStreams(c.StVal[2])
		}
		if c.StSet[3] == 1 {
			b.SetMaxWindowSize(c.StVal[3])
		}
		if c.StSet[4] == 1 {
			b.SetMaxFrameSize(c.StVal[4])
		}
		if c.StSet[5] == 1 {
			b.SetMaxHeaderListSize(c.StVal[5])
		}
		held.St = frSettingsOf(b) // the values the object holds, read back through its getters
	case *http2.PushPromise:
		if c.Bapi == 0 {
			b.SetHeader(c.Body)
		} else {
			h := len(c.Body) / 2
			b.SetHeader(c.Body[:h])
			b.Write(c.Body[h:])
		}
		if x, ok := any(b).(interface{ SetStream(uint32) }); ok && c.HasPsid {
			x.SetStream(c.Psid)
			held.Ppapi = 1
		}
		if x, ok := any(b).(interface{ SetEndHeaders(bool) }); ok {
			x.SetEndHeaders(c.Eh)
		} else {
			held.Ppapi = 0
		}
		if x, ok := any(b).(interface{ SetPadding(bool) }); ok {
			x.SetPadding(c.Padded)
		}
	case *http2.Ping:
		b.SetAck(c.Ack)
		b.SetData(c.Body)
	case *http2.GoAway:
		b.SetStream(c.Psid)
		b.SetCode(http2.ErrorCode(c.Code))
		b.SetData(c.Body)
	case *http2.WindowUpdate:
		b.SetIncrement(int(c.Inc))
	}
	fh.SetBody(body)
	if c.Flset >= 0 {
		fl := int8(uint8(c.Flset))
		fh.SetFlags(http2.FrameFlags(fl))
	}
	return fh, held
}

func frRunWrite(tw *TraceW, t int, c *frWriteCase) {
	var buf bytes.Buffer
	bw := bufio.NewWriterSize(&buf, 4096)
	held := frBlankFields()
	rres, pan := "na", ""
	wn, werr := int64(-1), 0
	func() {
		defer func() {
			if r := recover(); r != nil {
				pan = fmt.Sprint(r)
				if len(pan) > 120 {
					pan = pan[:120]
				}
			}
		}()
		var fh *http2.FrameHeader
		if c.How == "fwd" {
			br := bufio.NewReader(bytes.NewReader(c.Src))
			var err error
			fh, err = http2.ReadFrameFrom(br)
			rres = frErrClass(err)
			if err != nil {
				return
			}
			if _, ok := fh.Body().(*http2.PushPromise); ok {
				held.Ppapi = frFieldsOf(fh).Ppapi
			}
		} else {
			fh, held = frBuild(c)
		}
		n, err := fh.WriteTo(bw)
		wn = n
		if err != nil {
			werr = 1
		}
		if bw.Flush() != nil {
			werr = 1
		}
		http2.ReleaseFrameHeader(fh)
	}()
	out := buf.Bytes()
	a := c.abstract()
	a["st"] = held.St
	a["ppapi"] = held.Ppapi
	src := c.Src
	if c.How != "fwd" {
		src = nil
	}
	tw.Emit(t, map[string]any{"ev": "write", "how": c.How, "a": a, "src": frDescribe(src), "rres": rres, "panic": pan,
		"wn": int(wn), "werr": werr, "out": frDescribe(out), "x": frXRead(out, 0)})
}

// frGenWrite: every frame type through constructors and setters, over setter
// combinations and boundary values; then frames read from an independent
// writer and written back (what examples/proxy does).
func frGenWrite(level int, emit func(*frWriteCase)) {
	nc := func(ty int) *frWriteCase { return &frWriteCase{How: "api", Ty: ty, Flset: -1, Excl: -1, Sid: 1} }
	sids := []uint32{0, 1, 2, frMaxID}
	flsets := []int{-1, 0, 1, 4, 0x40, 0xd2}
	blens := []int{0, 1, 2, 63, 64, 65, 255, 256, 1000, 16383, 16384, 16385, 65536}
	if level == 1 {
		blens = []int{0, 1, 5, 64, 255, 256, 1000, 16384, 16385}
	}
	bools := []bool{false, true}
	// headers of the frame: stream ids and explicit flags, on every type with a small body
	for ty := 0; ty <= 9; ty++ {
		for _, sid := range sids {
			for _, fs := range flsets {
				if ty == 4 && fs > 0 && fs&1 == 1 {
					continue // ACK is requested with Settings.SetAck; the flag alone on a non-empty SETTINGS is caller misuse
				}
				c := nc(ty)
				c.Sid, c.Flset = sid, fs
				c.Body = frBody(8, byte(ty))
				c.Dep, c.Wt, c.Psid, c.HasPsid, c.Code, c.Inc = 3, 16, 7, true, 2, 1000
				emit(c)
			}
		}
	}
	for _, n := range blens {
		for _, es := range bools {
			for _, pad := range bools {
				for bapi := 0; bapi < 2; bapi++ {
					c := nc(0)
					c.Body, c.Es, c.Padded, c.Bapi = frBody(n, 50), es, pad, bapi
					emit(c)
				}
				for _, eh := range bools {
					c := nc(1)
					c.Body, c.Es, c.Eh, c.Padded = frBody(n, 51), es, eh, pad
					emit(c)
					if n <= 256 || level > 1 {
						for _, dep := range []uint32{0, 3, frMaxID} {
							for _, wt := range []int{0, 255} {
								c := nc(1)
								c.Body, c.Es, c.Eh, c.Padded = frBody(n, 52), es, eh, pad
								c.HasPrio, c.Dep, c.Wt = true, dep, wt
								emit(c)
								c2 := *c
								c2.Excl = 1
								emit(&c2)
							}
						}
					}
				}
			}
			c := nc(9)
			c.Body, c.Eh, c.Bapi = frBody(n, 53), es, n%2
			emit(c)
			for _, pad := range bools {
				for _, psid := range []uint32{2, frMaxID - 1} {
					c := nc(5)
					c.Body, c.Eh, c.Padded, c.HasPsid, c.Psid, c.Bapi = frBody(n, 54), es, pad, true, psid, n%2
					emit(c)
				}
			}
		}
	}
	for _, dep := range []uint32{0, 1, frMaxID, 1 << 31, 1<<31 | 9, 0xffffffff} {
		for _, wt := range []int{0, 1, 15, 255} {
			c := nc(2)
			c.Dep, c.Wt = dep, wt
			emit(c)
			c2 := *c
			c2.Excl = 1
			emit(&c2)
		}
	}
	for _, code := range []uint32{0, 1, 2, 8, 0xd, 0xe, 0xffff, 0x10000, 0x7fffffff, 0x80000000, 0xffffffff} {
		c := nc(3)
		c.Code = code
		emit(c)
		for _, last := range []uint32{0, 1, frMaxID, 1<<31 | 5} {
			for _, n := range []int{0, 1, 64, 1000} {
				c := nc(7)
				c.Sid, c.Code, c.Psid, c.HasPsid, c.Body = 0, code, last, true, frBody(n, 55)
				emit(c)
			}
		}
	}
	for _, inc := range []uint32{0, 1, 2, 65535, 65536, frMaxID - 1, frMaxID} {
		for _, sid := range []uint32{0, 1} {
			c := nc(8)
			c.Sid, c.Inc = sid, inc
			emit(c)
		}
	}
	for _, ack := range bools {
		for _, d := range [][]byte{make([]byte, 8), {1, 2, 3, 4, 5, 6, 7, 8}, bytes.Repeat([]byte{0xff}, 8)} {
			c := nc(6)
			c.Sid, c.Ack, c.Body = 0, ack, d
			emit(c)
		}
	}
	// SETTINGS: which setters are called x boundary values
	stVals := [6][]uint32{{0, 1, 4096, 0xffffffff}, {0, 1}, {0, 1, 100, 0xffffffff}, {0, 1, 65535, frMaxID}, {16384, 1<<24 - 1}, {0, 1, 0xffffffff}}
	c := nc(4)
	c.Sid = 0
	emit(c) // nothing set
	ca := nc(4)
	ca.Sid, ca.Ack = 0, true
	emit(ca)
	for i := 0; i < 6; i++ {
		for _, v := range stVals[i] {
			c := nc(4)
			c.Sid = 0
			c.StSet[i], c.StVal[i] = 1, v
			emit(c)
			ca := *c
			ca.Ack = true
			emit(&ca)
		}
	}
	// all six set: full product at level 2, a diagonal slice at level 1
	idx := [6]int{}
	count := 0
	for {
		c := nc(4)
		c.Sid = 0
		for i := 0; i < 6; i++ {
			c.StSet[i], c.StVal[i] = 1, stVals[i][idx[i]]
		}
		if level > 1 || count%7 == 0 {
			emit(c)
		}
		count++
		k := 0
		for k < 6 {
			idx[k]++
			if idx[k] < len(stVals[k]) {
				break
			}
			idx[k] = 0
			k++
		}
		if k == 6 {
			break
		}
	}
	// forwarded frames: legal frames from the independent writer, read and written back
	fwd := func(in []byte, _ string) { emit(&frWriteCase{How: "fwd", Src: in, Flset: -1, Excl: -1}) }
	frGenXnet(level, fwd)
	for _, ty := range frTypes {
		for i, s := range frShapes(ty, 1) {
			if level == 1 && i%2 == 1 {
				continue
			}
			fwd(frRawX(s.ty, s.fl, 1, s.payload), "raw")
			if i%5 == 0 {
				fwd(frRawX(s.ty, s.fl|0xc2, 1<<31|3, s.payload), "raw")
			}
		}
	}
}
