package main

// Client-side lock-step driver: one http2.Conn (the code under test) talks to a
// scripted server peer built on golang.org/x/net/http2 (Framer + hpack) over the
// deterministic in-memory connection.  Scenario steps are caller actions
// (call / cancel / close) and server actions (resp / data / rst / goaway / wu /
// settings / raw / srvclose); after each step the driver waits for quiescence
// (hook events of the client's loops + parked readers) and logs a snapshot.
// H2ClientTrace.tla judges the recording.

import (
	"os"
	"math/rand"
	"bytes"
	"encoding/json"
	"fmt"
	"io"
	"runtime"
	"sort"
	"strings"
	"sync"
	"sync/atomic"
	"time"

	"github.com/dgrr/http2"
	"github.com/valyala/fasthttp"
	xh2 "golang.org/x/net/http2"
	"golang.org/x/net/http2/hpack"
)

type cBody struct {
	Kind  string `json:"kind"` // none | buf | stream | streamcl
	N     int    `json:"n"`
	Chunk int    `json:"chunk"`
	EOF   int    `json:"eof"`
	// CloseMs > 0: the body stream is an io.Closer whose Close takes this long (a file, a pipe from another goroutine)
	CloseMs int `json:"closems"`
	// ReadMs > 0: every Read after the first takes this long (a body produced by another goroutine, a slow disk)
	ReadMs int `json:"readms"`
}

type cStep struct {
	Op      string     `json:"op"`
	Req     int        `json:"req"`
	Sid     uint32     `json:"sid"` // explicit stream id (for frames on streams no request owns)
	Method  string     `json:"method"`
	Path    string     `json:"path"`
	Fields  [][]string `json:"fields"`
	Body    *cBody     `json:"body"`
	Status  int        `json:"status"`
	ES      bool       `json:"es"`
	EH      bool       `json:"eh"`
	NoEH    bool       `json:"noeh"`
	Split   []int      `json:"split"`
	Pad     int        `json:"pad"`
	N       int        `json:"n"`
	Chunks  []int      `json:"chunks"`
	Code    uint32     `json:"code"`
	Inc     uint32     `json:"inc"`
	Pairs   [][]uint32 `json:"pairs"`
	Ack     bool       `json:"ack"`
	Last    int        `json:"last"`    // goaway: explicit last-stream-id, or
	LastReq int        `json:"lastreq"` // goaway: the stream of this request (0: use Last)
	Ty      int        `json:"ty"`
	Fl      int        `json:"fl"`
	Len     int        `json:"len"`
	Payload []int      `json:"payload"`
	Steps   []cStep    `json:"steps"`
	Cut     int        `json:"cut"`
	Ms      int        `json:"ms"`
	BadHP   bool       `json:"badhpack"`
	RawFields bool     `json:"rawfields"` // resp: send Fields exactly (no :status added)
	NoWait    bool     `json:"nowait"`    // call: do not wait for quiescence (the next step waits for something specific)
	Writers   int      `json:"writers"`   // storm: goroutines calling Conn.Write at once
	Each      int      `json:"each"`      // storm: calls per goroutine
	prep      bool                // storm: prepare the call, do not Write
	fire      func()              // storm: the prepared Write
	Gate      string   `json:"gate"`      // call: hold the write loop at this hook point until an "ungate" step
}

type cCfg struct {
	Unit     int  `json:"unit"`
	SrvIW    int  `json:"srviw"`    // server's SETTINGS_INITIAL_WINDOW_SIZE (0: absent)
	SrvMFS   int  `json:"srvmfs"`   // server's SETTINGS_MAX_FRAME_SIZE (0: absent)
	SrvMCS   int  `json:"srvmcs"`   // server's SETTINGS_MAX_CONCURRENT_STREAMS (0: absent)
	SrvHTS   int  `json:"srvhts"`   // server's SETTINGS_HEADER_TABLE_SIZE (-1/0: absent)
	HasHTS   bool `json:"hashts"`
	OutCap   int  `json:"outCap"`
	Fam      string `json:"fam"`
}

type cScenario struct {
	ID    int     `json:"id"`
	Cfg   cCfg    `json:"cfg"`
	Steps []cStep `json:"steps"`
	Tag   string  `json:"tag"`
}

type cReq struct {
	idx      int
	ctx      *http2.Ctx
	sid      uint32 // as seen by the server peer (0 until its HEADERS arrive)
	called   bool
	canceled bool
	bodyKind string
	bodyN    int
}

type cliRun struct {
	sc       cScenario
	evs      []sEvent
	evMu     sync.Mutex
	a, b     *memEnd
	toA, toB *memPipe
	conn     *http2.Conn
	v        *http2.VerifCli
	fr       *xh2.Framer
	wbuf     bytes.Buffer
	henc     *hpack.Encoder
	hencBuf  bytes.Buffer
	hdec     *hpack.Decoder
	hdecMu   sync.Mutex
	// SETTINGS_HEADER_TABLE_SIZE values this peer has sent: the acknowledged one and those still in flight
	htsAcked   uint32
	encMax     uint64 // dynamic table size the client's encoder has declared (4096 until it says otherwise)
	blockTSOver bool
	htsPending []uint32
	rdDone   chan struct{}
	reqs     map[int]*cReq
	reqMu    sync.Mutex
	sidReq   map[uint32]int
	unit     int
	noDeliver bool
	stash    map[uint32][]byte
	// hook-driven progress counters
	inQ, inDrop, outQ, outDrop, winQ atomic.Int64 // producer side of the client's queues
	wlReq, wlOut, wlWin              atomic.Int64 // consumer side
	wlTaken, wlIdleAt atomic.Int64
	rlFrames, rlDone  atomic.Int64
	wlExit, rlExit    atomic.Bool
	delivered         atomic.Int64 // successful deliveries into Ctx.Err
	attempts          atomic.Int64
	resolvedSeen      atomic.Int64 // waiters that logged a resolve
	waiters           atomic.Int64
	pendingFields     []hpack.HeaderField
	pendingSize       int
	peerDecErr        bool
	recvBody          map[uint32]int
	sentBody          map[uint32]int
	rdFrames          atomic.Int64
	timeoutHit        bool
	handshakeErr      string
	closedByUs        bool
	// scheduler gate: the client's write loop parks in the named blocking hook until released
	gatePoint   atomic.Value // string
	gateHit     chan struct{}
	closeBegan  chan struct{} // a slow body stream's Close has started
	readBegan   chan struct{} // a slow body stream's Read has started
	gateRelease chan struct{}
	gated       atomic.Bool
	cutMode     bool
	cutEvs      []cutEvC
	asyncOps    sync.WaitGroup // caller actions started while a loop was parked
}

const htsNone = ^uint32(0)

// htsAllowed is the largest dynamic table size a conforming client may announce right now (hdecMu held).
func (r *cliRun) htsAllowed() uint32 {
	m := r.htsAcked
	for _, v := range r.htsPending {
		if v != htsNone && v > m {
			m = v
		}
	}
	return m
}

func (r *cliRun) emit(e sEvent) {
	r.evMu.Lock()
	r.evs = append(r.evs, e)
	r.evMu.Unlock()
}

var spinSink atomic.Int64

var cliHookMu sync.Mutex
var cliRuns sync.Map // *http2.Conn -> *cliRun
var cliCtxRuns sync.Map // *http2.Ctx -> *cliRun

func init() {
	cmds["cli"] = cmdCli
	http2.VerifCtxResolveHook = func(ctx *http2.Ctx, err error, delivered bool) {
		if v, ok := cliCtxRuns.Load(ctx); ok {
			r := v.(*cliRun)
			r.attempts.Add(1)
			if delivered {
				r.delivered.Add(1)
			}
		}
	}
}

func runCliScenario(sc cScenario) (evs []sEvent) {
	r := &cliRun{closeBegan: make(chan struct{}, 8), readBegan: make(chan struct{}, 1), gateHit: make(chan struct{}, 1), gateRelease: make(chan struct{}, 1), sc: sc, reqs: map[int]*cReq{}, sidReq: map[uint32]int{}, recvBody: map[uint32]int{}, sentBody: map[uint32]int{}}
	r.unit = sc.Cfg.Unit
	if r.unit <= 0 {
		r.unit = 1
	}
	defer func() {
		if p := recover(); p != nil {
			r.emit(sEvent{"k": "driverpanic", "msg": fmt.Sprint(p)})
			evs = r.evs
		}
	}()
	r.a, r.b, r.toA, r.toB = newMemConn()
	if sc.Cfg.OutCap > 0 {
		r.toB.setCap(sc.Cfg.OutCap)
	}
	r.fr = xh2.NewFramer(&r.wbuf, r.b)
	r.fr.AllowIllegalWrites = true
	r.fr.AllowIllegalReads = true
	r.fr.SetMaxReadFrameSize(1<<24 - 1)
	r.henc = hpack.NewEncoder(&r.hencBuf)
	r.hdec = hpack.NewDecoder(4096, nil)
	r.htsAcked = 4096
	r.encMax = 4096
	r.rdDone = make(chan struct{})

	cliHookMu.Lock()
	http2.VerifOnCliInit = func(c *http2.Conn, v *http2.VerifCli) {
		r.v = v
		cliRuns.Store(c, r)
		v.Gate = func(point string, stream uint32) {
			if p, _ := r.gatePoint.Load().(string); p != "" && p == point {
				r.gatePoint.Store("")
				r.gated.Store(true)
				r.gateHit <- struct{}{}
				<-r.gateRelease
				r.gated.Store(false)
			}
		}
		v.OnEvent = func(ev string, stream uint32, n int64) {
			switch ev {
			case "wl.idle":
				r.wlIdleAt.Store(r.wlTaken.Load())
			case "in.q":
				r.inQ.Add(1)
			case "in.drop":
				r.inDrop.Add(1)
			case "out.q":
				r.outQ.Add(1)
			case "out.drop":
				r.outDrop.Add(1)
			case "win.q":
				r.winQ.Add(1)
			case "wl.req", "wl.out", "wl.win", "wl.ping":
				switch ev {
				case "wl.req":
					r.wlReq.Add(1)
				case "wl.out":
					r.wlOut.Add(1)
				case "wl.win":
					r.wlWin.Add(1)
				}
				r.wlTaken.Add(1)
			case "wl.exit":
				r.wlExit.Store(true)
			case "rl.frame":
				r.rlFrames.Add(1)
			case "rl.done":
				r.rlDone.Add(1)
			case "rl.exit":
				r.rlExit.Store(true)
			case "close":
				r.emit(sEvent{"k": "connclosed"})
			case "ga.flag", "ga.swept":
				// the two steps of the read loop's GOAWAY handling, in the order the code takes them
				r.emit(sEvent{"k": "hs", "ev": ev})
			}
		}
	}
	r.conn = http2.NewConn(r.a, http2.ConnOpts{PingInterval: time.Hour, DisablePingChecking: true})
	http2.VerifOnCliInit = nil
	cliHookMu.Unlock()

	// the server peer answers the handshake: its SETTINGS first (the client waits for it)
	go r.readLoop()
	var ss []xh2.Setting
	d := newFdesc()
	d.Ty = 4
	if sc.Cfg.SrvIW > 0 {
		ss = append(ss, xh2.Setting{ID: xh2.SettingInitialWindowSize, Val: uint32(sc.Cfg.SrvIW)})
		d.IW = sc.Cfg.SrvIW
	}
	if sc.Cfg.SrvMFS > 0 {
		ss = append(ss, xh2.Setting{ID: xh2.SettingMaxFrameSize, Val: uint32(sc.Cfg.SrvMFS)})
		d.MFS = sc.Cfg.SrvMFS
	}
	if sc.Cfg.SrvMCS > 0 {
		ss = append(ss, xh2.Setting{ID: xh2.SettingMaxConcurrentStreams, Val: uint32(sc.Cfg.SrvMCS)})
		d.MCS = sc.Cfg.SrvMCS
	}
	if sc.Cfg.HasHTS {
		ss = append(ss, xh2.Setting{ID: xh2.SettingHeaderTableSize, Val: uint32(sc.Cfg.SrvHTS)})
		d.HTS = sc.Cfg.SrvHTS
		r.hdec.SetAllowedMaxDynamicTableSize(uint32(sc.Cfg.SrvHTS))
		r.htsAcked = uint32(sc.Cfg.SrvHTS) // part of the handshake: in force before the first request
	}
	// one entry per SETTINGS frame sent, the handshake's included: the client's ACKs are matched to them in order
	r.hdecMu.Lock()
	r.htsPending = append(r.htsPending, htsNone)
	r.hdecMu.Unlock()
	r.fr.WriteSettings(ss...)
	d.Len, d.NSet = 6*len(ss), len(ss)
	r.flush(&d)
	if err := r.conn.Handshake(); err != nil {
		r.handshakeErr = err.Error()
		r.emit(sEvent{"k": "handshakefail", "err": err.Error()})
		r.finishRun()
		return r.evs
	}
	r.quiesce()
	// acknowledge the client's SETTINGS
	r.fr.WriteSettingsAck()
	d2 := newFdesc()
	d2.Ty, d2.Ack, d2.Fl = 4, true, 1
	r.flush(&d2)
	r.quiesce()
	t0 := time.Now()
	for i := range sc.Steps {
		r.step(&sc.Steps[i])
		if r.timeoutHit || time.Since(t0) > 40*time.Second {
			break
		}
	}
	r.finishRun()
	return r.evs
}

type cutEvC struct {
	ev  sEvent
	end int
}

// emitSend logs a frame the scripted server has put into its write buffer.  Inside a "cut" step only the frames
// that fit into the delivered prefix count as sent; that is decided when the prefix is delivered.
func (r *cliRun) emitSend(ev sEvent) {
	if r.cutMode {
		r.cutEvs = append(r.cutEvs, cutEvC{ev: ev, end: r.wbuf.Len()})
		return
	}
	r.emit(ev)
}

func (r *cliRun) flush(d *fdesc) {
	if d != nil {
		r.emitSend(sEvent{"k": "send", "f": *d})
	}
	if r.noDeliver {
		return
	}
	b := append([]byte(nil), r.wbuf.Bytes()...)
	r.wbuf.Reset()
	if len(b) > 0 {
		r.b.Write(b)
	}
}

type cqsnap struct {
	wlTaken, wlIdleAt, rlFrames, rlDone int64
	inQ, inDrop, outQ, outDrop, winQ    int64
	wlReq, wlOut, wlWin                 int64
	inLen, outLen, winLen               int
	wlX, rlX                            bool
	attempts, delivered, resolved       int64
	inTot, inRead, outTot, outRead      int64
	inIdle, outIdle                     bool
	rdFrames                            int64
	gated                               bool
}

func (r *cliRun) snap() cqsnap {
	var q cqsnap
	q.wlTaken, q.wlIdleAt, q.rlFrames, q.rlDone = r.wlTaken.Load(), r.wlIdleAt.Load(), r.rlFrames.Load(), r.rlDone.Load()
	q.inQ, q.inDrop, q.outQ, q.outDrop, q.winQ = r.inQ.Load(), r.inDrop.Load(), r.outQ.Load(), r.outDrop.Load(), r.winQ.Load()
	q.wlReq, q.wlOut, q.wlWin = r.wlReq.Load(), r.wlOut.Load(), r.wlWin.Load()
	if r.v != nil {
		q.inLen, q.outLen, q.winLen = r.v.InLen(), r.v.OutLen(), r.v.WinLen()
	}
	q.wlX, q.rlX = r.wlExit.Load(), r.rlExit.Load()
	q.attempts, q.delivered, q.resolved = r.attempts.Load(), r.delivered.Load(), r.resolvedSeen.Load()
	var bufA, parkA, bufB, parkB int
	q.inTot, q.inRead, bufA, parkA, _ = r.toA.stats()
	q.outTot, q.outRead, bufB, parkB, _ = r.toB.stats()
	q.inIdle = bufA == 0 && parkA > 0
	q.outIdle = bufB == 0 && parkB > 0
	q.rdFrames = r.rdFrames.Load()
	q.gated = r.gated.Load()
	return q
}

func (q cqsnap) quiet(readerGone bool) bool {
	// producers count before the hand-off, the write loop after taking: equality = nothing in between
	wlOK := q.wlX || q.gated || (q.wlIdleAt == q.wlTaken && q.inQ == q.wlReq+q.inDrop && q.outQ == q.wlOut+q.outDrop && q.winQ == q.wlWin &&
		q.inLen == 0 && q.outLen == 0 && q.winLen == 0)
	rlOK := q.rlX || q.gated || (q.inIdle && q.rlFrames == q.rlDone)
	peerOK := q.outIdle || readerGone
	callersOK := q.delivered == q.resolved
	return wlOK && rlOK && peerOK && callersOK
}

func (r *cliRun) readerGone() bool {
	select {
	case <-r.rdDone:
		return true
	default:
		return false
	}
}

func (r *cliRun) quiesce() bool {
	if r.noDeliver {
		return true
	}
	deadline := time.Now().Add(3 * time.Second)
	var last cqsnap
	stable := 0
	spins := 0
	var stuckSince, stillSince time.Time
	for {
		q := r.snap()
		ok := q.quiet(r.readerGone()) && q == last
		if r.toB.hold || q.gated {
			// (a write loop parked in a scheduler gate may hold a lock the read loop is waiting for: only
			// "nothing moves" can be established until the gate is opened)
			ok = q == last
			if ok {
				time.Sleep(2 * time.Millisecond)
			}
		}
		if (q.wlX || q.rlX) && !ok && q == last {
			// the connection is going down: the other loop may need a moment, or be stuck
			if stuckSince.IsZero() {
				stuckSince = time.Now()
			} else if time.Since(stuckSince) > 1200*time.Millisecond {
				r.logQ(q, true)
				return true
			}
		} else if q != last {
			stuckSince = time.Time{}
		}
		if !ok && q == last && !r.toB.hold && !q.gated && !q.wlX && !q.rlX {
			// Nothing has moved for a full second although the books do not balance (a hand-off counted by its
			// producer was never counted by the write loop): the connection IS at rest, and whatever is stalled
			// in this state is stalled for good.  Judge it as it stands.
			if stillSince.IsZero() {
				stillSince = time.Now()
			} else if time.Since(stillSince) > time.Second {
				r.emit(sEvent{"k": "note", "what": "at rest with unbalanced books"})
				r.logQ(q, false)
				return true
			}
		} else {
			stillSince = time.Time{}
		}
		if ok {
			stable++
			need := 2
			if r.toB.hold || q.gated {
				need = 10
			}
			if stable >= need {
				r.logQ(q, r.toB.hold)
				return true
			}
		} else {
			stable = 0
		}
		last = q
		spins++
		if spins < 200 {
			runtime.Gosched()
		} else {
			time.Sleep(20 * time.Microsecond)
		}
		if time.Now().After(deadline) {
			r.logQ(q, true)
			r.emit(sEvent{"k": "qtimeout", "snap": fmt.Sprintf("%+v", q)})
			r.timeoutHit = true
			return false
		}
	}
}

func (r *cliRun) logQ(q cqsnap, settled bool) {
	settled = settled || q.gated // a write loop parked in a scheduler gate: nothing can be said about progress
	g := sEvent{"k": "q", "settled": settled, "wlx": q.wlX, "rlx": q.rlX, "open": 0, "pending": 0, "queued": 0,
		"closed": r.conn.Closed(), "canopen": r.conn.CanOpenStream()}
	if r.v != nil {
		g["open"], g["pending"], g["queued"] = int(r.v.OpenStreams()), r.v.Pending(), r.v.ReqQueued()
	}
	r.emit(g)
}

// ------------------------------------------------------------ server peer reader

func (r *cliRun) readLoop() {
	defer close(r.rdDone)
	pre := make([]byte, len(xh2.ClientPreface))
	if _, err := io.ReadFull(r.b, pre); err != nil || string(pre) != xh2.ClientPreface {
		r.emit(sEvent{"k": "eof"})
		return
	}
	for {
		f, err := r.fr.ReadFrame()
		if se, ok := err.(xh2.StreamError); ok {
			r.emit(sEvent{"k": "peerproto", "sid": int(se.StreamID), "code": int(se.Code)})
			continue
		}
		if err != nil {
			r.emit(sEvent{"k": "eof"})
			if err != io.EOF && !strings.Contains(err.Error(), "closed") {
				r.emit(sEvent{"k": "rderr", "msg": err.Error()})
			}
			return
		}
		d := newFdesc()
		h := f.Header()
		d.Ty, d.Sid, d.Len, d.Fl = int(h.Type), int(h.StreamID), int(h.Length), int(h.Flags)
		req := 0
		switch ff := f.(type) {
		case *xh2.DataFrame:
			d.ES = ff.StreamEnded()
			d.DLen = len(ff.Data())
			off := r.recvBody[h.StreamID]
			d.Pat = patOK(3, h.StreamID, off, ff.Data())
			r.recvBody[h.StreamID] = off + len(ff.Data())
			d.Pad = int(h.Length) - len(ff.Data())
		case *xh2.HeadersFrame:
			d.ES, d.EH = ff.StreamEnded(), ff.HeadersEnded()
			d.First = true
			r.decodeBlock(&d, ff.HeaderBlockFragment(), ff.HeadersEnded())
			if ff.HasPriority() {
				d.Dep = int(ff.Priority.StreamDep)
			}
		case *xh2.ContinuationFrame:
			d.EH = ff.HeadersEnded()
			r.decodeBlock(&d, ff.HeaderBlockFragment(), ff.HeadersEnded())
		case *xh2.RSTStreamFrame:
			d.Code = int(ff.ErrCode)
		case *xh2.GoAwayFrame:
			d.Code, d.Last = int(ff.ErrCode), int(ff.LastStreamID)
		case *xh2.WindowUpdateFrame:
			d.Inc = int(ff.Increment)
		case *xh2.SettingsFrame:
			d.Ack = ff.IsAck()
			if ff.IsAck() {
				r.hdecMu.Lock()
				if len(r.htsPending) > 0 {
					if v := r.htsPending[0]; v != htsNone {
						r.htsAcked = v
					}
					r.htsPending = r.htsPending[1:]
					r.hdec.SetAllowedMaxDynamicTableSize(r.htsAllowed())
				}
				r.hdecMu.Unlock()
			}
			d.NSet = ff.NumSettings()
			d.Code = -1 // enable_push as advertised (-1: absent)
			ff.ForeachSetting(func(s xh2.Setting) error {
				switch s.ID {
				case xh2.SettingInitialWindowSize:
					d.IW = clampInt(s.Val)
				case xh2.SettingMaxFrameSize:
					d.MFS = clampInt(s.Val)
				case xh2.SettingMaxConcurrentStreams:
					d.MCS = clampInt(s.Val)
				case xh2.SettingHeaderTableSize:
					d.HTS = clampInt(s.Val)
				case xh2.SettingEnablePush:
					d.Code = int(s.Val)
				}
				return nil
			})
		case *xh2.PingFrame:
			d.Ack = ff.IsAck()
		}
		// which request is this stream ?  (the caller tags each request with x-req)
		if len(d.Fields) > 0 {
			for _, fl := range d.Fields {
				if string(bytesOfInts(fl[0])) == "x-req" {
					fmt.Sscanf(string(bytesOfInts(fl[1])), "%d", &req)
				}
			}
			if req != 0 {
				r.reqMu.Lock()
				r.sidReq[h.StreamID] = req
				if rq := r.reqs[req]; rq != nil && rq.sid == 0 {
					rq.sid = h.StreamID
				}
				r.reqMu.Unlock()
			}
		}
		r.reqMu.Lock()
		req = r.sidReq[h.StreamID]
		r.reqMu.Unlock()
		// request bodies are patterned by REQUEST index, so check DATA against it once the request is known
		if df, ok := f.(*xh2.DataFrame); ok && req != 0 {
			off := r.recvBody[h.StreamID] - len(df.Data())
			d.Pat = patOK(3, uint32(req), off, df.Data())
		}
		r.emit(sEvent{"k": "recv", "f": d, "req": req})
		r.rdFrames.Add(1)
		if r.rdFrames.Load() > 3000 {
			r.emit(sEvent{"k": "runaway", "frames": 3000})
			r.b.Close()
			return
		}
	}
}

// hpackVarint reads an RFC 7541 5.1 integer with an n-bit prefix; it returns (value, octets used), 0 octets when p is short.
func hpackVarint(p []byte, n uint) (uint64, int) {
	lim := uint64(1)<<n - 1
	v := uint64(p[0]) & lim
	if v < lim {
		return v, 1
	}
	var m uint
	for i := 1; i < len(p) && i < 10; i++ {
		v += uint64(p[i]&0x7f) << m
		m += 7
		if p[i]&0x80 == 0 {
			return v, i + 1
		}
	}
	return 0, 0
}

func bytesOfInts(a []int) []byte {
	b := make([]byte, len(a))
	for i, x := range a {
		b[i] = byte(x)
	}
	return b
}

func (r *cliRun) decodeBlock(d *fdesc, frag []byte, end bool) {
	if r.peerDecErr {
		d.HBad = true
		return
	}
	r.hdecMu.Lock() // the stepping goroutine sets the decoder's table limit when it sends SETTINGS
	defer r.hdecMu.Unlock()
	if d.First {
		// RFC 7541 4.2 / 6.3: the encoder's table may not be larger than the limit it has acknowledged; a reduction is
		// signalled by a size update at the start of the next block.  Track what the encoder has declared.
		p := frag
		for len(p) > 0 && p[0]&0xe0 == 0x20 {
			v, n := hpackVarint(p, 5)
			if n == 0 {
				break
			}
			r.encMax, p = v, p[n:]
		}
		r.blockTSOver = r.encMax > uint64(r.htsAllowed()) // (an increase may be used before it is acknowledged)
		if r.blockTSOver && os.Getenv("H2V_DBG") != "" {
			fmt.Fprintf(os.Stderr, "TSOVER encMax=%d acked=%d pending=%v frag=% x\n", r.encMax, r.htsAcked, r.htsPending, frag[:min(6, len(frag))])
		}
	}
	d.TSOver = r.blockTSOver
	r.hdec.SetEmitFunc(func(f hpack.HeaderField) {
		r.pendingFields = append(r.pendingFields, f)
		r.pendingSize += int(f.Size())
	})
	if _, err := r.hdec.Write(frag); err != nil {
		d.HBad = true
		r.peerDecErr = true
		return
	}
	if end {
		if err := r.hdec.Close(); err != nil {
			d.HBad = true
			r.peerDecErr = true
		}
		for _, f := range r.pendingFields {
			d.Fields = append(d.Fields, [][]int{ints([]byte(f.Name)), ints([]byte(f.Value))})
		}
		d.HSz = r.pendingSize
		r.pendingFields, r.pendingSize = nil, 0
	}
}

// ------------------------------------------------------------------ steps

func (r *cliRun) sidOf(st *cStep) uint32 {
	if st.Sid != 0 {
		return st.Sid
	}
	r.reqMu.Lock()
	defer r.reqMu.Unlock()
	if rq := r.reqs[st.Req]; rq != nil {
		return rq.sid
	}
	return 0
}

type cliBodyReader struct {
	req    int
	n, off int
	chunk  int
	eof    int
	readMs int
	reads  int
	began  chan struct{} // signalled when a slow Read starts
}

// cliBodyCloser is a body stream that is also an io.Closer; closing it takes a while.
type cliBodyCloser struct {
	cliBodyReader
	closeMs int
	note    func(string)
	began   chan struct{}
}

func (p *cliBodyCloser) Close() error {
	p.note("bodyclose-begin")
	select {
	case p.began <- struct{}{}:
	default:
	}
	time.Sleep(time.Duration(p.closeMs) * time.Millisecond)
	p.note("bodyclose-end")
	return nil
}

func (p *cliBodyReader) Read(b []byte) (int, error) {
	if p.off >= p.n {
		return 0, io.EOF
	}
	p.reads++
	if p.readMs > 0 && p.reads > 1 {
		select {
		case p.began <- struct{}{}:
		default:
		}
		time.Sleep(time.Duration(p.readMs) * time.Millisecond)
	}
	k := len(b)
	if p.chunk > 0 && k > p.chunk {
		k = p.chunk
	}
	if k > p.n-p.off {
		k = p.n - p.off
	}
	for i := 0; i < k; i++ {
		b[i] = patByte(3, uint32(p.req), p.off+i)
	}
	p.off += k
	if p.off >= p.n && p.eof == 1 {
		return k, io.EOF
	}
	return k, nil
}

func (r *cliRun) stepCall(st *cStep) {
	req := fasthttp.AcquireRequest()
	res := fasthttp.AcquireResponse()
	method := st.Method
	if method == "" {
		method = "GET"
	}
	path := st.Path
	if path == "" {
		path = fmt.Sprintf("/r%d", st.Req)
	}
	req.Header.SetMethod(method)
	req.SetRequestURI("https://ex.com" + path)
	req.Header.Set("x-req", fmt.Sprint(st.Req))
	for _, f := range st.Fields {
		req.Header.Add(f[0], f[1])
	}
	kind, n := "none", 0
	if st.Body != nil {
		kind, n = st.Body.Kind, st.Body.N*r.unit
		switch kind {
		case "buf":
			req.SetBodyRaw(patBytes(3, uint32(st.Req), 0, n))
		case "stream", "streamcl":
			var rd io.Reader = &cliBodyReader{req: st.Req, n: n, chunk: st.Body.Chunk, eof: st.Body.EOF, readMs: st.Body.ReadMs, began: r.readBegan}
			if st.Body.CloseMs > 0 {
				rd = &cliBodyCloser{cliBodyReader: cliBodyReader{req: st.Req, n: n, chunk: st.Body.Chunk, eof: st.Body.EOF}, closeMs: st.Body.CloseMs, began: r.closeBegan,
					note: func(w string) { r.emit(sEvent{"k": "note", "what": w, "sid": st.Req}) }}
			}
			if kind == "stream" {
				req.SetBodyStream(rd, -1)
			} else {
				req.SetBodyStream(rd, n)
			}
		}
	}
	ctx := &http2.Ctx{Request: req, Response: res, Err: make(chan error, 1)}
	rq := &cReq{idx: st.Req, ctx: ctx, called: true, bodyKind: kind, bodyN: n}
	r.reqMu.Lock()
	r.reqs[st.Req] = rq
	r.reqMu.Unlock()
	cliCtxRuns.Store(ctx, r)
	fields := [][][]int{}
	for k, v := range req.Header.All() {
		fields = append(fields, [][]int{ints(bytes.ToLower(k)), ints(v)})
	}
	r.emit(sEvent{"k": "call", "req": st.Req, "method": ints([]byte(method)), "path": ints([]byte(path)), "host": ints([]byte("ex.com")),
		"fields": fields, "bodykind": kind, "n": n})
	if st.Gate != "" {
		r.gatePoint.Store(st.Gate)
	}
	if r.noDeliver && !r.cutMode && r.wbuf.Len() > 0 {
		// inside a burst: what the server has "sent" so far reaches the client NOW, so that the read loop is busy
		// with it while the write loop takes this request - caller actions and server frames of one burst overlap
		b := append([]byte(nil), r.wbuf.Bytes()...)
		r.wbuf.Reset()
		r.b.Write(b)
	}
	r.waiters.Add(1)
	// Write only queues the request (or resolves it when the connection is done); calling it here, not
	// on the waiter goroutine, means the request is in c.in before quiescence is looked for.
	if st.prep {
		// storm: everything is ready; the caller fires the Write itself, in a tight loop with the others
		st.fire = func() { r.conn.Write(ctx) }
	} else {
		r.conn.Write(ctx)
	}
	go func() {
		err := <-ctx.Err
		ev := sEvent{"k": "resolve", "req": st.Req, "ok": err == nil, "err": "", "errclass": "", "status": 0, "fields": [][][]int{}, "blen": 0, "bodyok": true, "retryable": false}
		if err != nil {
			ev["err"] = err.Error()
			ev["errclass"] = errClass(err)
			ev["retryable"] = http2.VerifRetryable(err)
		} else {
			fl := [][][]int{}
			for k, v := range res.Header.All() {
				fl = append(fl, [][]int{ints(bytes.ToLower(k)), ints(v)})
			}
			body := res.Body()
			sid := uint32(0)
			r.reqMu.Lock()
			sid = rq.sid
			r.reqMu.Unlock()
			ev["status"], ev["fields"], ev["blen"], ev["bodyok"] = res.StatusCode(), fl, len(body), patOK(4, sid, 0, body)
		}
		r.emit(ev)
		// the request is resolved: as RoundTrip does, wait until neither loop is working on the Ctx (takeBack); from
		// then on Request and Response are the caller's again, and a caller with a pool hands them back at once.
		// Whatever the connection still does with them after that is a second owner (C19).
		http2.VerifTakeBack(ctx)
		fasthttp.ReleaseRequest(req)
		fasthttp.ReleaseResponse(res)
		r.resolvedSeen.Add(1)
	}()
	if st.Gate != "" {
		select {
		case <-r.gateHit:
			r.emit(sEvent{"k": "note", "what": "gated at " + st.Gate})
		case <-time.After(2 * time.Second):
			r.emit(sEvent{"k": "note", "what": "gate not reached"})
			r.gatePoint.Store("")
		}
	}
	if st.NoWait {
		return
	}
	r.quiesce()
}

func errClass(err error) string {
	s := err.Error()
	switch {
	case strings.Contains(s, "connection is closed"):
		return "connclosed"
	case strings.Contains(s, "ran out of available streams"):
		return "nostreams"
	case strings.Contains(s, "no more stream ids"):
		return "noids"
	case strings.Contains(s, "stream reset by the server"):
		return "rst"
	case strings.Contains(s, "request timed out"):
		return "timeout"
	case strings.Contains(s, "EOF"):
		return "eof"
	}
	return "other"
}

func (r *cliRun) stepResp(st *cStep) {
	sid := r.sidOf(st)
	if sid == 0 {
		r.emit(sEvent{"k": "note", "what": "resp-noop", "sid": st.Req})
		return
	}
	var fields []hpack.HeaderField
	if !st.RawFields {
		status := st.Status
		if status == 0 {
			status = 200
		}
		fields = append(fields, hpack.HeaderField{Name: ":status", Value: fmt.Sprint(status)})
	}
	for _, f := range st.Fields {
		fields = append(fields, hpack.HeaderField{Name: f[0], Value: f[1]})
	}
	var block []byte
	fl := [][][]int{}
	size := 0
	if st.BadHP {
		block = []byte{0xff, 0xff, 0xff, 0xff, 0xff, 0xff, 0xff, 0xff, 0xff, 0xff, 0xff, 0x7f}
	} else {
		r.hencBuf.Reset()
		for _, f := range fields {
			r.henc.WriteField(f)
			fl = append(fl, [][]int{ints([]byte(f.Name)), ints([]byte(f.Value))})
			size += len(f.Name) + len(f.Value) + 32
		}
		block = append([]byte(nil), r.hencBuf.Bytes()...)
	}
	cuts := []int{}
	for _, c := range st.Split {
		if c > 0 && c < len(block) {
			cuts = append(cuts, c)
		}
	}
	sort.Ints(cuts)
	frags := [][]byte{}
	prev := 0
	for _, c := range cuts {
		if c > prev {
			frags = append(frags, block[prev:c])
			prev = c
		}
	}
	frags = append(frags, block[prev:])
	for i, fg := range frags {
		last := i == len(frags)-1
		eh := last && !st.NoEH
		d := newFdesc()
		d.Sid, d.EH, d.HBad = int(sid), eh, st.BadHP
		if i == 0 {
			p := xh2.HeadersFrameParam{StreamID: sid, BlockFragment: fg, EndStream: st.ES, EndHeaders: eh}
			if st.Pad >= 0 {
				p.PadLength = uint8(st.Pad)
				d.Pad = st.Pad + 1
			}
			r.fr.WriteHeaders(p)
			d.Ty, d.ES, d.First, d.Fields, d.HSz = 1, st.ES, true, fl, size
			d.Len = len(fg) + d.Pad
		} else {
			r.fr.WriteContinuation(sid, eh, fg)
			d.Ty, d.Len = 9, len(fg)
		}
		r.emitSend(sEvent{"k": "send", "f": d, "req": st.Req})
		r.flush(nil)
		r.quiesce()
	}
}

func (r *cliRun) stepData(st *cStep) {
	sid := r.sidOf(st)
	if sid == 0 {
		r.emit(sEvent{"k": "note", "what": "data-noop", "sid": st.Req})
		return
	}
	total := st.N * r.unit
	chunks := []int{}
	if len(st.Chunks) > 0 {
		for _, c := range st.Chunks {
			chunks = append(chunks, c*r.unit)
		}
	} else {
		rem := total
		for rem > 16384 {
			chunks = append(chunks, 16384)
			rem -= 16384
		}
		chunks = append(chunks, rem)
	}
	for i, n := range chunks {
		last := i == len(chunks)-1
		off := r.sentBody[sid]
		b := patBytes(4, sid, off, n)
		r.sentBody[sid] = off + n
		d := newFdesc()
		d.Ty, d.Sid, d.ES, d.DLen = 0, int(sid), st.ES && last, n
		if st.Pad >= 0 {
			r.fr.WriteDataPadded(sid, st.ES && last, b, make([]byte, st.Pad))
			d.Pad = st.Pad + 1
		} else {
			r.fr.WriteData(sid, st.ES && last, b)
		}
		d.Len = n + d.Pad
		r.emitSend(sEvent{"k": "send", "f": d, "req": st.Req})
		r.flush(nil)
		r.quiesce()
	}
}

func (r *cliRun) step(st *cStep) {
	switch st.Op {
	case "call":
		r.stepCall(st)
	case "resp":
		r.stepResp(st)
	case "data":
		r.stepData(st)
	case "rst":
		sid := r.sidOf(st)
		if sid == 0 {
			return
		}
		r.fr.WriteRSTStream(sid, xh2.ErrCode(st.Code))
		d := newFdesc()
		d.Ty, d.Sid, d.Len, d.Code = 3, int(sid), 4, int(st.Code)
		r.emitSend(sEvent{"k": "send", "f": d, "req": st.Req})
		r.flush(nil)
		r.quiesce()
	case "goaway":
		last := uint32(st.Last)
		if st.LastReq != 0 {
			last = r.sidOf(&cStep{Req: st.LastReq})
		}
		if st.Gate != "" {
			r.gatePoint.Store(st.Gate) // parks the read loop in the middle of its GOAWAY handling until "ungate"
		}
		r.fr.WriteGoAway(last, xh2.ErrCode(st.Code), nil)
		d := newFdesc()
		d.Ty, d.Len, d.Last, d.Code = 7, 8, int(last), int(st.Code)
		r.flush(&d)
		if st.Gate != "" {
			select {
			case <-r.gateHit:
				r.emit(sEvent{"k": "note", "what": "gated at " + st.Gate})
			case <-time.After(2 * time.Second):
				r.emit(sEvent{"k": "note", "what": "gate not reached"})
				r.gatePoint.Store("")
			}
		}
		r.quiesce()
	case "wu":
		sid := uint32(0)
		if st.Req != 0 || st.Sid != 0 {
			sid = r.sidOf(st)
			if sid == 0 {
				return
			}
		}
		r.fr.WriteWindowUpdate(sid, st.Inc)
		d := newFdesc()
		d.Ty, d.Sid, d.Len, d.Inc = 8, int(sid), 4, int(st.Inc)
		r.emitSend(sEvent{"k": "send", "f": d, "req": st.Req})
		r.flush(nil)
		if st.NoWait {
			return
		}
		r.quiesce()
	case "settings":
		d := newFdesc()
		d.Ty = 4
		if st.Ack {
			r.fr.WriteSettingsAck()
			d.Ack, d.Fl = true, 1
		} else {
			var ss []xh2.Setting
			carriedHTS := false
			hasHTS := false
			for _, p := range st.Pairs {
				hasHTS = hasHTS || p[0] == 1
			}
			if !hasHTS {
				// one entry per SETTINGS frame, so that ACKs line up - in place BEFORE the frame goes out: the ACK
				// may be read by the other goroutine before this function returns
				r.hdecMu.Lock()
				r.htsPending = append(r.htsPending, htsNone)
				r.hdecMu.Unlock()
			}
			for _, p := range st.Pairs {
				ss = append(ss, xh2.Setting{ID: xh2.SettingID(p[0]), Val: p[1]})
				switch p[0] {
				case 1:
					d.HTS = clampInt(p[1])
					// the limit binds the client's encoder from its ACK on; until then blocks encoded under any of the
					// values still in flight are legitimate, so the decoder admits the largest of them
					r.hdecMu.Lock()
					if carriedHTS {
						r.htsPending[len(r.htsPending)-1] = p[1] // a later value in the same frame replaces the earlier one
					} else {
						r.htsPending = append(r.htsPending, p[1])
					}
					r.hdec.SetAllowedMaxDynamicTableSize(r.htsAllowed())
					r.hdecMu.Unlock()
					carriedHTS = true
				case 2:
					if p[1] > 1 {
						d.SBad = 1
					}
				case 3:
					d.MCS = clampInt(p[1])
				case 4:
					if p[1] > 1<<31-1 {
						d.SBad = 3
					} else {
						d.IW = int(p[1])
					}
				case 5:
					if p[1] < 1<<14 || p[1] > 1<<24-1 {
						d.SBad = 1
					} else {
						d.MFS = int(p[1])
					}
				}
			}
			r.fr.WriteSettings(ss...)
			d.Len, d.NSet = 6*len(ss), len(ss)
		}
		r.flush(&d)
		r.quiesce()
	case "ping":
		var data [8]byte
		r.fr.WritePing(st.Ack, data)
		d := newFdesc()
		d.Ty, d.Len, d.Ack = 6, 8, st.Ack
		r.flush(&d)
		r.quiesce()
	case "raw":
		payload := make([]byte, len(st.Payload))
		for i, v := range st.Payload {
			payload[i] = byte(v)
		}
		if st.Len > len(payload) {
			payload = append(payload, make([]byte, st.Len-len(payload))...)
		}
		sid := st.Sid
		if st.Req != 0 {
			sid = r.sidOf(st)
		}
		r.fr.WriteRawFrame(xh2.FrameType(st.Ty), xh2.Flags(st.Fl), sid, payload)
		d := newFdesc()
		d.Ty, d.Sid, d.Len, d.Fl = st.Ty, int(sid), len(payload), st.Fl
		d.ES = st.Fl&1 != 0 && (st.Ty == 0 || st.Ty == 1)
		d.HBad = (st.Ty == 1 || st.Ty == 9) && len(payload) > 0
		r.emitSend(sEvent{"k": "send", "f": d, "req": st.Req})
		r.flush(nil)
		r.quiesce()
	case "burst":
		r.noDeliver = true
		for i := range st.Steps {
			r.step(&st.Steps[i])
		}
		r.noDeliver = false
		r.flush(nil)
		r.quiesce()
	case "cut":
		r.noDeliver, r.cutMode, r.cutEvs = true, true, nil
		for i := range st.Steps {
			r.step(&st.Steps[i])
		}
		r.noDeliver, r.cutMode = false, false
		b := append([]byte(nil), r.wbuf.Bytes()...)
		r.wbuf.Reset()
		k := st.Cut
		if k > len(b) {
			k = len(b)
		}
		for _, ce := range r.cutEvs {
			if ce.end <= k {
				r.emit(ce.ev)
			}
		}
		r.cutEvs = nil
		r.emit(sEvent{"k": "note", "what": "cut", "sid": k})
		if k > 0 {
			r.b.Write(b[:k])
		}
		r.quiesce()
		r.emit(sEvent{"k": "peerclose"})
		r.b.Close()
		r.quiesce()
	case "close":
		r.emit(sEvent{"k": "userclose"})
		r.closedByUs = true
		if r.toB.hold {
			// the peer is not reading: Close may have to wait for its GOAWAY to go out, and the goroutine that will
			// let the peer read again must not be the one that waits
			r.asyncOps.Add(1)
			go func() { defer r.asyncOps.Done(); r.conn.Close() }()
		} else {
			r.conn.Close()
		}
		r.quiesce()
	case "ungate":
		if r.gated.Load() {
			r.emit(sEvent{"k": "note", "what": "ungate"})
			r.gateRelease <- struct{}{}
		}
		r.asyncOps.Wait()
		r.quiesce()
	case "cancel":
		r.reqMu.Lock()
		rq := r.reqs[st.Req]
		r.reqMu.Unlock()
		if rq != nil {
			do := func() {
				err := r.conn.Cancel(rq.ctx)
				r.reqMu.Lock()
				rq.canceled = err == nil
				r.reqMu.Unlock()
				r.emit(sEvent{"k": "cancel", "req": st.Req, "ok": err == nil})
			}
			if r.gated.Load() {
				// the loop that is parked in a gate may hold the request: Cancel then waits for it, as it should, and
				// the goroutine that will open the gate must not be the one that waits
				r.asyncOps.Add(1)
				go func() { defer r.asyncOps.Done(); do() }()
			} else {
				do()
			}
		}
		r.quiesce()
	case "srvclose":
		r.emit(sEvent{"k": "peerclose"})
		r.b.Close()
		r.quiesce()
	case "stopread":
		r.toB.setHold(true)
	case "resumeread":
		r.toB.setHold(false)
		r.asyncOps.Wait()
		r.quiesce()
	case "failwrites":
		tot, _, _, _, _ := r.toB.stats()
		r.toB.setFailAt(tot + int64(st.N))
	case "wait":
		time.Sleep(time.Duration(st.Ms) * time.Millisecond)
		r.quiesce()
	case "storm":
		// callers on several goroutines hand requests to the connection, as fast as they can, while the socket under
		// it starts to fail: the write loop dies between two of their calls.  Every one of the requests is resolved.
		calls := make([][]*cStep, st.Writers)
		for w := range calls {
			for k := 0; k < st.Each; k++ {
				c := &cStep{Op: "call", Req: st.Req + w*st.Each + k, NoWait: true, prep: true}
				r.stepCall(c)
				calls[w] = append(calls[w], c)
			}
		}
		var wg sync.WaitGroup
		hold := make(chan struct{})
		for w := range calls {
			wg.Add(1)
			go func(cs []*cStep) {
				defer wg.Done()
				<-hold
				rng := rand.New(rand.NewSource(int64(len(cs))*7919 + int64(cs[0].Req)))
				for _, c := range cs {
					// arrivals spread out, slower than the write loop drains: its queue is empty most of the time
					for i, n := 0, rng.Intn(st.N+1); i < n; i++ {
						spinSink.Add(1)
					}
					c.fire()
				}
			}(calls[w])
		}
		time.Sleep(time.Millisecond)
		tot, _, _, _, _ := r.toB.stats()
		r.toB.setFailAt(tot)
		r.emit(sEvent{"k": "note", "what": "failwrites"})
		close(hold)
		wg.Wait()
		r.quiesce()
	case "awaitread":
		// until the write loop is inside a slow Read of a caller's body stream (at most 2 s)
		select {
		case <-r.readBegan:
		case <-time.After(2 * time.Second):
			r.emit(sEvent{"k": "note", "what": "slow-read-not-seen"})
		}
	case "awaitclose":
		// until the library has begun to close a slow body stream (at most 2 s); the close is still going on afterwards
		select {
		case <-r.closeBegan:
			time.Sleep(30 * time.Millisecond) // the frames written before the close have reached the peer's reader by now
		case <-time.After(2 * time.Second):
			r.emit(sEvent{"k": "note", "what": "bodyclose-not-seen"})
		}
	}
}

func (r *cliRun) finishRun() {
	if r.gated.Load() {
		r.gateRelease <- struct{}{}
	}
	r.asyncOps.Wait()
	if !r.timeoutHit && r.handshakeErr == "" {
		r.quiesce()
	}
	// the connection ends: first the user closes it, then the peer goes away
	r.emit(sEvent{"k": "userclose"})
	r.conn.Close()
	r.b.Close()
	// every call must have resolved by now (canceled ones excepted)
	deadline := time.Now().Add(2 * time.Second)
	for time.Now().Before(deadline) {
		if r.resolvedSeen.Load() >= r.waiters.Load()-r.canceledCount() {
			break
		}
		time.Sleep(time.Millisecond)
	}
	<-r.rdDone
	left := 0
	for i := 0; i < 3000; i++ {
		left = countCliGoroutines()
		if left == 0 {
			break
		}
		time.Sleep(time.Millisecond)
	}
	unresolved := []int{}
	r.reqMu.Lock()
	for idx, rq := range r.reqs {
		_ = rq
		unresolved = append(unresolved, idx)
	}
	r.reqMu.Unlock()
	r.emit(sEvent{"k": "end", "leaked": left, "waiters": int(r.waiters.Load()), "resolved": int(r.resolvedSeen.Load()),
		"canceled": int(r.canceledCount()), "delivered": int(r.delivered.Load()), "attempts": int(r.attempts.Load()), "qtimeout": r.timeoutHit,
		"wlx": r.wlExit.Load(), "rlx": r.rlExit.Load()})
	r.reqMu.Lock()
	for _, rq := range r.reqs {
		cliCtxRuns.Delete(rq.ctx)
	}
	r.reqMu.Unlock()
	cliRuns.Delete(r.conn)
}

func (r *cliRun) canceledCount() int64 {
	r.reqMu.Lock()
	defer r.reqMu.Unlock()
	n := int64(0)
	for _, rq := range r.reqs {
		if rq.canceled {
			n++
		}
	}
	return n
}

func countCliGoroutines() int {
	buf := make([]byte, 1<<18)
	n := runtime.Stack(buf, true)
	c := 0
	for _, g := range strings.Split(string(buf[:n]), "\n\n") {
		if strings.Contains(g, "dgrr/http2.(*Conn)") {
			c++
		}
	}
	return c
}

func cmdCli(args []string) error {
	var in, out string
	for i := 0; i < len(args); i++ {
		switch args[i] {
		case "--in":
			i++
			in = args[i]
		case "--out":
			i++
			out = args[i]
		}
	}
	rows, err := readLines(in)
	if err != nil {
		return err
	}
	tw, err := NewTraceW(out, 1)
	if err != nil {
		return err
	}
	poolRecInit()
	defer poolRecFlush()
	for _, ln := range rows {
		var sc cScenario
		if err := json.Unmarshal(ln, &sc); err != nil {
			return fmt.Errorf("scenario: %v", err)
		}
		evs := runCliScenario(sc)
		tw.Emit(sc.ID, map[string]any{"tag": sc.Tag, "cfg": sc.Cfg, "evs": evs})
	}
	return tw.Close()
}
