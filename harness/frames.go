package main

// C05 / C16: frame wire layout (both directions) and totality of the wire
// parsers.  Every line of the trace is ONE call of the real code
// (FrameHeader.WriteTo, ReadFrameFrom[WithSize], HPACK.Next loop) with the
// input it was given and everything observable about the outcome; the verdict
// is computed by spec/FramesTrace.tla, never here.
//
// Line kinds (see FramesTrace.tla for the exact schema):
//   write : a frame value built through the public API ("api") or obtained by
//           reading and re-serialised ("fwd"), and the bytes WriteTo produced
//   read  : bytes produced by an independent writer (x/net Framer, byte
//           builder), what ReadFrameFrom returned, bytes consumed, reader
//           position, panic, allocation, pool events
//   hpack : arbitrary bytes fed to HPACK.Next until exhausted / error

import (
	"bufio"
	"bytes"
	"encoding/binary"
	"encoding/json"
	"errors"
	"flag"
	"fmt"
	"io"
	"math/rand"
	"os"
	"path/filepath"
	"runtime"
	"runtime/debug"
	"strconv"
	"strings"
	"unsafe"

	"github.com/dgrr/http2"
)

func init() { cmds["frames"] = cmdFrames }

// ------------------------------------------------------------------ bytes

// frDigest is Frames!Digest.
func frDigest(b []byte) int {
	a := 7
	for _, c := range b {
		a = (a*31 + int(c) + 1) % 65521
	}
	return a
}

const (
	frFullMax = 400 // byte strings up to this length are logged in full
	frPreLen  = 64
	frSufLen  = 320 // covers a whole padding section (<= 255) plus the end of the body
)

// frDescribe turns a byte string into the trace form {pre, mlen, fill, msum, suf}:
// bytes = pre ++ fill^mlen ++ suf; msum is the digest of the real middle part, so
// the spec notices when the middle is not the constant fill.
func frDescribe(b []byte) map[string]any {
	if len(b) <= frFullMax {
		return map[string]any{"pre": ints(b), "mlen": 0, "fill": 0, "msum": frDigest(nil), "suf": []int{}}
	}
	mid := b[frPreLen : len(b)-frSufLen]
	return map[string]any{"pre": ints(b[:frPreLen]), "mlen": len(mid), "fill": int(mid[0]), "msum": frDigest(mid),
		"suf": ints(b[len(b)-frSufLen:])}
}

func frNum(v any) int {
	switch x := v.(type) {
	case float64:
		return int(x)
	case int:
		return x
	}
	return 0
}

func frMaterial(v any) []byte {
	m, _ := v.(map[string]any)
	if m == nil {
		return nil
	}
	out := append([]byte(nil), frBytesAny(m["pre"])...)
	out = append(out, bytes.Repeat([]byte{byte(frNum(m["fill"]))}, frNum(m["mlen"]))...)
	out = append(out, frBytesAny(m["suf"])...)
	return out
}

func frBytesAny(v any) []byte {
	switch x := v.(type) {
	case []any:
		return bytesOf(x)
	case []int:
		out := make([]byte, len(x))
		for i, c := range x {
			out[i] = byte(c)
		}
		return out
	}
	return nil
}

// frBody makes a body of n bytes that survives frDescribe: distinct edges, a
// constant middle.
func frBody(n int, seed byte) []byte {
	b := make([]byte, n)
	for i := range b {
		switch {
		case i < 32:
			b[i] = byte(i*7+3) ^ seed
		case n-i <= 40:
			b[i] = byte((n-i)*11+1) ^ seed
		default:
			b[i] = 0xA5 ^ seed
		}
	}
	return b
}

// ------------------------------------------------------------------ fields

// frFields is what a reader (the code under test, or x/net) reports about a
// frame, in one shape for all types.  32-bit quantities are 16-bit halves.
type frFields struct {
	Ty     int   `json:"ty"`
	Fl     int   `json:"fl"`
	Sidh   int   `json:"sidh"`
	Sidl   int   `json:"sidl"`
	Len    int   `json:"len"`
	Es     int   `json:"es"`
	Eh     int   `json:"eh"`
	Ack    int   `json:"ack"`
	Padded int   `json:"padded"` // Padding() getter; x/net: the flag
	Excl   int   `json:"excl"`   // -1: the API has no way to tell
	Deph   int   `json:"deph"`
	Depl   int   `json:"depl"`
	Wt     int   `json:"wt"`
	Blen   int   `json:"blen"`
	Bsum   int   `json:"bsum"`
	Bpre   []int `json:"bpre"`
	Bsuf   []int `json:"bsuf"`
	Psidh  int   `json:"psidh"`
	Psidl  int   `json:"psidl"`
	Ch     int   `json:"ch"`
	Cl     int   `json:"cl"`
	Inch   int   `json:"inch"`
	Incl   int   `json:"incl"`
	St     []int `json:"st"`    // 6 x (hi, lo): the six known parameters as the object reports them
	Ppapi  int   `json:"ppapi"` // PUSH_PROMISE: 1 when the body exposes promised id / fragment / END_HEADERS
}

func frBlankFields() frFields {
	return frFields{Excl: -1, Bpre: []int{}, Bsuf: []int{}, St: make([]int, 12), Bsum: frDigest(nil)}
}

func (f *frFields) setBody(b []byte) {
	f.Blen = len(b)
	f.Bsum = frDigest(b)
	n := len(b)
	if n > 64 {
		n = 64
	}
	f.Bpre = ints(b[:n])
	m := len(b)
	if m > 16 {
		m = 16
	}
	f.Bsuf = ints(b[len(b)-m:])
}

func frSameFields(a, b frFields) bool {
	ja, _ := json.Marshal(a)
	jb, _ := json.Marshal(b)
	return bytes.Equal(ja, jb)
}

func frHalves(v uint32) (int, int) { return int(v >> 16), int(v & 0xffff) }

func frB2i(b bool) int {
	if b {
		return 1
	}
	return 0
}

// frFieldsOf reads a frame returned by the code under test through its public
// getters only.
func frFieldsOf(fr *http2.FrameHeader) frFields {
	f := frBlankFields()
	f.Ty = int(uint8(fr.Type()))
	f.Fl = int(uint8(fr.Flags()))
	f.Sidh, f.Sidl = frHalves(fr.Stream())
	f.Len = fr.Len()
	switch b := fr.Body().(type) {
	case *http2.Data:
		f.Es = frB2i(b.EndStream())
		f.Padded = frB2i(b.Padding())
		f.setBody(b.Data())
	case *http2.Headers:
		f.Es = frB2i(b.EndStream())
		f.Eh = frB2i(b.EndHeaders())
		f.Padded = frB2i(b.Padding())
		f.Deph, f.Depl = frHalves(b.Stream())
		f.Wt = int(b.Weight())
		f.setBody(b.Headers())
		if x, ok := any(b).(interface{ Exclusive() bool }); ok {
			f.Excl = frB2i(x.Exclusive())
		}
	case *http2.Continuation:
		f.Eh = frB2i(b.EndHeaders())
		f.setBody(b.Headers())
	case *http2.Priority:
		f.Deph, f.Depl = frHalves(b.Stream())
		f.Wt = int(b.Weight())
		if x, ok := any(b).(interface{ Exclusive() bool }); ok {
			f.Excl = frB2i(x.Exclusive())
		}
	case *http2.RstStream:
		f.Ch, f.Cl = frHalves(uint32(b.Code()))
	case *http2.Settings:
		f.Ack = frB2i(b.IsAck())
		f.St = frSettingsOf(b)
	case *http2.PushPromise:
		// the unchanged tree has no getters at all on PushPromise
		type ppAPI interface {
			Stream() uint32
			Headers() []byte
			EndHeaders() bool
		}
		if x, ok := any(b).(ppAPI); ok {
			f.Ppapi = 1
			f.Psidh, f.Psidl = frHalves(x.Stream())
			f.Eh = frB2i(x.EndHeaders())
			f.setBody(x.Headers())
			if y, ok := any(b).(interface{ Padding() bool }); ok {
				f.Padded = frB2i(y.Padding())
			}
		}
	case *http2.Ping:
		f.Ack = frB2i(b.IsAck())
		f.setBody(b.Data())
	case *http2.GoAway:
		f.Psidh, f.Psidl = frHalves(b.Stream())
		f.Ch, f.Cl = frHalves(uint32(b.Code()))
		f.setBody(b.Data())
	case *http2.WindowUpdate:
		f.Inch, f.Incl = frHalves(uint32(b.Increment()))
		if b.Increment() < 0 || b.Increment() > 0xffffffff {
			f.Inch, f.Incl = 0xffff, 0xffff
		}
	}
	return f
}

func frSettingsOf(b *http2.Settings) []int {
	st := make([]int, 12)
	put := func(i int, v uint32) { st[2*i], st[2*i+1] = frHalves(v) }
	put(0, b.HeaderTableSize())
	put(1, uint32(frB2i(b.Push())))
	put(2, b.MaxConcurrentStreams())
	put(3, b.MaxWindowSize())
	put(4, b.MaxFrameSize())
	put(5, b.MaxHeaderListSize())
	return st
}

// ------------------------------------------------------------------ pools

type frPoolRec struct {
	on  bool
	ids map[unsafe.Pointer]int
	evs [][3]int
	// hygiene only, never a verdict: which objects sit in a pool right now, to notice a
	// double Put (also outside the recorded call) and flush the pools before the next line
	inPool map[unsafe.Pointer]bool
	dirty  bool
}

var frPool = frPoolRec{inPool: map[unsafe.Pointer]bool{}}

func frPoolInstall() {
	http2.VerifPoolHook = func(op byte, kind int, p unsafe.Pointer) {
		if op == 'p' {
			if frPool.inPool[p] {
				frPool.dirty = true
			}
			frPool.inPool[p] = true
		} else {
			delete(frPool.inPool, p)
		}
		if !frPool.on {
			return
		}
		id, ok := frPool.ids[p]
		if !ok {
			id = len(frPool.ids) + 1
			frPool.ids[p] = id
		}
		o := 1
		if op == 'p' {
			o = 2
		}
		frPool.evs = append(frPool.evs, [3]int{o, kind, id})
	}
}

func frPoolStart() {
	frPool.ids = map[unsafe.Pointer]int{}
	frPool.evs = make([][3]int, 0, 16)
	frPool.on = true
}

func frPoolStop() [][3]int {
	frPool.on = false
	if frPool.evs == nil {
		return [][3]int{}
	}
	return frPool.evs
}

// frPoolFlush empties every sync.Pool (two GC cycles: primary, then victim
// cache) so that a double release observed on one line cannot leak into the
// observations of the following lines.
func frPoolFlush() {
	runtime.GC()
	runtime.GC()
	frPool.inPool = map[unsafe.Pointer]bool{}
	frPool.dirty = false
}

// ------------------------------------------------------------------ read

var frSentinelData = []byte("SENTINEL")

func frSentinel() []byte {
	return append([]byte{0, 0, 8, 6, 0, 0, 0, 0, 0}, frSentinelData...)
}

type frReadCase struct {
	In   []byte
	Max  uint32 // the limit the reader is given; API "def" always means 16384
	API  string // "def": ReadFrameFrom, "size": ReadFrameFromWithSize(br, Max)
	Sent bool   // a valid PING follows the input
	Post bool   // acquire two frames of the same type afterwards (pool consistency after errors)
	Src  string // who wrote the bytes (informational)
}

type frOpts struct {
	alloc bool
}

func frErrClass(err error) string {
	if err == nil {
		return "ok"
	}
	if err == io.EOF || err == io.ErrUnexpectedEOF {
		return "eof"
	}
	var e http2.Error
	if errors.As(err, &e) {
		if e == http2.ErrUnknownFrameType {
			return "unknown"
		}
		if e == http2.ErrPayloadExceeds {
			return "exceeds"
		}
	}
	return "other"
}

func frCallRead(br *bufio.Reader, c *frReadCase) (fr *http2.FrameHeader, err error, pan string) {
	defer func() {
		if r := recover(); r != nil {
			pan = fmt.Sprint(r)
			if len(pan) > 120 {
				pan = pan[:120]
			}
		}
	}()
	if c.API == "size" {
		fr, err = http2.ReadFrameFromWithSize(br, c.Max)
	} else {
		fr, err = http2.ReadFrameFrom(br)
	}
	return
}

func frRunRead(tw *TraceW, t int, c *frReadCase, o frOpts) {
	full := c.In
	if c.Sent {
		full = append(append([]byte(nil), c.In...), frSentinel()...)
	}
	rd := bytes.NewReader(full)
	br := bufio.NewReaderSize(rd, 4096)

	// Allocation of the recorded call itself.  Buffers kept in the pools by earlier lines
	// would hide an allocation driven by the length field, so a line that announces or
	// carries more than 4 KB starts from empty pools.
	var m0, m1 runtime.MemStats
	if o.alloc {
		if len(full) > 4096 || (len(full) >= 3 && (full[0] != 0 || full[1] >= 16)) {
			frPoolFlush()
		}
	}
	frPoolStart()
	if o.alloc {
		runtime.ReadMemStats(&m0)
	}
	fr, err, pan := frCallRead(br, c)
	if o.alloc {
		runtime.ReadMemStats(&m1)
	}
	alloc1 := int(m1.TotalAlloc - m0.TotalAlloc)
	consumed := len(full) - rd.Len() - br.Buffered()
	res := frErrClass(err)
	if pan != "" {
		res = "panic"
	}
	g := frBlankFields()
	if pan == "" && err == nil && fr != nil {
		g = frFieldsOf(fr)
		http2.ReleaseFrameHeader(fr)
	}
	dup := -1
	if c.Post && len(c.In) >= 4 && c.In[3] <= 9 && pan == "" {
		a1 := http2.AcquireFrame(http2.FrameType(c.In[3]))
		a2 := http2.AcquireFrame(http2.FrameType(c.In[3]))
		dup = frB2i(a1 == a2)
		http2.ReleaseFrame(a1)
		if a1 != a2 {
			http2.ReleaseFrame(a2)
		}
	}
	pool := frPoolStop()

	next := "na"
	if pan == "" {
		fr2, err2, pan2 := frCallRead(br, &frReadCase{API: "def"})
		switch {
		case pan2 != "":
			next = "panic"
		case err2 != nil:
			next = "err"
		default:
			if p, ok := fr2.Body().(*http2.Ping); ok && bytes.Equal(p.Data(), frSentinelData) && fr2.Stream() == 0 && fr2.Flags() == 0 {
				next = "sentinel"
			} else {
				next = "frame"
			}
			http2.ReleaseFrameHeader(fr2)
		}
	}

	alloc := -1
	if o.alloc && pan == "" {
		const reps = 8
		runtime.ReadMemStats(&m0)
		for i := 0; i < reps; i++ {
			rd.Reset(full)
			br.Reset(rd)
			f2, _, _ := frCallRead(br, c)
			if f2 != nil {
				http2.ReleaseFrameHeader(f2)
			}
		}
		runtime.ReadMemStats(&m1)
		alloc = int((m1.TotalAlloc - m0.TotalAlloc) / reps)
		if alloc1 > alloc {
			alloc = alloc1 // the larger of: first call, steady state per call
		}
	}
	if frPool.dirty || dup == 1 || pan != "" {
		frPoolFlush()
	}

	api := c.API
	if api == "" {
		api = "def"
	}
	max := int(c.Max)
	if api == "def" {
		max = 16384
	}
	x := frXRead(full, uint32(max))
	// compression only: when x/net reports exactly what the code reported, the fields are not logged twice
	if xf, ok := x["f"].(frFields); ok && x["res"] == "ok" && res == "ok" && frSameFields(xf, g) {
		x["same"] = 1
		x["f"] = map[string]any{}
	}
	tw.Emit(t, map[string]any{"ev": "read", "src": c.Src, "api": api, "max": max, "sent": frB2i(c.Sent), "post": frB2i(c.Post),
		"in": frDescribe(c.In), "res": res, "panic": pan, "consumed": consumed, "next": next, "g": g,
		"alloc": alloc, "pool": pool, "dupacq": dup, "x": x})
}

// ------------------------------------------------------------------ hpack

func frRunHpack(tw *TraceW, t int, in []byte, src string) {
	type step = [4]int // consumed, produced, err, remainder-is-a-suffix
	steps := make([]step, 0, 8)
	capIt := len(in) + 2
	capped, pan := 0, ""
	frPoolStart()
	func() {
		defer func() {
			if r := recover(); r != nil {
				pan = fmt.Sprint(r)
				if len(pan) > 120 {
					pan = pan[:120]
				}
			}
		}()
		hp := http2.AcquireHPACK()
		hf := http2.AcquireHeaderField()
		b := in
		for len(b) > 0 {
			if len(steps) >= capIt {
				capped = 1
				break
			}
			hf.Reset()
			nb, err := hp.Next(hf, b)
			prod := len(hf.KeyBytes()) + len(hf.ValueBytes())
			if err != nil {
				steps = append(steps, step{0, prod, 1, 1})
				break
			}
			sfx := 0
			if len(nb) <= len(b) && (len(nb) == 0 || &nb[0] == &b[len(b)-len(nb)]) {
				sfx = 1
			}
			steps = append(steps, step{len(b) - len(nb), prod, 0, sfx})
			b = nb
		}
		http2.ReleaseHeaderField(hf)
		http2.ReleaseHPACK(hp)
		// the next user resets it, which releases the dynamic table entries
		hp2 := http2.AcquireHPACK()
		http2.ReleaseHPACK(hp2)
	}()
	pool := frPoolStop()
	if len(pool) > 600 {
		pool = pool[:600]
	}
	if frPool.dirty || pan != "" {
		frPoolFlush()
	}
	tw.Emit(t, map[string]any{"ev": "hpack", "src": src, "in": frDescribe(in), "n": len(in), "steps": steps, "capped": capped,
		"panic": pan, "pool": pool})
}

// ------------------------------------------------------------------ command

func cmdFrames(args []string) error {
	fs := flag.NewFlagSet("frames", flag.ExitOnError)
	mode := fs.String("mode", "read", "write | read | trunc | rand | hpacktotal | file")
	in := fs.String("in", "", "file mode: ndjson trace lines to re-execute")
	out := fs.String("out", "frames.ndjson", "output prefix")
	seed := fs.Int64("seed", 1, "seed")
	n := fs.Int("n", 1000, "number of random cases")
	level := fs.Int("level", 1, "1 = quick domain, 2 = thorough domain")
	part := fs.Int("part", 0, "emit only cases with index % parts == part")
	parts := fs.Int("parts", 1, "number of parts")
	allocEvery := fs.Int("alloc", 1, "measure allocation on every k-th read line (0 = never)")
	corpus := fs.String("corpus", "", "directory with go fuzz corpora (testdata/fuzz)")
	fs.Parse(args)

	// One P: sync.Pool is per-P, so Put followed by Get returns the same object
	// deterministically.  GC off: addresses are never reused while a line is
	// recorded and TotalAlloc deltas are exact.
	runtime.GOMAXPROCS(1)
	debug.SetGCPercent(-1)
	frPoolInstall()

	tw, err := NewTraceW(*out, 1)
	if err != nil {
		return err
	}
	t := 0
	idx := 0
	take := func() bool {
		idx++
		return (idx-1)%*parts == *part
	}
	opts := func() frOpts {
		return frOpts{alloc: *allocEvery > 0 && t%*allocEvery == 0}
	}
	emitRead := func(c *frReadCase) {
		if !take() {
			return
		}
		t++
		frRunRead(tw, t, c, opts())
		if t%2000 == 0 {
			frPoolFlush() // bound the heap: GC is off
		}
	}
	emitWrite := func(c *frWriteCase) {
		if !take() {
			return
		}
		t++
		frRunWrite(tw, t, c)
		if t%2000 == 0 {
			frPoolFlush()
		}
	}
	emitHpack := func(b []byte, src string) {
		if !take() {
			return
		}
		t++
		frRunHpack(tw, t, b, src)
		if t%2000 == 0 {
			frPoolFlush()
		}
	}

	switch *mode {
	case "write":
		frGenWrite(*level, emitWrite)
	case "read":
		frGenRead(*level, emitRead)
	case "trunc":
		frGenTrunc(*level, emitRead)
	case "rand":
		frGenRand(*seed, *n, frCorpus(*corpus, "FuzzFrameHeaderRead"), emitRead)
	case "hpacktotal":
		frGenHpack(*seed, *n, frCorpus(*corpus, "FuzzHPACKNext"), emitHpack)
	case "file":
		rows, err := readNDJSON(*in)
		if err != nil {
			return err
		}
		for _, r := range rows {
			switch r["ev"] {
			case "read":
				emitRead(&frReadCase{In: frMaterial(r["in"]), Max: uint32(frNum(r["max"])), API: fmt.Sprint(r["api"]),
					Sent: frNum(r["sent"]) == 1, Post: frNum(r["post"]) == 1, Src: fmt.Sprint(r["src"])})
			case "write":
				emitWrite(frWriteCaseOf(r))
			case "hpack":
				emitHpack(frMaterial(r["in"]), fmt.Sprint(r["src"]))
			}
		}
	default:
		return fmt.Errorf("unknown mode %q", *mode)
	}
	return tw.Close()
}

// frCorpus reads the seed corpus of one go fuzz target ("go test fuzz v1" files
// with a single []byte value).
func frCorpus(dir, target string) [][]byte {
	if dir == "" {
		return nil
	}
	var out [][]byte
	files, _ := filepath.Glob(filepath.Join(dir, target, "*"))
	for _, f := range files {
		raw, err := os.ReadFile(f)
		if err != nil {
			continue
		}
		for _, ln := range strings.Split(string(raw), "\n") {
			ln = strings.TrimSpace(ln)
			if strings.HasPrefix(ln, "[]byte(") && strings.HasSuffix(ln, ")") {
				if s, err := strconv.Unquote(ln[len("[]byte(") : len(ln)-1]); err == nil {
					out = append(out, []byte(s))
				}
			}
		}
	}
	return out
}

// ------------------------------------------------------------------ random inputs

func frGenRand(seed int64, n int, corpus [][]byte, emit func(*frReadCase)) {
	r := rand.New(rand.NewSource(seed))
	maxes := []uint32{16384, 16384, 64, 0, 1 << 24}
	one := func(b []byte, src string) {
		api, max := "def", uint32(16384)
		if r.Intn(2) == 0 {
			api, max = "size", maxes[r.Intn(len(maxes))]
		}
		emit(&frReadCase{In: b, Max: max, API: api, Sent: r.Intn(2) == 0, Post: r.Intn(4) == 0, Src: src})
	}
	for _, c := range corpus {
		one(c, "corpus")
		for k := 0; k < len(c); k++ {
			one(c[:k], "corpus-cut")
		}
	}
	valid := frValidFrames()
	for i := 0; i < n; i++ {
		switch r.Intn(4) {
		case 0: // plain random bytes
			b := make([]byte, r.Intn(40))
			r.Read(b)
			one(b, "rand")
		case 1: // random header with a small length, random payload
			ln := r.Intn(24)
			b := make([]byte, 9+ln+r.Intn(3))
			r.Read(b)
			b[0], b[1], b[2] = 0, 0, byte(ln)
			if r.Intn(3) > 0 {
				b[3] = byte(r.Intn(11))
			}
			one(b, "rand-hdr")
		case 2: // a valid frame with 1..3 mutated bytes
			v := append([]byte(nil), valid[r.Intn(len(valid))]...)
			for k := 1 + r.Intn(3); k > 0; k-- {
				p := r.Intn(len(v))
				if p < 2 { // keep the length field small enough to stay a short input
					continue
				}
				v[p] = byte(r.Intn(256))
			}
			one(v, "mut")
		default: // a valid frame whose length field is off by a little
			v := append([]byte(nil), valid[r.Intn(len(valid))]...)
			d := r.Intn(5) - 2
			l := int(v[2]) + d
			if l < 0 {
				l = 0
			}
			v[2] = byte(l)
			one(v, "mut-len")
		}
	}
}

func frGenHpack(seed int64, n int, corpus [][]byte, emit func([]byte, string)) {
	r := rand.New(rand.NewSource(seed))
	seeds := [][]byte{{0x82}, {0x40, 0x01, 'a', 0x01, 'b'}, {0x00, 0x01, 'a', 0x81, 0x3f}, {0xff, 0xff, 0xff, 0xff, 0xff}, {},
		{0x3f, 0xe1, 0x1f}, {0x20}, {0x40, 0x85, 0xff, 0xff, 0xff, 0xff, 0xff}, {0x7f, 0x80, 0x80, 0x80, 0x80, 0x80, 0x80, 0x80, 0x80, 0x80, 0x80, 0x01},
		{0x40, 0x7f, 0xff, 0xff, 0xff, 0xff, 0x0f}, {0x10, 0x00, 0x00}, {0x0f, 0x2f, 0x00}, {0xbe}, {0x40, 0x00, 0x00}}
	seeds = append(seeds, corpus...)
	for _, s := range seeds {
		emit(s, "seed")
		for k := 1; k < len(s); k++ {
			emit(s[:k], "seed-cut")
		}
	}
	// HPACK integers at every size: k continuation octets of 0xff / 0x80 and a final octet, in each position an
	// integer can take (index, name length, value length, table size update); lengths near 2^31, 2^32, 2^63
	for _, head := range [][]byte{{0x00, 0x7f}, {0x00, 0xff}, {0x40, 0x01, 'a', 0x7f}, {0x10, 0x01, 'a', 0xff}, {0xff}, {0x7f}, {0x0f}, {0x3f}} {
		for k := 0; k <= 10; k++ {
			for _, fill := range []byte{0xff, 0x80} {
				for _, last := range []byte{0x00, 0x01, 0x7f, 0x0f} {
					b := append([]byte(nil), head...)
					b = append(b, bytes.Repeat([]byte{fill}, k)...)
					b = append(b, last, 'x', 'y', 'z')
					emit(b, "varint")
				}
			}
		}
	}
	// every single byte, every pair over a boundary alphabet
	for a := 0; a < 256; a++ {
		emit([]byte{byte(a)}, "byte")
	}
	alpha := []byte{0x00, 0x01, 0x0f, 0x10, 0x1f, 0x20, 0x3f, 0x40, 0x41, 0x7e, 0x7f, 0x80, 0x81, 0x82, 0xbe, 0xbf, 0xfe, 0xff}
	for _, a := range alpha {
		for _, b := range alpha {
			emit([]byte{a, b}, "pair")
			emit([]byte{a, b, 0x80}, "pair+")
		}
	}
	for i := 0; i < n; i++ {
		var b []byte
		switch r.Intn(4) {
		case 0:
			b = make([]byte, 1+r.Intn(24))
			r.Read(b)
		case 1: // sequences over the representation-prefix alphabet
			b = make([]byte, 1+r.Intn(16))
			for j := range b {
				b[j] = alpha[r.Intn(len(alpha))]
			}
		case 2: // literals with plausible string lengths, some huffman, some cut
			for k := 1 + r.Intn(4); k > 0; k-- {
				b = append(b, []byte{0x40, 0x00, 0x10, 0x0f, 0x44, 0x5f}[r.Intn(6)])
				for s := 0; s < 2; s++ {
					l := r.Intn(9)
					h := byte(0)
					if r.Intn(2) == 0 {
						h = 0x80
					}
					b = append(b, h|byte(l))
					for ; l > 0; l-- {
						if h != 0 {
							b = append(b, []byte{0xff, 0x1f, 0xa8, 0xeb, 0x10, 0x64, 0x9c, 0xbf}[r.Intn(8)])
						} else {
							b = append(b, byte(32+r.Intn(90)))
						}
					}
				}
			}
			if r.Intn(3) == 0 && len(b) > 1 {
				b = b[:r.Intn(len(b))]
			}
		default: // long runs: many indexed fields, long varints
			b = bytes.Repeat([]byte{[]byte{0x82, 0xbe, 0xff, 0x7f, 0x3f}[r.Intn(5)]}, 1+r.Intn(300))
		}
		emit(b, "rand")
	}
}

func frU32(v uint32) []byte {
	var b [4]byte
	binary.BigEndian.PutUint32(b[:], v)
	return b[:]
}
