package main

// RoundTrip-level driver: the code under test is the whole client stack
// (http2.ConfigureClient -> Client.RoundTrip -> pickConn / retry loop -> Conn)
// talking TLS over in-memory connections to REACTIVE scripted servers (x/net
// Framer + hpack).  Every connection the client dials gets its own server
// goroutine; what a server does when the j-th HEADERS of request <tag> reach it
// is fixed by the scenario ("react": tag -> [reaction of 1st arrival, 2nd, ...]),
// which TLC enumerates from spec/H2RoundTrip.tla.  All events go to one log
// under one mutex; a disclaimer (GOAWAY / RST_STREAM REFUSED_STREAM) is logged
// BEFORE it is written and an arrival AFTER it was read, so log order respects
// causality and H2RoundTripTrace.tla can judge it without lock-step.

import (
	"bytes"
	"crypto/ecdsa"
	"crypto/elliptic"
	"crypto/rand"
	"crypto/tls"
	"crypto/x509"
	"crypto/x509/pkix"
	"encoding/json"
	"fmt"
	"io"
	"math/big"
	"net"
	"runtime"
	"strconv"
	"strings"
	"sync"
	"sync/atomic"
	"time"

	"github.com/dgrr/http2"
	"github.com/valyala/fasthttp"
	xh2 "golang.org/x/net/http2"
	"golang.org/x/net/http2/hpack"
)

type rtReq struct {
	Tag    int    `json:"tag"`
	Method string `json:"method"`
	BodyN  int    `json:"bodyn"`
	AtMs   int    `json:"atms"`   // start offset
	C2     bool   `json:"c2"`     // issued through a second Client of the same process, which has no response timeout
	Repeat int    `json:"repeat"` // the caller issues this many further requests back to back (tags Tag+1000, Tag+2000, ...)
}

type rtCfg struct {
	MCS        int    `json:"mcs"`        // SETTINGS_MAX_CONCURRENT_STREAMS of every scripted server (0: absent)
	TimeoutMs  int    `json:"timeoutms"`  // ClientOpts.MaxResponseTime
	DialFailAt int    `json:"dialfailat"` // connections with index >= this fail to dial (0: never)
	CloseAtMs  int    `json:"closeatms"`  // Client.Close() this long after the first call (0: only at the end)
	LingerMs   int    `json:"lingerms"`   // how long a server that said GOAWAY keeps the connection
	StallAfter int    `json:"stallafter"` // every server stops reading after this many arrivals (0: never) ...
	PipeCap    int    `json:"pipecap"`    // ... and the client->server pipe holds at most this many octets
	SlowAfter  int    `json:"slowafter"`  // every server reads slowly after this many arrivals (0: never): ...
	SlowMs     int    `json:"slowms"`     // ... at most 16 KiB per read, one read per SlowMs
	BigWin     bool   `json:"bigwin"`     // servers grant 16 MiB stream and connection windows up front (flow control never limits a body)
	DefReact   string `json:"defreact"`   // reaction for arrivals the scenario does not list (default "ok")
	Scribble   bool   `json:"scribble"`   // callers overwrite their request body the moment RoundTrip returns (as a caller reusing its buffers would)
}

type rtScenario struct {
	ID    int                 `json:"id"`
	Tag   string              `json:"tag"`
	Cfg   rtCfg               `json:"cfg"`
	Reqs  []rtReq             `json:"reqs"`
	React map[string][]string `json:"react"`
}

type rtRun struct {
	sc      rtScenario
	mu      sync.Mutex
	evs     []sEvent
	nconn   int
	arrived map[int]int // tag -> arrivals so far
	tlsCfg  *tls.Config
	conns   []*rtConn
	wg      sync.WaitGroup
	over    atomic.Bool
}

type rtConn struct {
	r      *rtRun
	idx    int
	c      net.Conn
	fr     *xh2.Framer
	wmu    sync.Mutex
	henc   *hpack.Encoder
	hbuf   bytes.Buffer
	hdec   *hpack.Decoder
	closed atomic.Bool
	narr   atomic.Int32
	gaSent bool
	gaLast uint32
	// header block being assembled
	blkSid uint32
	blk    []byte
	blkES  bool
	// requests whose HEADERS arrived: sid -> tag, reaction pending until END_STREAM
	tagOf   map[uint32]int
	reactOf map[uint32]string
}

var rtCertOnce sync.Once
var rtCert tls.Certificate

func rtServerTLS() *tls.Config {
	rtCertOnce.Do(func() {
		key, err := ecdsa.GenerateKey(elliptic.P256(), rand.Reader)
		if err != nil {
			panic(err)
		}
		tpl := &x509.Certificate{SerialNumber: big.NewInt(1), Subject: pkix.Name{CommonName: "rt.test"},
			NotBefore: time.Now().Add(-time.Hour), NotAfter: time.Now().Add(24 * time.Hour),
			KeyUsage: x509.KeyUsageDigitalSignature, ExtKeyUsage: []x509.ExtKeyUsage{x509.ExtKeyUsageServerAuth}, DNSNames: []string{"rt.test"}}
		der, err := x509.CreateCertificate(rand.Reader, tpl, tpl, &key.PublicKey, key)
		if err != nil {
			panic(err)
		}
		rtCert = tls.Certificate{Certificate: [][]byte{der}, PrivateKey: key}
	})
	return &tls.Config{Certificates: []tls.Certificate{rtCert}, NextProtos: []string{"h2"}, MinVersion: tls.VersionTLS12}
}

func (r *rtRun) emit(e sEvent) {
	r.mu.Lock()
	r.evs = append(r.evs, e)
	r.mu.Unlock()
}

// dial is the HostClient's Dial: a fresh in-memory pair whose far end is served by a new scripted server.
func (r *rtRun) dial(addr string) (net.Conn, error) {
	r.mu.Lock()
	idx := r.nconn
	r.nconn++
	r.mu.Unlock()
	if r.sc.Cfg.DialFailAt > 0 && idx >= r.sc.Cfg.DialFailAt {
		r.emit(sEvent{"k": "dialfail", "conn": idx})
		return nil, fmt.Errorf("rt: dial refused (scenario)")
	}
	a, b, _, toB := newMemConn()
	if r.sc.Cfg.PipeCap > 0 {
		toB.setCap(r.sc.Cfg.PipeCap)
	}
	sc := &rtConn{r: r, idx: idx, tagOf: map[uint32]int{}, reactOf: map[uint32]string{}}
	sc.c = tls.Server(b, r.tlsCfg)
	r.mu.Lock()
	r.conns = append(r.conns, sc)
	r.mu.Unlock()
	r.emit(sEvent{"k": "dial", "conn": idx})
	r.wg.Add(1)
	go sc.serve()
	return a, nil
}

func (s *rtConn) emit(e sEvent) {
	e["conn"] = s.idx
	s.r.emit(e)
}

func (s *rtConn) close(why string) {
	if s.closed.CompareAndSwap(false, true) {
		s.emit(sEvent{"k": "srvclose", "why": why})
		s.c.Close()
	}
}

func (s *rtConn) serve() {
	defer s.r.wg.Done()
	defer func() {
		if p := recover(); p != nil {
			s.emit(sEvent{"k": "driverpanic", "msg": fmt.Sprint(p)})
		}
	}()
	tc := s.c.(*tls.Conn)
	if err := tc.Handshake(); err != nil {
		s.emit(sEvent{"k": "tlsfail", "err": err.Error()})
		s.c.Close()
		return
	}
	pre := make([]byte, len(xh2.ClientPreface))
	if _, err := io.ReadFull(s.c, pre); err != nil || string(pre) != xh2.ClientPreface {
		s.emit(sEvent{"k": "eof", "at": "preface"})
		s.c.Close()
		return
	}
	s.fr = xh2.NewFramer(s.c, &rtSlowReader{s: s})
	s.fr.AllowIllegalReads = true
	s.fr.SetMaxReadFrameSize(1<<24 - 1)
	s.henc = hpack.NewEncoder(&s.hbuf)
	s.hdec = hpack.NewDecoder(4096, nil)
	var ss []xh2.Setting
	if s.r.sc.Cfg.MCS > 0 {
		ss = append(ss, xh2.Setting{ID: xh2.SettingMaxConcurrentStreams, Val: uint32(s.r.sc.Cfg.MCS)})
	}
	if s.r.sc.Cfg.BigWin {
		ss = append(ss, xh2.Setting{ID: xh2.SettingInitialWindowSize, Val: 1 << 24})
	}
	s.wmu.Lock()
	s.fr.WriteSettings(ss...)
	if s.r.sc.Cfg.BigWin {
		s.fr.WriteWindowUpdate(0, 1<<24)
	}
	s.wmu.Unlock()
	s.emit(sEvent{"k": "connup"})
	for {
		if n := s.r.sc.Cfg.StallAfter; n > 0 && len(s.tagOf) >= n {
			// a peer that has stopped reading: the client's write loop blocks once the pipe is full
			s.emit(sEvent{"k": "stall"})
			for !s.closed.Load() && !s.r.over.Load() {
				time.Sleep(5 * time.Millisecond)
			}
			s.close("stalled")
			return
		}
		f, err := s.fr.ReadFrame()
		if err != nil {
			s.emit(sEvent{"k": "eof", "at": "frames"})
			s.close("peer-gone")
			return
		}
		switch f := f.(type) {
		case *xh2.SettingsFrame:
			if !f.IsAck() {
				s.wmu.Lock()
				s.fr.WriteSettingsAck()
				s.wmu.Unlock()
			}
		case *xh2.PingFrame:
			if !f.IsAck() {
				s.wmu.Lock()
				s.fr.WritePing(true, f.Data)
				s.wmu.Unlock()
			}
		case *xh2.HeadersFrame:
			s.blkSid, s.blk, s.blkES = f.StreamID, append([]byte(nil), f.HeaderBlockFragment()...), f.StreamEnded()
			if f.HeadersEnded() {
				s.blockDone()
			}
		case *xh2.ContinuationFrame:
			s.blk = append(s.blk, f.HeaderBlockFragment()...)
			if f.HeadersEnded() {
				s.blockDone()
			}
		case *xh2.DataFrame:
			if n := len(f.Data()); n > 0 {
				s.wmu.Lock()
				s.fr.WriteWindowUpdate(0, uint32(n))
				s.fr.WriteWindowUpdate(f.StreamID, uint32(n))
				s.wmu.Unlock()
			}
			if f.StreamEnded() {
				s.requestDone(f.StreamID)
			}
		case *xh2.RSTStreamFrame:
			s.emit(sEvent{"k": "clirst", "sid": int(f.StreamID), "code": int(f.ErrCode), "tag": s.tagOf[f.StreamID]})
			delete(s.reactOf, f.StreamID)
		case *xh2.GoAwayFrame:
			s.emit(sEvent{"k": "cligoaway", "last": int(f.LastStreamID)})
		}
		if s.closed.Load() {
			return
		}
	}
}

// rtSlowReader is the scripted server's view of the connection: a peer that, from some point on, reads slowly.
type rtSlowReader struct{ s *rtConn }

func (r *rtSlowReader) Read(b []byte) (int, error) {
	cfg := &r.s.r.sc.Cfg
	if cfg.SlowAfter > 0 && int(r.s.narr.Load()) >= cfg.SlowAfter && !r.s.r.over.Load() {
		time.Sleep(time.Duration(cfg.SlowMs) * time.Millisecond)
		if len(b) > 16384 {
			b = b[:16384]
		}
	}
	return r.s.c.Read(b)
}

func (s *rtConn) blockDone() {
	fields, err := s.hdec.DecodeFull(s.blk)
	sid := s.blkSid
	if err != nil {
		s.emit(sEvent{"k": "arrive", "sid": int(sid), "tag": -1, "undecodable": true})
		return
	}
	if _, seen := s.tagOf[sid]; seen {
		return // trailers
	}
	tag := -1
	var path, method string
	for _, f := range fields {
		switch f.Name {
		case ":path":
			path = f.Value
		case ":method":
			method = f.Value
		}
	}
	if i := strings.LastIndex(path, "/t/"); i >= 0 {
		tag, _ = strconv.Atoi(path[i+3:])
	}
	s.tagOf[sid] = tag
	s.narr.Add(1)
	s.r.mu.Lock()
	j := s.r.arrived[tag]
	s.r.arrived[tag] = j + 1
	s.r.mu.Unlock()
	react := "ok"
	if s.r.sc.Cfg.DefReact != "" {
		react = s.r.sc.Cfg.DefReact
	}
	if l := s.r.sc.React[strconv.Itoa(tag)]; j < len(l) {
		react = l[j]
	}
	born := s.gaSent && sid > s.gaLast
	s.emit(sEvent{"k": "arrive", "sid": int(sid), "tag": tag, "nth": j + 1, "react": react, "afterga": born, "method": method, "es": s.blkES})
	if born {
		return // the GOAWAY already disclaimed it; a server ignores such streams
	}
	s.reactOf[sid] = react
	if s.blkES || react != "ok" && !strings.HasPrefix(react, "ok@") && react != "okhdr" && react != "ga_at_ok" && react != "partial" {
		s.requestDone(sid)
	}
}

func (s *rtConn) writeResp(sid uint32, tag int, status int, body []byte, complete bool) {
	s.wmu.Lock() // delayed answers are written from goroutines of their own: one encoder, one writer
	defer s.wmu.Unlock()
	s.hbuf.Reset()
	s.henc.WriteField(hpack.HeaderField{Name: ":status", Value: strconv.Itoa(status)})
	s.henc.WriteField(hpack.HeaderField{Name: "x-tag", Value: strconv.Itoa(tag)})
	s.henc.WriteField(hpack.HeaderField{Name: "x-conn", Value: strconv.Itoa(s.idx)})
	s.fr.WriteHeaders(xh2.HeadersFrameParam{StreamID: sid, BlockFragment: append([]byte(nil), s.hbuf.Bytes()...), EndHeaders: true, EndStream: complete && len(body) == 0})
	if len(body) > 0 {
		s.fr.WriteData(sid, complete, body)
	}
}

func rtBody(tag, conn int, sid uint32) []byte {
	return []byte(fmt.Sprintf("body-of-%d-on-%d-%d;", tag, conn, sid))
}

// requestDone runs the reaction of a request whose HEADERS (and body) have arrived.
func (s *rtConn) requestDone(sid uint32) {
	react, ok := s.reactOf[sid]
	if !ok {
		return
	}
	delete(s.reactOf, sid)
	tag := s.tagOf[sid]
	linger := time.Duration(s.r.sc.Cfg.LingerMs) * time.Millisecond
	if linger == 0 {
		linger = 60 * time.Millisecond
	}
	if strings.HasPrefix(react, "ok@") {
		// answer after a delay (milliseconds): "ok@7"
		ms, _ := strconv.Atoi(react[3:])
		go func() {
			time.Sleep(time.Duration(ms) * time.Millisecond)
			if s.closed.Load() {
				return
			}
			s.emit(sEvent{"k": "answer", "sid": int(sid), "tag": tag, "status": 200, "body": string(rtBody(tag, s.idx, sid))})
			s.writeResp(sid, tag, 200, rtBody(tag, s.idx, sid), true)
			s.emit(sEvent{"k": "answered", "sid": int(sid), "tag": tag})
		}()
		return
	}
	switch react {
	case "ok":
		s.emit(sEvent{"k": "answer", "sid": int(sid), "tag": tag, "status": 200, "body": string(rtBody(tag, s.idx, sid))})
		s.writeResp(sid, tag, 200, rtBody(tag, s.idx, sid), true)
		s.emit(sEvent{"k": "answered", "sid": int(sid), "tag": tag})
	case "okhdr":
		s.emit(sEvent{"k": "answer", "sid": int(sid), "tag": tag, "status": 204, "body": ""})
		s.writeResp(sid, tag, 204, nil, true)
		s.emit(sEvent{"k": "answered", "sid": int(sid), "tag": tag})
	case "refuse":
		s.emit(sEvent{"k": "srvrst", "sid": int(sid), "tag": tag, "code": int(xh2.ErrCodeRefusedStream)})
		s.wmu.Lock()
		s.fr.WriteRSTStream(sid, xh2.ErrCodeRefusedStream)
		s.wmu.Unlock()
	case "rst":
		s.emit(sEvent{"k": "srvrst", "sid": int(sid), "tag": tag, "code": int(xh2.ErrCodeCancel)})
		s.wmu.Lock()
		s.fr.WriteRSTStream(sid, xh2.ErrCodeCancel)
		s.wmu.Unlock()
	case "hdrrst":
		s.writeResp(sid, tag, 200, nil, false)
		s.emit(sEvent{"k": "srvrst", "sid": int(sid), "tag": tag, "code": int(xh2.ErrCodeInternal)})
		s.wmu.Lock()
		s.fr.WriteRSTStream(sid, xh2.ErrCodeInternal)
		s.wmu.Unlock()
	case "ga_below":
		last := uint32(0)
		if sid >= 2 {
			last = sid - 2
		}
		s.goAway(last, xh2.ErrCodeNo)
		go s.closeAfter(linger, "after-goaway")
	case "ga_at_ok":
		s.goAway(sid, xh2.ErrCodeNo)
		s.emit(sEvent{"k": "answer", "sid": int(sid), "tag": tag, "status": 200, "body": string(rtBody(tag, s.idx, sid))})
		s.writeResp(sid, tag, 200, rtBody(tag, s.idx, sid), true)
		s.emit(sEvent{"k": "answered", "sid": int(sid), "tag": tag})
		go s.closeAfter(linger, "after-goaway")
	case "ga_at_close":
		s.goAway(sid, xh2.ErrCodeInternal)
		s.close("after-goaway-now")
	case "close":
		s.close("reaction")
	case "partial":
		s.writeResp(sid, tag, 200, []byte("part"), false)
		s.close("reaction-partial")
	case "silence":
	}
}

func (s *rtConn) goAway(last uint32, code xh2.ErrCode) {
	if s.gaSent && last > s.gaLast {
		last = s.gaLast // a server never raises last-stream-id
	}
	s.gaSent, s.gaLast = true, last
	s.emit(sEvent{"k": "srvgoaway", "last": int(last), "code": int(code)})
	s.wmu.Lock()
	s.fr.WriteGoAway(last, code, nil)
	s.wmu.Unlock()
}

func (s *rtConn) closeAfter(d time.Duration, why string) {
	time.Sleep(d)
	s.close(why)
}

func rtErrClass(err error) string {
	if err == nil {
		return ""
	}
	s := err.Error()
	switch {
	case strings.Contains(s, "before processing the request"):
		return "goaway-unprocessed"
	case strings.Contains(s, "client is closed"):
		return "clientclosed"
	case strings.Contains(s, "dial refused"):
		return "dial"
	}
	return errClass(err)
}

func runRtScenario(sc rtScenario) (evs []sEvent) {
	r := &rtRun{sc: sc, arrived: map[int]int{}, tlsCfg: rtServerTLS()}
	defer func() {
		if p := recover(); p != nil {
			r.emit(sEvent{"k": "driverpanic", "msg": fmt.Sprint(p)})
			evs = r.evs
		}
	}()
	base := countCliGoroutines()
	hc := &fasthttp.HostClient{Addr: "rt.test:443", IsTLS: true, TLSConfig: &tls.Config{InsecureSkipVerify: true, ServerName: "rt.test"}, Dial: r.dial}
	timeout := time.Duration(sc.Cfg.TimeoutMs) * time.Millisecond
	if timeout == 0 {
		timeout = 8 * time.Second
	}
	if err := http2.ConfigureClient(hc, http2.ClientOpts{MaxResponseTime: timeout, PingInterval: time.Hour}); err != nil {
		r.emit(sEvent{"k": "configurefail", "err": err.Error()})
		return r.evs
	}
	cl := http2.ClientFrom(hc)
	// a second Client in the same process (the pools are process-wide), configured without a response timeout
	var hc2 *fasthttp.HostClient
	for _, q := range sc.Reqs {
		if q.C2 && hc2 == nil {
			hc2 = &fasthttp.HostClient{Addr: "rt.test:443", IsTLS: true, TLSConfig: &tls.Config{InsecureSkipVerify: true, ServerName: "rt.test"}, Dial: r.dial}
			if err := http2.ConfigureClient(hc2, http2.ClientOpts{MaxResponseTime: -1, PingInterval: time.Hour}); err != nil {
				r.emit(sEvent{"k": "configurefail", "err": err.Error()})
				return r.evs
			}
		}
	}
	var done sync.WaitGroup
	returned := make([]atomic.Bool, len(sc.Reqs))
	t0 := time.Now()
	for i := range sc.Reqs {
		q := sc.Reqs[i]
		done.Add(1)
		go func(i int) {
			defer done.Done()
			if q.AtMs > 0 {
				time.Sleep(time.Duration(q.AtMs) * time.Millisecond)
			}
			base := q
			for rep := 0; rep <= base.Repeat; rep++ {
				q := base
				q.Tag = base.Tag + 1000*rep
				req, res := fasthttp.AcquireRequest(), fasthttp.AcquireResponse()
				req.Header.SetMethod(q.Method)
				req.SetRequestURI(fmt.Sprintf("https://rt.test/t/%d", q.Tag))
				if q.BodyN > 0 {
					req.SetBody(bytes.Repeat([]byte{'b'}, q.BodyN))
				}
				r.emit(sEvent{"k": "call", "tag": q.Tag, "method": q.Method, "bodyn": q.BodyN})
				t := time.Now()
				var retry bool
				var err error
				func() {
					defer func() {
						if p := recover(); p != nil {
							r.emit(sEvent{"k": "callpanic", "tag": q.Tag, "msg": fmt.Sprint(p)})
							err = fmt.Errorf("panic: %v", p)
						}
					}()
					if q.C2 {
						retry, err = hc2.Transport.RoundTrip(hc2, req, res)
					} else {
						retry, err = hc.Transport.RoundTrip(hc, req, res)
					}
				}()
				e := sEvent{"k": "ret", "tag": q.Tag, "retry": retry, "ok": err == nil, "err": "", "class": rtErrClass(err), "ms": int(time.Since(t) / time.Millisecond),
					"status": 0, "body": "", "xtag": -1}
				if err != nil {
					e["err"] = err.Error()
				} else {
					e["status"] = res.StatusCode()
					e["body"] = string(res.Body())
					if v := res.Header.Peek("x-tag"); len(v) > 0 {
						e["xtag"], _ = strconv.Atoi(string(v))
					}
				}
				r.emit(e)
				if sc.Cfg.Scribble && q.BodyN > 0 {
					// Request and Response are the caller's again: it reuses its buffers at once
					b := req.Body()
					for j := range b {
						b[j] = 'S'
					}
				}
				fasthttp.ReleaseRequest(req)
				fasthttp.ReleaseResponse(res)
			}
			returned[i].Store(true)
		}(i)
	}
	if sc.Cfg.CloseAtMs > 0 {
		time.Sleep(time.Duration(sc.Cfg.CloseAtMs) * time.Millisecond)
		r.emit(sEvent{"k": "clientclose"})
		cl.Close()
	}
	allDone := make(chan struct{})
	go func() { done.Wait(); close(allDone) }()
	limit := timeout*time.Duration(5) + 6*time.Second // RoundTrip tries up to four connections
	if limit > 40*time.Second {
		limit = 40 * time.Second
	}
	select {
	case <-allDone:
	case <-time.After(limit):
		for i := range sc.Reqs {
			if !returned[i].Load() {
				r.emit(sEvent{"k": "stuck", "tag": sc.Reqs[i].Tag, "ms": int(time.Since(t0) / time.Millisecond)})
			}
		}
	}
	r.emit(sEvent{"k": "clientclose"})
	r.over.Store(true)
	cl.Close()
	if hc2 != nil {
		http2.ClientFrom(hc2).Close()
	}
	// every scripted server sees EOF once the client has closed its connections
	left := -1
	for i := 0; i < 300; i++ {
		if left = countCliGoroutines() - base; left <= 0 {
			break
		}
		time.Sleep(10 * time.Millisecond)
	}
	srvDone := make(chan struct{})
	go func() { r.wg.Wait(); close(srvDone) }()
	select {
	case <-srvDone:
	case <-time.After(2 * time.Second):
		r.mu.Lock()
		cs := append([]*rtConn(nil), r.conns...)
		r.mu.Unlock()
		for _, c := range cs {
			if !c.closed.Load() {
				c.emit(sEvent{"k": "connleft"})
				c.close("driver")
			}
		}
	}
	r.emit(sEvent{"k": "end", "goroutines": left, "conns": r.nconn})
	runtime.Gosched()
	r.mu.Lock()
	evs = append([]sEvent(nil), r.evs...)
	r.mu.Unlock()
	return evs
}

func cmdRt(args []string) error {
	var in, out string
	for i := 0; i < len(args); i++ {
		switch args[i] {
		case "--in":
			i++
			in = args[i]
		case "--out":
			i++
			out = args[i]
		}
	}
	rows, err := readLines(in)
	if err != nil {
		return err
	}
	tw, err := NewTraceW(out, 1)
	if err != nil {
		return err
	}
	for _, ln := range rows {
		var sc rtScenario
		if err := json.Unmarshal(ln, &sc); err != nil {
			return fmt.Errorf("scenario: %v", err)
		}
		evs := runRtScenario(sc)
		tw.Emit(sc.ID, map[string]any{"tag": sc.Tag, "cfg": sc.Cfg, "nreq": len(sc.Reqs), "evs": evs})
	}
	return tw.Close()
}

func init() { cmds["rt"] = cmdRt }
