package main

// Pool / ownership event recorder for C19 (PoolsTrace.tla).  Enabled with env
// H2V_POOLTRACE=<file>: every Get/Put of the library's sync.Pools (hook
// VerifPoolHook), every handler's use of its RequestCtx, and every access to a
// variable with a documented synchronisation discipline (VerifAccessHook) is
// appended, in hook order, to one trace for the whole process.  GC is switched
// off so that addresses are not reused while the process runs.

import (
	"encoding/json"
	"os"
	"runtime/debug"
	"strconv"
	"sync"
	"unsafe"

	"github.com/dgrr/http2"
)

type poolRecorder struct {
	mu   sync.Mutex
	on   bool
	ids  map[unsafe.Pointer]int
	evs  [][3]int
	acc  [][2]string
	accN map[[2]string]int
}

var poolRec poolRecorder

func poolRecInit() {
	if os.Getenv("H2V_POOLTRACE") == "" {
		return
	}
	debug.SetGCPercent(-1)
	poolRec.on = true
	poolRec.ids = map[unsafe.Pointer]int{}
	poolRec.accN = map[[2]string]int{}
	http2.VerifPoolHook = func(op byte, kind int, p unsafe.Pointer) {
		o := 0
		if op == 'p' {
			o = 1
		}
		poolRec.add(o, kind, p)
	}
	http2.VerifAccessHook = func(variable, role string) {
		poolRec.mu.Lock()
		k := [2]string{variable, role}
		if poolRec.accN[k] < 3 { // a few of each (variable, role) pair are enough
			poolRec.accN[k]++
			poolRec.acc = append(poolRec.acc, k)
		}
		poolRec.mu.Unlock()
	}
}

func (r *poolRecorder) add(op, kind int, p unsafe.Pointer) {
	if !r.on || p == nil {
		return
	}
	r.mu.Lock()
	id, ok := r.ids[p]
	if !ok {
		id = len(r.ids) + 1
		r.ids[p] = id
	}
	r.evs = append(r.evs, [3]int{op, kind, id})
	r.mu.Unlock()
}

// poolUse marks the begin (2) / end (3) of a handler's use of its request context.
func poolUse(op int, p unsafe.Pointer) { poolRec.add(op, 4, p) }

func poolRecFlush() error {
	if !poolRec.on {
		return nil
	}
	poolRec.mu.Lock()
	defer poolRec.mu.Unlock()
	t, _ := strconv.Atoi(os.Getenv("H2V_POOLTRACE_ID"))
	acc := poolRec.acc
	if acc == nil {
		acc = [][2]string{}
	}
	b, err := json.Marshal(map[string]any{"t": t, "nobj": len(poolRec.ids), "evs": poolRec.evs, "acc": acc})
	if err != nil {
		return err
	}
	return os.WriteFile(os.Getenv("H2V_POOLTRACE"), append(b, '\n'), 0o644)
}
