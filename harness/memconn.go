package main

import (
	"errors"
	"io"
	"net"
	"os"
	"sync"
	"time"
)

// memPipe is one direction of a deterministic in-memory connection.
type memPipe struct {
	mu      sync.Mutex
	cond    *sync.Cond
	buf     []byte
	wclosed bool  // writer closed: reader gets EOF after draining
	rclosed bool  // reader closed: writer gets an error
	werr    error // injected write failure
	failAt  int64 // fail writes once total written reaches this (-1: never)
	capN    int   // 0: unlimited; otherwise writers block while len(buf) >= capN
	parked  int   // readers blocked on an empty buffer
	wparked int   // writers blocked on a full buffer
	total   int64 // bytes ever written
	readN   int64 // bytes ever read
	hold    bool  // reader side refuses to deliver (peer "stops reading")
	wdl     time.Time   // write deadline (zero: none): a writer blocked on a full buffer gives up then
	wdlT    *time.Timer // wakes blocked writers at the deadline
}

func newMemPipe() *memPipe {
	p := &memPipe{failAt: -1}
	p.cond = sync.NewCond(&p.mu)
	return p
}

var errMemClosed = errors.New("memconn: closed")
var errMemWriteFail = errors.New("memconn: injected write failure")

func (p *memPipe) write(b []byte) (int, error) {
	p.mu.Lock()
	defer p.mu.Unlock()
	n := 0
	for len(b) > 0 {
		if p.rclosed || p.wclosed {
			return n, errMemClosed
		}
		if p.werr != nil {
			return n, p.werr
		}
		if p.failAt >= 0 && p.total >= p.failAt {
			p.werr = errMemWriteFail
			return n, p.werr
		}
		room := len(b)
		if p.capN > 0 {
			room = p.capN - len(p.buf)
			if room <= 0 {
				if !p.wdl.IsZero() && !time.Now().Before(p.wdl) {
					return n, os.ErrDeadlineExceeded
				}
				p.wparked++
				p.cond.Wait()
				p.wparked--
				continue
			}
			if room > len(b) {
				room = len(b)
			}
		}
		if p.failAt >= 0 && p.total+int64(room) > p.failAt {
			room = int(p.failAt - p.total)
			if room == 0 {
				p.werr = errMemWriteFail
				return n, p.werr
			}
		}
		p.buf = append(p.buf, b[:room]...)
		p.total += int64(room)
		n += room
		b = b[room:]
		p.cond.Broadcast()
	}
	return n, nil
}

func (p *memPipe) read(b []byte) (int, error) {
	p.mu.Lock()
	defer p.mu.Unlock()
	for {
		if p.rclosed {
			return 0, errMemClosed
		}
		if len(p.buf) > 0 && !p.hold {
			n := copy(b, p.buf)
			p.buf = p.buf[n:]
			p.readN += int64(n)
			p.cond.Broadcast()
			return n, nil
		}
		if p.wclosed && len(p.buf) == 0 {
			return 0, io.EOF
		}
		p.parked++
		p.cond.Wait()
		p.parked--
	}
}

func (p *memPipe) setWriteDeadline(t time.Time) {
	p.mu.Lock()
	p.wdl = t
	if p.wdlT != nil {
		p.wdlT.Stop()
		p.wdlT = nil
	}
	if !t.IsZero() {
		d := time.Until(t)
		if d < 0 {
			d = 0
		}
		p.wdlT = time.AfterFunc(d, func() {
			p.mu.Lock()
			p.cond.Broadcast()
			p.mu.Unlock()
		})
	}
	p.cond.Broadcast()
	p.mu.Unlock()
}

func (p *memPipe) closeWrite() {
	p.mu.Lock()
	p.wclosed = true
	p.cond.Broadcast()
	p.mu.Unlock()
}

func (p *memPipe) closeRead() {
	p.mu.Lock()
	p.rclosed = true
	p.cond.Broadcast()
	p.mu.Unlock()
}

// idle reports whether the buffer is empty and a reader is parked on it.
func (p *memPipe) idle() bool {
	p.mu.Lock()
	defer p.mu.Unlock()
	return len(p.buf) == 0 && p.parked > 0
}

func (p *memPipe) empty() bool {
	p.mu.Lock()
	defer p.mu.Unlock()
	return len(p.buf) == 0
}

func (p *memPipe) stats() (total, read int64, buffered, parked, wparked int) {
	p.mu.Lock()
	defer p.mu.Unlock()
	return p.total, p.readN, len(p.buf), p.parked, p.wparked
}

func (p *memPipe) setHold(h bool) {
	p.mu.Lock()
	p.hold = h
	p.cond.Broadcast()
	p.mu.Unlock()
}

func (p *memPipe) setCap(n int) {
	p.mu.Lock()
	p.capN = n
	p.cond.Broadcast()
	p.mu.Unlock()
}

func (p *memPipe) setFailAt(n int64) {
	p.mu.Lock()
	p.failAt = n
	p.cond.Broadcast()
	p.mu.Unlock()
}

// memEnd is one end of the connection; it implements net.Conn.
type memEnd struct {
	r, w *memPipe
	name string
	once sync.Once
}

type memAddr string

func (a memAddr) Network() string { return "mem" }
func (a memAddr) String() string  { return string(a) }

func (e *memEnd) Read(b []byte) (int, error)  { return e.r.read(b) }
func (e *memEnd) Write(b []byte) (int, error) { return e.w.write(b) }
func (e *memEnd) Close() error {
	e.once.Do(func() {
		e.w.closeWrite()
		e.r.closeRead()
	})
	return nil
}
func (e *memEnd) LocalAddr() net.Addr                { return memAddr(e.name) }
func (e *memEnd) RemoteAddr() net.Addr               { return memAddr(e.name + "-peer") }
func (e *memEnd) SetDeadline(t time.Time) error      { e.w.setWriteDeadline(t); return nil }
func (e *memEnd) SetReadDeadline(t time.Time) error  { return nil }
func (e *memEnd) SetWriteDeadline(t time.Time) error { e.w.setWriteDeadline(t); return nil }

// newMemConn returns the two ends: a is the endpoint under test, b the scripted peer.
// c2s carries bytes from b to a, s2c from a to b.
func newMemConn() (a, b *memEnd, toA, toB *memPipe) {
	toA = newMemPipe()
	toB = newMemPipe()
	a = &memEnd{r: toA, w: toB, name: "sut"}
	b = &memEnd{r: toB, w: toA, name: "peer"}
	return
}
