package main

// C03 / C04: HPACK decoder and encoder of dgrr/http2 bound to spec/HpackTrace.tla.
//
//   h2v hpackdec --mode ex|lim|sweep|rand|bytes2|bytes2p|bytes3|mut|file   (C03)
//   h2v hpackenc --mode ex|bound|rand|file                                  (C04)
//
// The harness only GENERATES inputs, drives the real code and RECORDS what it
// did (plus golang.org/x/net's answer for the oracle self-check).  It decides
// nothing: every line is judged by HpackTrace.tla.
//
// One ndjson line per trace (= one connection history):
//   {"t":n,"k":"dec","fam":..,"lim":4096,"blocks":[{"in":[..],
//        "srv":{"got":[[name,value,sens]..],"err":b,"tab":[[name,value]..],"max":m},   via VerifNextField
//        "same":b, "nxt":{...} (only when same=false: differs from srv),              via public Next
//        "x":{"got":[..],"err":b}}]}                                                 x/net Decoder
//   {"t":n,"k":"enc","fam":..,"nocomp":b,"nodyn":b,"ops":[{"op":"setmax","n":64} |
//        {"op":"block","fields":[[name,value,sens,store]..],"out":[..],"tab":[..],"max":m,"x":{"got":[..],"err":b}}]}

import (
	"flag"
	"fmt"
	"hash/fnv"
	"math/rand"
	"reflect"
	"strings"

	"github.com/dgrr/http2"
	"golang.org/x/net/http2/hpack"
)

func init() {
	cmds["hpackdec"] = cmdHpackDec
	cmds["hpackenc"] = cmdHpackEnc
}

// ------------------------------------------------------------------ reference serializer

const (
	hpIndexed = iota
	hpLitInc
	hpLitNoIdx
	hpLitNever
	hpSizeUpd
)

// hpIns is one RFC 7541 section 6 representation.
type hpIns struct {
	Kind        int
	Index       uint64 // indexed: index; literal: name index (0 = literal name); size update: size
	Name, Value string
	HN, HV      bool
	Pad         int // >0: non-canonical integer, that many extra continuation octets (index only)
}

func hpAppendInt(dst []byte, n uint, flags byte, v uint64, pad int) []byte {
	max := uint64(1)<<n - 1
	if v < max {
		return append(dst, flags|byte(v))
	}
	dst = append(dst, flags|byte(max))
	v -= max
	for v >= 128 {
		dst = append(dst, byte(v%128)|128)
		v /= 128
	}
	if pad <= 0 {
		return append(dst, byte(v))
	}
	dst = append(dst, byte(v)|128)
	for i := 1; i < pad; i++ {
		dst = append(dst, 0x80)
	}
	return append(dst, 0)
}

func hpAppendStr(dst []byte, s string, huff bool) []byte {
	if !huff {
		dst = hpAppendInt(dst, 7, 0, uint64(len(s)), 0)
		return append(dst, s...)
	}
	e := hpack.AppendHuffmanString(nil, s)
	dst = hpAppendInt(dst, 7, 0x80, uint64(len(e)), 0)
	return append(dst, e...)
}

func (in hpIns) append(dst []byte) []byte {
	lit := func(n uint, flags byte) []byte {
		dst = hpAppendInt(dst, n, flags, in.Index, in.Pad)
		if in.Index == 0 {
			dst = hpAppendStr(dst, in.Name, in.HN)
		}
		return hpAppendStr(dst, in.Value, in.HV)
	}
	switch in.Kind {
	case hpIndexed:
		return hpAppendInt(dst, 7, 0x80, in.Index, in.Pad)
	case hpLitInc:
		return lit(6, 0x40)
	case hpLitNoIdx:
		return lit(4, 0x00)
	case hpLitNever:
		return lit(4, 0x10)
	default:
		return hpAppendInt(dst, 5, 0x20, in.Index, in.Pad)
	}
}

func hpBlockBytes(ins []hpIns) []byte {
	b := []byte{}
	for _, i := range ins {
		b = i.append(b)
	}
	return b
}

// hpCollides reports the first-octet collision: the value string literal starts
// with the same octet as the representation.
func hpCollides(in hpIns) bool {
	if in.Kind == hpIndexed || in.Kind == hpSizeUpd {
		return false
	}
	full := in.append(nil)
	val := hpAppendStr(nil, in.Value, in.HV)
	return val[0] == full[0]
}

// ------------------------------------------------------------------ reference table (generation only)

var hpStatic = [][2]string{{":authority", ""}, {":method", "GET"}, {":method", "POST"}, {":path", "/"}, {":path", "/index.html"},
	{":scheme", "http"}, {":scheme", "https"}, {":status", "200"}, {":status", "204"}, {":status", "206"}, {":status", "304"},
	{":status", "400"}, {":status", "404"}, {":status", "500"}, {"accept-charset", ""}, {"accept-encoding", "gzip, deflate"},
	{"accept-language", ""}, {"accept-ranges", ""}, {"accept", ""}, {"access-control-allow-origin", ""}, {"age", ""}, {"allow", ""},
	{"authorization", ""}, {"cache-control", ""}, {"content-disposition", ""}, {"content-encoding", ""}, {"content-language", ""},
	{"content-length", ""}, {"content-location", ""}, {"content-range", ""}, {"content-type", ""}, {"cookie", ""}, {"date", ""},
	{"etag", ""}, {"expect", ""}, {"expires", ""}, {"from", ""}, {"host", ""}, {"if-match", ""}, {"if-modified-since", ""},
	{"if-none-match", ""}, {"if-range", ""}, {"if-unmodified-since", ""}, {"last-modified", ""}, {"link", ""}, {"location", ""},
	{"max-forwards", ""}, {"proxy-authenticate", ""}, {"proxy-authorization", ""}, {"range", ""}, {"referer", ""}, {"refresh", ""},
	{"retry-after", ""}, {"server", ""}, {"set-cookie", ""}, {"strict-transport-security", ""}, {"transfer-encoding", ""},
	{"user-agent", ""}, {"vary", ""}, {"via", ""}, {"www-authenticate", ""}}

// hpRef is the generator's own view of the decoding context, used to pick
// valid indices and to know what a generated block is expected to decode to.
// It is cross-checked against x/net for every block it declares valid.
type hpRef struct {
	ents             [][2]string // newest first
	size, max, limit int
}

func hpNewRef(limit int) *hpRef { return &hpRef{max: limit, limit: limit} }

func (r *hpRef) evict() {
	for r.size > r.max && len(r.ents) > 0 {
		l := r.ents[len(r.ents)-1]
		r.size -= len(l[0]) + len(l[1]) + 32
		r.ents = r.ents[:len(r.ents)-1]
	}
}

func (r *hpRef) add(n, v string) {
	r.ents = append([][2]string{{n, v}}, r.ents...)
	r.size += len(n) + len(v) + 32
	r.evict()
}

func (r *hpRef) at(i uint64) (string, string, bool) {
	if i >= 1 && i <= 61 {
		return hpStatic[i-1][0], hpStatic[i-1][1], true
	}
	if i >= 62 && int(i-62) < len(r.ents) {
		return r.ents[i-62][0], r.ents[i-62][1], true
	}
	return "", "", false
}

type hpField struct {
	N, V     string
	S, Store bool
}

// apply returns (field or nil, valid).  canUpd: no field representation yet in this block.
func (r *hpRef) apply(in hpIns, canUpd bool) (*hpField, bool) {
	if in.Pad >= 9 {
		return nil, false
	}
	switch in.Kind {
	case hpIndexed:
		n, v, ok := r.at(in.Index)
		if !ok {
			return nil, false
		}
		return &hpField{N: n, V: v}, true
	case hpSizeUpd:
		if !canUpd || in.Index > uint64(r.limit) {
			return nil, false
		}
		r.max = int(in.Index)
		r.evict()
		return nil, true
	}
	name := in.Name
	if in.Index != 0 {
		n, _, ok := r.at(in.Index)
		if !ok {
			return nil, false
		}
		name = n
	}
	if in.Kind == hpLitInc {
		r.add(name, in.Value)
	}
	return &hpField{N: name, V: in.Value, S: in.Kind == hpLitNever}, true
}

// applyBlock: expected fields and validity of a whole block (state advanced up to the first error).
func (r *hpRef) applyBlock(ins []hpIns) ([]hpField, bool) {
	var out []hpField
	can := true
	for _, in := range ins {
		f, ok := r.apply(in, can)
		if !ok {
			return out, false
		}
		if in.Kind != hpSizeUpd {
			can = false
		}
		if f != nil {
			out = append(out, *f)
		}
	}
	return out, true
}

// ------------------------------------------------------------------ recording helpers

func hpTriples(fs []hpField) []any {
	out := make([]any, 0, len(fs))
	for _, f := range fs {
		out = append(out, []any{ints([]byte(f.N)), ints([]byte(f.V)), f.S})
	}
	return out
}

func hpTab(hp *http2.HPACK) []any {
	out := []any{}
	for _, e := range http2.VerifDynTable(hp) {
		out = append(out, []any{ints(e[0]), ints(e[1])})
	}
	return out
}

// hpXDec wraps x/net's decoder for one connection.
type hpXDec struct {
	d   *hpack.Decoder
	got []hpField
}

func hpNewXDec(limit int) *hpXDec {
	x := &hpXDec{}
	x.d = hpack.NewDecoder(uint32(limit), func(f hpack.HeaderField) {
		x.got = append(x.got, hpField{N: f.Name, V: f.Value, S: f.Sensitive})
	})
	return x
}

func (x *hpXDec) block(b []byte) ([]hpField, bool) {
	x.got = nil
	_, err := x.d.Write(b)
	cerr := x.d.Close()
	return x.got, err == nil && cerr == nil
}

// hpNoFieldText is the text of the sentinel http2.ErrNoField that the proposed fix for D11
// introduces (matched by text: the symbol does not exist in an unfixed tree).
const hpNoFieldText = "hpack: header block ended without another field"

// hpRealDec feeds one block to the real decoder the way the callers in the
// library do: one HeaderField per block, call until the bytes are used up.
func hpRealDec(hp *http2.HPACK, b []byte, srv bool) map[string]any {
	hf := http2.AcquireHeaderField()
	defer http2.ReleaseHeaderField(hf)
	var got []hpField
	failed := false
	fields := 0
	for len(b) > 0 {
		var err error
		before := len(b)
		if srv {
			b, err = http2.VerifNextField(hp, hf, true, fields, b)
		} else {
			b, err = hp.Next(hf, b)
		}
		if err != nil && err.Error() == hpNoFieldText {
			break // proposed fix for D11: "the block is over, hf holds no new field" - not a failure
		}
		if err != nil {
			failed = true
			break
		}
		got = append(got, hpField{N: string(hf.KeyBytes()), V: string(hf.ValueBytes()), S: hf.IsSensible()})
		fields++
		if len(b) >= before { // no progress: would spin forever in the server loop
			failed = true
			break
		}
	}
	max, _ := http2.VerifTableLimits(hp)
	return map[string]any{"got": hpTriples(got), "err": failed, "tab": hpTab(hp), "max": int(max)}
}

type hpDecRec struct {
	tw *TraceW
	t  int
	hpStats
}

// hpStats: what a run covered, printed as one JSON line on stdout for the evidence file.
type hpStats struct {
	traces, blocks int
	seen           map[uint64]struct{}
}

func (s *hpStats) note(blocks int, key []byte) {
	s.traces++
	s.blocks += blocks
	if s.seen == nil {
		s.seen = map[uint64]struct{}{}
	}
	h := fnv.New64a()
	h.Write(key)
	s.seen[h.Sum64()] = struct{}{}
}

func (s *hpStats) print() {
	fmt.Printf("{\"traces\":%d,\"blocks\":%d,\"nontrivial\":%d}\n", s.traces, s.blocks, len(s.seen))
}

// run records one C03 trace.  It returns x/net's verdict per block so generators
// can cross-check their own expectations.
// hpRecycled hands out an HPACK object the way a pool does after another connection has used it: that connection had a
// small table limit, inserted an entry, decoded a never-indexed field and went away in the middle of a header block;
// then the object was Reset (what ReleaseHPACK / AcquireHPACK do).  To the specification it is a fresh object - whatever
// Reset forgets shows in the trace that follows.  The HeaderField it used goes back to its pool the same way.
func hpRecycled() *http2.HPACK {
	hp := http2.AcquireHPACK()
	hf := http2.AcquireHeaderField()
	hp.SetMaxTableSize(256)
	b := []byte{0x40, 0x01, 'a', 0x01, 'b', 0x10, 0x01, 's', 0x01, 't', 0x40, 0x01, 'c', 0x01, 'd'}
	for i := 0; i < 2 && len(b) > 0; i++ {
		var err error
		if b, err = hp.Next(hf, b); err != nil {
			break
		}
	}
	http2.ReleaseHeaderField(hf)
	hp.Reset()
	return hp
}

func (rec *hpDecRec) run(fam string, lim int, blocks [][]byte) (xfields [][]hpField, xok []bool) {
	rec.t++
	srv := hpRecycled()
	nxt := hpRecycled()
	defer http2.ReleaseHPACK(srv)
	defer http2.ReleaseHPACK(nxt)
	if lim != 4096 {
		srv.SetMaxTableSize(uint32(lim))
		nxt.SetMaxTableSize(uint32(lim))
	}
	x := hpNewXDec(lim)
	var bl []any
	for _, b := range blocks {
		xf, ok := x.block(b)
		xfields = append(xfields, xf)
		xok = append(xok, ok)
		rs, rn := hpRealDec(srv, b, true), hpRealDec(nxt, b, false)
		m := map[string]any{"in": ints(b), "srv": rs, "same": false,
			"x": map[string]any{"got": hpTriples(xf), "err": !ok}}
		if reflect.DeepEqual(rs, rn) { // the usual case: halves the trace file
			m["same"] = true
		} else {
			m["nxt"] = rn
		}
		bl = append(bl, m)
	}
	rec.tw.Emit(rec.t, map[string]any{"k": "dec", "fam": fam, "lim": lim, "blocks": bl})
	key := []byte{byte(lim), byte(lim >> 8)}
	for _, b := range blocks {
		key = append(append(key, byte(len(b)), byte(len(b)>>8), 0xff), b...)
	}
	rec.note(len(blocks), key)
	return
}

// runIns serializes instruction blocks, predicts them with the reference table and
// checks the prediction against x/net (a disagreement is a harness bug => error).
func (rec *hpDecRec) runIns(fam string, lim int, blocks [][]hpIns) error {
	raw := make([][]byte, len(blocks))
	for i, b := range blocks {
		raw[i] = hpBlockBytes(b)
	}
	xf, xok := rec.run(fam, lim, raw)
	ref := hpNewRef(lim)
	for i, b := range blocks {
		multiUpd := len(b) >= 2 && b[0].Kind == hpSizeUpd && b[1].Kind == hpSizeUpd
		lateUpd, seenField := false, false
		for _, in := range b {
			if in.Kind == hpSizeUpd && seenField {
				lateUpd = true
			}
			if in.Kind != hpSizeUpd {
				seenField = true
			}
		}
		want, ok := ref.applyBlock(b)
		if ok != xok[i] {
			// documented x/net deviations: (a) a second size update at the start of a block is refused
			// when the table is not empty, (b) an update after a field is let through when it is empty.
			if (ok && multiUpd) || (!ok && lateUpd) {
				return nil
			}
			return fmt.Errorf("reference serializer/table disagrees with x/net on validity: fam=%s t=%d block=%d ref=%v x/net=%v bytes=%x", fam, rec.t, i, ok, xok[i], raw[i])
		}
		if !ok {
			return nil // the connection is dead from here on
		}
		if len(want) != len(xf[i]) {
			return fmt.Errorf("reference disagrees with x/net on field count: fam=%s t=%d block=%d bytes=%x", fam, rec.t, i, raw[i])
		}
		for j := range want {
			if want[j] != xf[i][j] {
				return fmt.Errorf("reference disagrees with x/net on field %d: fam=%s t=%d block=%d %+v vs %+v bytes=%x", j, fam, rec.t, i, want[j], xf[i][j], raw[i])
			}
		}
	}
	return nil
}

// ------------------------------------------------------------------ C03 (i): bounded-exhaustive instruction classes

// hpTmpl builds an instruction relative to the current reference table.
type hpTmpl struct {
	name string
	mk   func(r *hpRef) hpIns
}

func hpLitTmpl(kind int, nameVar, valVar string) hpTmpl {
	return hpTmpl{fmt.Sprintf("lit%d-%s-%s", kind, nameVar, valVar), func(r *hpRef) hpIns {
		in := hpIns{Kind: kind}
		switch nameVar {
		case "idx4":
			in.Index = 4
		case "idx32":
			in.Index = 32
		case "dyn":
			in.Index = 62
		case "raw":
			in.Name = "x-k"
		case "huff":
			in.Name, in.HN = "x-hk", true
		}
		switch valVar {
		case "raw1":
			in.Value = "v"
		case "huff":
			in.Value, in.HV = "val", true
		case "empty":
		case "coll":
			c := in.append(nil)[0] // the first octet does not depend on the value
			in.Value = strings.Repeat("a", int(c))
		}
		return in
	}}
}

func hpTemplates() (full, core []hpTmpl) {
	idx := func(name string, f func(r *hpRef) uint64) hpTmpl {
		return hpTmpl{"idx-" + name, func(r *hpRef) hpIns { return hpIns{Kind: hpIndexed, Index: f(r)} }}
	}
	upd := func(name string, f func(r *hpRef) uint64) hpTmpl {
		return hpTmpl{"upd-" + name, func(r *hpRef) hpIns { return hpIns{Kind: hpSizeUpd, Index: f(r)} }}
	}
	k := func(v uint64) func(*hpRef) uint64 { return func(*hpRef) uint64 { return v } }
	iLow, i16, i61, iDyn, i0 := idx("2", k(2)), idx("16", k(16)), idx("61", k(61)), idx("dyn", k(62)), idx("0", k(0))
	iOOR := idx("oor", func(r *hpRef) uint64 { return uint64(62 + len(r.ents)) })
	u0, u64 := upd("0", k(0)), upd("64", k(64))
	uLim := upd("lim", func(r *hpRef) uint64 { return uint64(r.limit) })
	uOver := upd("over", func(r *hpRef) uint64 { return uint64(r.limit + 1) })
	full = []hpTmpl{iLow, i16, i61, iDyn, i0, iOOR, u0, u64, uLim, uOver}
	for _, kind := range []int{hpLitInc, hpLitNoIdx, hpLitNever} {
		for _, nv := range []string{"idx4", "idx32", "dyn", "raw", "huff"} {
			for _, vv := range []string{"coll", "raw1", "huff", "empty"} {
				if kind == hpLitNoIdx && (nv == "raw" || nv == "huff") && vv == "coll" {
					continue // first octet 0x00: the colliding value is the empty one
				}
				full = append(full, hpLitTmpl(kind, nv, vv))
			}
		}
	}
	core = []hpTmpl{iLow, iDyn, i0, iOOR, u0, u64, uOver,
		hpLitTmpl(hpLitInc, "idx4", "coll"), hpLitTmpl(hpLitInc, "idx4", "raw1"), hpLitTmpl(hpLitInc, "raw", "raw1"),
		hpLitTmpl(hpLitInc, "raw", "coll"), hpLitTmpl(hpLitInc, "huff", "huff"),
		hpLitTmpl(hpLitNoIdx, "idx4", "coll"), hpLitTmpl(hpLitNoIdx, "idx4", "raw1"), hpLitTmpl(hpLitNoIdx, "raw", "empty"),
		hpLitTmpl(hpLitNoIdx, "raw", "raw1"),
		hpLitTmpl(hpLitNever, "idx4", "raw1"), hpLitTmpl(hpLitNever, "idx4", "coll"), hpLitTmpl(hpLitNever, "raw", "raw1"),
		hpLitTmpl(hpLitNever, "idx32", "raw1")}
	return
}

// hpSeqs returns all sequences of length <= n over 0..k-1.
func hpSeqs(k, n int) [][]int {
	out := [][]int{{}}
	prev := [][]int{{}}
	for l := 1; l <= n; l++ {
		var cur [][]int
		for _, p := range prev {
			for a := 0; a < k; a++ {
				cur = append(cur, append(append([]int{}, p...), a))
			}
		}
		out = append(out, cur...)
		prev = cur
	}
	return out
}

// hpExhaustive enumerates block1 in seqs<=n1 over a1, block2 in seqs<=n2 over a2.
func (rec *hpDecRec) exhaustive(fam string, lim int, a1 []hpTmpl, n1 int, a2 []hpTmpl, n2 int, part, parts int) error {
	s1, s2 := hpSeqs(len(a1), n1), hpSeqs(len(a2), n2)
	cnt := 0
	for _, q1 := range s1 {
		for _, q2 := range s2 {
			if len(q1) == 0 && len(q2) == 0 {
				continue
			}
			cnt++
			if cnt%parts != part {
				rec.t++ // keep trace ids stable across partitions
				continue
			}
			ref := hpNewRef(lim)
			var blocks [][]hpIns
			mk := func(a []hpTmpl, q []int) {
				var b []hpIns
				can, alive := true, true
				for _, ti := range q {
					in := a[ti].mk(ref)
					b = append(b, in)
					if alive {
						if _, ok := ref.apply(in, can); !ok {
							alive = false
						}
					}
					if in.Kind != hpSizeUpd {
						can = false
					}
				}
				blocks = append(blocks, b)
			}
			mk(a1, q1)
			if len(q2) > 0 {
				mk(a2, q2)
			}
			if err := rec.runIns(fam, lim, blocks); err != nil {
				return err
			}
		}
	}
	return nil
}

// sweep: every first-octet collision class, one trace per (kind, name index).
func (rec *hpDecRec) sweep() error {
	for _, kind := range []int{hpLitInc, hpLitNoIdx, hpLitNever} {
		for idx := 0; idx <= 63; idx++ {
			for _, tail := range []bool{false, true} {
				pre := []hpIns{{Kind: hpLitInc, Name: "p1", Value: "q1"}, {Kind: hpLitInc, Name: "p2", Value: "q2"}}
				in := hpIns{Kind: kind, Index: uint64(idx), Name: "nm"}
				if idx != 0 {
					in.Name = ""
				}
				c := in.append(nil)[0]
				in.Value = strings.Repeat("b", int(c))
				blk := []hpIns{in}
				if tail {
					blk = append(blk, hpIns{Kind: hpIndexed, Index: 2})
				}
				if err := rec.runIns("sweep", 4096, [][]hpIns{pre, blk}); err != nil {
					return err
				}
			}
		}
	}
	return nil
}

// ------------------------------------------------------------------ C03 (ii): seeded random histories

func hpRandStr(r *rand.Rand, n int, binary bool) string {
	b := make([]byte, n)
	for i := range b {
		if binary {
			b[i] = byte(r.Intn(256))
		} else {
			b[i] = "abcdefghijklmnopqrstuvwxyz0123456789-_/=.%; "[r.Intn(44)]
		}
	}
	return string(b)
}

func hpRandLen(r *rand.Rand) int {
	switch p := r.Intn(100); {
	case p < 10:
		return 0
	case p < 65:
		return 1 + r.Intn(30)
	case p < 85:
		return 31 + r.Intn(100)
	case p < 90: // integer boundaries of the 7-bit length prefix
		return []int{126, 127, 128, 129, 254, 255, 256, 300}[r.Intn(8)]
	default:
		return 130 + r.Intn(171)
	}
}

// hpRandHistory: a valid connection history.  clean => avoid the input signatures of the
// already known decoder defects (so that deep states are validated on an unfixed tree too):
// no first-octet collisions, a never-indexed literal only as the last field of a block,
// no block that ends in a size update.
func hpRandHistory(r *rand.Rand, clean, heavy bool) (int, [][]hpIns) {
	lim := []int{4096, 4096, 4096, 256, 64, 0, 1000}[r.Intn(7)]
	if heavy {
		lim = 4096
	}
	ref := hpNewRef(lim)
	nb := 3 + r.Intn(12)
	if heavy {
		nb = 10 + r.Intn(8)
	}
	var blocks [][]hpIns
	names := []string{"x-a", "x-request-id", "k"}
	for bi := 0; bi < nb; bi++ {
		var b []hpIns
		can := true
		push := func(in hpIns) {
			b = append(b, in)
			if _, ok := ref.apply(in, can); !ok {
				panic(fmt.Sprintf("hpRandHistory generated an invalid instruction %+v", in))
			}
			if in.Kind != hpSizeUpd {
				can = false
			}
		}
		if !heavy && r.Intn(6) == 0 {
			pick := func() uint64 {
				switch r.Intn(5) {
				case 0:
					return 0
				case 1:
					return uint64(lim)
				case 2:
					return uint64(r.Intn(lim + 1))
				case 3:
					if lim >= 64 {
						return 64
					}
					return 0
				default:
					return uint64(lim / 2)
				}
			}
			a, c := pick(), pick()
			if r.Intn(3) == 0 && !clean { // minimum then final value (RFC 7541 4.2)
				if a > c {
					a, c = c, a
				}
				push(hpIns{Kind: hpSizeUpd, Index: a})
			}
			push(hpIns{Kind: hpSizeUpd, Index: c})
		}
		nf := 1 + r.Intn(6)
		if heavy {
			nf = 8 + r.Intn(6)
		}
		for fi := 0; fi < nf; fi++ {
			last := fi == nf-1
			total := uint64(61 + len(ref.ents))
			if p := r.Intn(100); p < 25 || (heavy && p < 40 && len(ref.ents) > 70) {
				var i uint64
				switch {
				case len(ref.ents) > 0 && r.Intn(2) == 0:
					i = 62 + uint64(r.Intn(len(ref.ents)))
					if heavy && r.Intn(2) == 0 && total > 130 { // indices past 127: two-octet integer
						i = 127 + uint64(r.Intn(int(total-126)))
					}
				default:
					i = 1 + uint64(r.Intn(61))
				}
				push(hpIns{Kind: hpIndexed, Index: i})
				continue
			}
			in := hpIns{Kind: []int{hpLitInc, hpLitInc, hpLitNoIdx, hpLitNever}[r.Intn(4)], HN: r.Intn(2) == 0, HV: r.Intn(2) == 0}
			if heavy && r.Intn(4) != 0 {
				in.Kind = hpLitInc
			}
			if clean && in.Kind == hpLitNever && !last {
				in.Kind = hpLitNoIdx
			}
			if r.Intn(100) < 45 {
				in.Index = 1 + uint64(r.Intn(int(total)))
				if heavy && total > 80 && r.Intn(2) == 0 {
					in.Index = 63 + uint64(r.Intn(int(total-62))) // multi-octet with 6- and 4-bit prefixes
				}
			} else if r.Intn(3) == 0 {
				in.Name = names[r.Intn(len(names))]
			} else {
				n := 1 + r.Intn(20)
				if r.Intn(20) == 0 {
					n = hpRandLen(r)
					if n == 0 {
						n = 1
					}
				}
				in.Name = hpRandStr(r, n, r.Intn(10) == 0)
				names = append(names, in.Name)
			}
			vl := hpRandLen(r)
			if heavy {
				vl = r.Intn(4)
			}
			in.Value = hpRandStr(r, vl, r.Intn(8) == 0)
			if clean && hpCollides(in) {
				in.HV = true // a Huffman-coded value starts with an octet >= 0x80: never collides
			}
			push(in)
		}
		blocks = append(blocks, b)
	}
	return lim, blocks
}

// ------------------------------------------------------------------ C03 (iii): rejection half

func hpPrefixBlock() []byte {
	return hpBlockBytes([]hpIns{{Kind: hpLitInc, Name: "p1", Value: "q1"}, {Kind: hpLitInc, Index: 4, Value: "/p"}})
}

func hpMutate(r *rand.Rand, b []byte) []byte {
	m := append([]byte(nil), b...)
	cont := func(n int, last byte) []byte {
		o := []byte{}
		for i := 0; i < n; i++ {
			o = append(o, 0x80)
		}
		return append(o, last)
	}
	switch r.Intn(14) {
	case 0:
		if len(m) > 0 {
			m[r.Intn(len(m))] ^= 1 << uint(r.Intn(8))
		}
	case 1:
		if len(m) > 0 {
			m = m[:r.Intn(len(m))]
		}
	case 2:
		p := r.Intn(len(m) + 1)
		m = append(m[:p:p], append([]byte{byte(r.Intn(256))}, m[p:]...)...)
	case 3:
		if len(m) > 0 {
			p := r.Intn(len(m))
			m = append(m[:p:p], m[p+1:]...)
		}
	case 4: // size update after the fields
		m = append(m, []byte{0x20, 0x3f, 0x21}[r.Intn(3)])
		if m[len(m)-1] == 0x3f {
			m = append(m, 0x21)
		}
	case 5: // size update above the limit in front
		m = append([]byte{0x3f, 0xe2, 0x1f}, m...)
	case 6: // index 0 / far out of range
		m = append(m, []byte{0x80, 0xfe, 0xff}[r.Intn(3)])
		if m[len(m)-1] == 0xff {
			m = append(m, 0xff, 0x7f)
		}
	case 7: // integers of ten continuation octets: wrap-around candidates
		pre := []byte{0x0f, 0x1f, 0x7f, 0xff, 0x3f}[r.Intn(5)]
		v := [][]byte{cont(9, 0x02), cont(9, 0x00), append([]byte{0xff, 0xff, 0xff, 0xff, 0xff, 0xff, 0xff, 0xff, 0xff}, 0x01), cont(10, 0x00), cont(8, 0x00), cont(8, 0x7f)}[r.Intn(6)]
		ins := append([]byte{pre}, v...)
		if pre == 0x0f || pre == 0x1f || pre == 0x7f {
			ins = append(ins, 0x01, 'z')
		}
		if r.Intn(2) == 0 {
			m = append(m, ins...)
		} else {
			m = ins
		}
	case 8: // Huffman string with a broken tail
		m = append(m, 0x00, 0x01, 'n', 0x82, 0xff, []byte{0xff, 0x00, 0xfe, 0x1f}[r.Intn(4)])
	case 9: // string longer than the block
		m = append(m, 0x40, 0x01, 'n', byte(2+r.Intn(120)), 'v')
	case 10: // string length integer that overflows
		m = append(m, 0x00, 0x7f, 0xff, 0xff, 0xff, 0xff, 0xff, 0xff, 0xff, 0xff, 0x7f)
	case 11: // two bytes replaced
		for k := 0; k < 2 && len(m) > 0; k++ {
			m[r.Intn(len(m))] = byte(r.Intn(256))
		}
	case 12: // random tail
		for k := 0; k < 1+r.Intn(3); k++ {
			m = append(m, byte(r.Intn(256)))
		}
	default: // duplicate the block (size updates in the middle, repeated inserts)
		m = append(m, b...)
	}
	return m
}

// ------------------------------------------------------------------ hpackdec

func cmdHpackDec(args []string) error {
	fs := flag.NewFlagSet("hpackdec", flag.ExitOnError)
	mode := fs.String("mode", "ex", "ex | exfull | expairs | lim | sweep | rand | bytes2 | bytes2p | bytes3 | varint | mut | file")
	in := fs.String("in", "", "file mode: ndjson trace lines to re-execute")
	out := fs.String("out", "hpackdec", "output prefix")
	seed := fs.Int64("seed", 1, "seed")
	n := fs.Int("n", 200, "number of random cases")
	lo := fs.Int("lo", 0, "bytes3: first byte range lo")
	hi := fs.Int("hi", 255, "bytes3: first byte range hi")
	part := fs.Int("part", 0, "exhaustive modes: partition index")
	parts := fs.Int("parts", 1, "exhaustive modes: number of partitions")
	shards := fs.Int("shards", 1, "output shards (validated by parallel TLC processes)")
	fs.Parse(args)
	tw, err := NewTraceW(*out, *shards)
	if err != nil {
		return err
	}
	rec := &hpDecRec{tw: tw}
	full, core := hpTemplates()
	for _, md := range strings.Split(*mode, ",") {
		if err = hpDecMode(rec, md, full, core, *in, *seed, *n, *lo, *hi, *part, *parts); err != nil {
			return err
		}
	}
	rec.print()
	return tw.Close()
}

func hpDecMode(rec *hpDecRec, md string, full, core []hpTmpl, inFile string, seedV int64, nV, loV, hiV, partV, partsV int) error {
	var err error
	mode, in, seed, n, lo, hi, part, parts := &md, &inFile, &seedV, &nV, &loV, &hiV, &partV, &partsV
	switch *mode {
	case "file":
		rows, err := readNDJSON(*in)
		if err != nil {
			return err
		}
		for _, row := range rows {
			var blocks [][]byte
			bl, _ := row["blocks"].([]any)
			for _, b := range bl {
				bm, _ := b.(map[string]any)
				blocks = append(blocks, bytesOf(bm["in"]))
			}
			lim := 4096
			if f, ok := row["lim"].(float64); ok {
				lim = int(f)
			}
			fam, _ := row["fam"].(string)
			rec.run(fam, lim, blocks)
		}
	case "ex": // block1: <=2 over core, block2: <=1 over full
		err = rec.exhaustive("ex", 4096, core, 2, full, 1, *part, *parts)
	case "exfull": // block1: <=2 over full, block2: <=1 over full
		err = rec.exhaustive("exfull", 4096, full, 2, full, 1, *part, *parts)
	case "expairs": // block1: <=2 over core, block2: <=2 over core
		err = rec.exhaustive("expairs", 4096, core, 2, core, 2, *part, *parts)
	case "lim": // other advertised limits
		for _, lim := range []int{0, 64, 100} {
			if err = rec.exhaustive(fmt.Sprintf("lim%d", lim), lim, core, 2, core, 1, 0, 1); err != nil {
				break
			}
		}
	case "sweep":
		err = rec.sweep()
	case "rand":
		r := rand.New(rand.NewSource(*seed))
		for i := 0; i < *n && err == nil; i++ {
			lim, blocks := hpRandHistory(r, i%2 == 0, i%5 == 4)
			fam := "rand"
			if i%2 == 0 {
				fam = "randclean"
			}
			if i%5 == 4 {
				fam += "-heavy"
			}
			err = rec.runIns(fam, lim, blocks)
		}
	case "bytes2", "bytes2p":
		var pre [][]byte
		if *mode == "bytes2p" {
			pre = [][]byte{hpPrefixBlock()}
		}
		one := func(b []byte) { rec.run(*mode, 4096, append(append([][]byte{}, pre...), b)) }
		one([]byte{})
		for a := 0; a < 256; a++ {
			one([]byte{byte(a)})
		}
		for a := 0; a < 256; a++ {
			for b := 0; b < 256; b++ {
				one([]byte{byte(a), byte(b)})
			}
		}
	case "varint":
		// boundary integers in every integer position of RFC 7541 (index, name index, size update, string length),
		// up to 64 bits: alone, behind a table-filling block, and followed by an ordinary field
		vals := []uint64{0, 1, 14, 15, 16, 30, 31, 32, 61, 62, 63, 64, 126, 127, 128, 255, 256, 4095, 4096, 4097, 16383, 16384, 65535, 65536,
			1<<28 - 1, 1 << 28, 1<<31 - 1, 1 << 31, 1<<32 - 1, 1 << 32, 1<<32 + 1, 1<<32 + 64, 1<<32 + 100, 1<<32 + 4096, 1<<32 + 4097, 1 << 33,
			1<<40 + 7, 1 << 53, 1<<63 - 1, 1 << 63, 1<<64 - 1}
		enc := func(n uint, flags byte, v uint64) []byte {
			max := uint64(1)<<n - 1
			if v < max {
				return []byte{flags | byte(v)}
			}
			out := []byte{flags | byte(max)}
			v -= max
			for v >= 128 {
				out = append(out, byte(v&0x7f)|0x80)
				v >>= 7
			}
			return append(out, byte(v))
		}
		type ipos struct {
			pre  []byte // octets before the integer
			n    uint
			fl   byte
			tail []byte // octets after it that complete the representation when the integer is small
		}
		positions := []ipos{
			{nil, 7, 0x80, nil},                    // indexed field
			{nil, 6, 0x40, []byte{1, 'v'}},         // literal with indexing, name index
			{nil, 4, 0x00, []byte{1, 'v'}},         // literal without indexing, name index
			{nil, 4, 0x10, []byte{1, 'v'}},         // literal never indexed, name index
			{nil, 5, 0x20, nil},                    // dynamic table size update
			{[]byte{0x40}, 7, 0x00, []byte("nv")},  // name length (raw)
			{[]byte{0x40}, 7, 0x80, []byte("nv")},  // name length (Huffman)
			{[]byte{0x40, 1, 'n'}, 7, 0x00, []byte("v")}, // value length
			{[]byte{0x0f, 0x00}, 7, 0x00, []byte("v")},   // value length after a two-octet name index
		}
		for _, p := range positions {
			for _, v := range vals {
				b := append(append(append([]byte{}, p.pre...), enc(p.n, p.fl, v)...), p.tail...)
				rec.run("varint", 4096, [][]byte{b})
				rec.run("varint", 4096, [][]byte{b, {0x82}})
				rec.run("varint", 4096, [][]byte{hpPrefixBlock(), append(append([]byte{}, b...), 0x82)})
				rec.run("varint", 100, [][]byte{b})
			}
		}
	case "bytes3":
		third := []byte{0, 1, 2, 4, 15, 16, 31, 32, 63, 64, 97, 127, 128, 129, 130, 190, 191, 254, 255}
		for a := *lo; a <= *hi; a++ {
			for b := 0; b < 256; b++ {
				for _, c := range third {
					rec.run("bytes3", 4096, [][]byte{{byte(a), byte(b), c}})
				}
			}
		}
	case "mut":
		r := rand.New(rand.NewSource(*seed))
		for i := 0; i < *n; i++ {
			lim, blocks := hpRandHistory(r, true, false)
			k := 1 + r.Intn(3)
			if k > len(blocks) {
				k = len(blocks)
			}
			raw := make([][]byte, k)
			for j := 0; j < k; j++ {
				raw[j] = hpBlockBytes(blocks[j])
			}
			for m := 0; m < 4; m++ {
				mut := append([][]byte{}, raw[:k-1]...)
				mut = append(mut, hpMutate(r, raw[k-1]))
				rec.run("mut", lim, mut)
			}
		}
	default:
		return fmt.Errorf("unknown mode %q", *mode)
	}
	return err
}

// ------------------------------------------------------------------ C04

type hpEncOp struct {
	Op     string // "setmax" | "block"
	N      int
	Fields []hpField
}

type hpEncRec struct {
	tw          *TraceW
	t           int
	part, parts int
	hpStats
}

func (rec *hpEncRec) run(fam string, nocomp, nodyn bool, ops []hpEncOp) {
	rec.t++
	if rec.parts > 1 && rec.t%rec.parts != rec.part {
		return
	}
	hp := hpRecycled()
	defer func() {
		hp.DisableDynamicTable = false
		hp.DisableCompression = false
		http2.ReleaseHPACK(hp)
	}()
	hp.DisableCompression = nocomp
	hp.DisableDynamicTable = nodyn
	x := hpNewXDec(4096)
	var recs []any
	for _, op := range ops {
		if op.Op == "setmax" {
			hp.SetMaxTableSize(uint32(op.N))
			x.d.SetAllowedMaxDynamicTableSize(uint32(op.N))
			recs = append(recs, map[string]any{"op": "setmax", "n": op.N})
			continue
		}
		dst := []byte{}
		var fl []any
		for _, f := range op.Fields {
			hf := http2.AcquireHeaderField()
			hf.SetBytes([]byte(f.N), []byte(f.V))
			if f.S {
				http2.VerifSetSensible(hf, true) // (only when wanted: a recycled field object must come back plain)
			}
			dst = hp.AppendHeader(dst, hf, f.Store)
			http2.ReleaseHeaderField(hf)
			fl = append(fl, []any{ints([]byte(f.N)), ints([]byte(f.V)), f.S, f.Store})
		}
		xf, ok := x.block(dst)
		max, _ := http2.VerifTableLimits(hp)
		recs = append(recs, map[string]any{"op": "block", "fields": fl, "out": ints(dst), "tab": hpTab(hp), "max": int(max),
			"x": map[string]any{"got": hpTriples(xf), "err": !ok}})
	}
	rec.tw.Emit(rec.t, map[string]any{"k": "enc", "fam": fam, "nocomp": nocomp, "nodyn": nodyn, "ops": recs})
	key := []byte(fmt.Sprintf("%v|%v|%v", nocomp, nodyn, ops))
	nblk := 0
	for _, op := range ops {
		if op.Op == "block" {
			nblk++
		}
	}
	rec.note(nblk, key)
}

// hpHuffLenStr returns a string whose Huffman form has exactly L octets.
func hpHuffLenStr(L int, alphabet string, r *rand.Rand) string {
	s := []byte{}
	for {
		c := alphabet[0]
		if r != nil {
			c = alphabet[r.Intn(len(alphabet))]
		}
		if int(hpack.HuffmanEncodeLength(string(append(s, c)))) > L {
			break
		}
		s = append(s, c)
	}
	for int(hpack.HuffmanEncodeLength(string(s))) < L { // cannot happen with 5..8 bit symbols, kept for safety
		s = append(s, alphabet[0])
	}
	return string(s)
}

func hpEncTemplates() (full, core []hpField) {
	base := []hpField{
		{N: ":method", V: "GET"},                  // static full match (2)
		{N: ":path", V: "/x"},                     // static name match (4)
		{N: ":status", V: "200"},                  // static full match (8)
		{N: "accept-charset", V: "u"},             // static name match at 15 = 2^4-1
		{N: "accept-encoding", V: "br"},           // 16
		{N: "cookie", V: "a=b"},                   // 32
		{N: "www-authenticate", V: "x"},           // 61
		{N: "authorization", V: ""},               // 23, empty value = static full match
		{N: "accept-charset", V: ""},              // 15, full match: as a sensitive field the index fills the 4-bit prefix
		{N: "x-new", V: "v"},                      // new name
		{N: "x-new", V: ""},                       // empty value
		{N: "static00", V: "v"},                   // Huffman form of the name ends in 0x00
		{N: "x\x00", V: "v"},                      // raw form ends in NUL
		{N: "x-z", V: "00000000"},                 // value whose Huffman form is all zero octets
		{N: "x-bin", V: "\x00\xff\x00"},           // binary value ending ... (raw ends in 0x00)
		{N: "", V: "v"},                           // empty name: legal HPACK
		{N: "x-long", V: strings.Repeat("q", 40)}, // 78 octets: larger than a 64-octet table
	}
	for _, b := range base {
		for _, store := range []bool{true, false} {
			for _, s := range []bool{false, true} {
				f := b
				f.Store, f.S = store, s
				full = append(full, f)
			}
		}
	}
	pick := func(n, v string, store, s bool) hpField { return hpField{N: n, V: v, Store: store, S: s} }
	core = []hpField{
		pick(":method", "GET", true, false), pick(":path", "/x", true, false), pick(":path", "/x", false, false),
		pick("accept-charset", "u", false, false), pick("cookie", "a=b", true, false), pick("cookie", "a=b", false, true),
		pick("x-new", "v", true, false), pick("x-new", "v", false, false), pick("x-new", "v", true, true),
		pick("x-new", "", true, false), pick("static00", "v", true, false), pick("x-z", "00000000", true, false),
		pick("x-long", strings.Repeat("q", 40), true, false), pick("x-other", "w", true, false),
	}
	return
}

var hpSchedules = [][]int{{}, {0}, {64}, {8192}, {100}, {0, 4096}, {64, 8192}, {8192, 64}, {0, 0}, {4096}}

func hpEncOps(b1 []hpField, sched []int, b2 []hpField) []hpEncOp {
	var ops []hpEncOp
	if len(b1) > 0 {
		ops = append(ops, hpEncOp{Op: "block", Fields: b1})
	}
	for _, n := range sched {
		ops = append(ops, hpEncOp{Op: "setmax", N: n})
	}
	if len(b2) > 0 {
		ops = append(ops, hpEncOp{Op: "block", Fields: b2})
	}
	return ops
}

func hpPickFields(a []hpField, q []int) []hpField {
	var o []hpField
	for _, i := range q {
		o = append(o, a[i])
	}
	return o
}

// hpRandEncHistory: clean => stays away from the input signatures of the known encoder defects.
func hpRandEncHistory(r *rand.Rand, clean, heavy bool) (bool, bool, []hpEncOp) {
	nocomp, nodyn := r.Intn(4) == 0, r.Intn(6) == 0
	if heavy {
		nodyn = false
	}
	var ops []hpEncOp
	nb := 3 + r.Intn(10)
	if heavy {
		nb = 10 + r.Intn(6)
	}
	var sent []hpField
	for bi := 0; bi < nb; bi++ {
		if !heavy && r.Intn(4) == 0 {
			k := 1
			if !clean && r.Intn(3) == 0 {
				k = 2
			}
			for j := 0; j < k; j++ {
				ops = append(ops, hpEncOp{Op: "setmax", N: []int{0, 64, 4096, 8192, 200, 1000}[r.Intn(6)]})
			}
		}
		nf := 1 + r.Intn(6)
		if heavy {
			nf = 8 + r.Intn(6)
		}
		var fl []hpField
		for fi := 0; fi < nf; fi++ {
			var f hpField
			switch p := r.Intn(100); {
			case p < 20 && len(sent) > 0:
				f = sent[r.Intn(len(sent))] // repeat: dynamic or static full match
			case p < 45:
				i := r.Intn(61)
				if clean {
					for i == 14 { // index 15 = 2^4-1 without indexing
						i = r.Intn(61)
					}
				}
				f.N = hpStatic[i][0]
				if r.Intn(4) == 0 {
					f.V = hpStatic[i][1]
				} else {
					f.V = hpRandStr(r, hpRandLen(r), r.Intn(8) == 0)
				}
			default:
				n := 1 + r.Intn(16)
				f.N = hpRandStr(r, n, !clean && r.Intn(10) == 0)
				f.V = hpRandStr(r, hpRandLen(r), r.Intn(8) == 0)
			}
			if heavy && r.Intn(4) != 0 {
				f.N = fmt.Sprintf("h%d", r.Intn(100000))
				f.V = hpRandStr(r, r.Intn(3), false)
			}
			f.Store = r.Intn(3) != 0 || heavy
			f.S = !clean && r.Intn(8) == 0
			if clean {
				// keep the name's string literal from ending in 0x00 and both literals from being exactly 127 octets
				enc := func(s string) []byte {
					if nocomp {
						return []byte(s)
					}
					return hpack.AppendHuffmanString(nil, s)
				}
				for {
					e := enc(f.N)
					if len(e) > 0 && e[len(e)-1] != 0 && len(e) != 127 {
						break
					}
					f.N += "k"
				}
				for len(enc(f.V)) == 127 {
					f.V += "k"
				}
			}
			fl = append(fl, f)
			sent = append(sent, f)
		}
		ops = append(ops, hpEncOp{Op: "block", Fields: fl})
	}
	return nocomp, nodyn, ops
}

func cmdHpackEnc(args []string) error {
	fs := flag.NewFlagSet("hpackenc", flag.ExitOnError)
	mode := fs.String("mode", "ex", "ex | exfull | bound | rand | file")
	in := fs.String("in", "", "file mode: ndjson trace lines to re-execute")
	out := fs.String("out", "hpackenc", "output prefix")
	seed := fs.Int64("seed", 1, "seed")
	n := fs.Int("n", 200, "number of random cases")
	shards := fs.Int("shards", 1, "output shards (validated by parallel TLC processes)")
	part := fs.Int("part", 0, "exhaustive modes: partition index")
	parts := fs.Int("parts", 1, "exhaustive modes: number of partitions")
	fs.Parse(args)
	tw, err := NewTraceW(*out, *shards)
	if err != nil {
		return err
	}
	rec := &hpEncRec{tw: tw, part: *part, parts: *parts}
	for _, md := range strings.Split(*mode, ",") {
		if err = hpEncMode(rec, md, *in, *seed, *n); err != nil {
			return err
		}
	}
	rec.print()
	return tw.Close()
}

func hpEncMode(rec *hpEncRec, md string, inFile string, seedV int64, nV int) error {
	mode, in, seed, n := &md, &inFile, &seedV, &nV
	full, core := hpEncTemplates()
	cfgs := [][2]bool{{false, false}, {true, false}, {false, true}}
	switch *mode {
	case "file":
		rows, err := readNDJSON(*in)
		if err != nil {
			return err
		}
		for _, row := range rows {
			var ops []hpEncOp
			ol, _ := row["ops"].([]any)
			for _, o := range ol {
				om, _ := o.(map[string]any)
				if om["op"] == "setmax" {
					f, _ := om["n"].(float64)
					ops = append(ops, hpEncOp{Op: "setmax", N: int(f)})
					continue
				}
				var fl []hpField
				fa, _ := om["fields"].([]any)
				for _, x := range fa {
					q, _ := x.([]any)
					if len(q) != 4 {
						return fmt.Errorf("bad field in replay file")
					}
					s, _ := q[2].(bool)
					st, _ := q[3].(bool)
					fl = append(fl, hpField{N: string(bytesOf(q[0])), V: string(bytesOf(q[1])), S: s, Store: st})
				}
				ops = append(ops, hpEncOp{Op: "block", Fields: fl})
			}
			nocomp, _ := row["nocomp"].(bool)
			nodyn, _ := row["nodyn"].(bool)
			fam, _ := row["fam"].(string)
			rec.run(fam, nocomp, nodyn, ops)
		}
	case "ex", "exfull":
		a1, a2 := core, core
		scheds := hpSchedules
		if *mode == "exfull" {
			a2 = full
		}
		for ci, cfg := range cfgs {
			for _, q1 := range hpSeqs(len(a1), 2) {
				for si, sched := range scheds {
					if ci > 0 && si > 3 && *mode == "ex" {
						continue
					}
					for _, q2 := range hpSeqs(len(a2), 1) {
						if len(q1) == 0 && len(q2) == 0 {
							continue
						}
						if len(q2) == 0 && len(sched) > 0 {
							continue
						}
						rec.run(*mode, cfg[0], cfg[1], hpEncOps(hpPickFields(a1, q1), sched, hpPickFields(a2, q2)))
					}
				}
			}
		}
		// every template alone and twice in a row (second time: dynamic match), all configurations
		for _, cfg := range cfgs {
			for _, f := range full {
				rec.run(*mode+"-single", cfg[0], cfg[1], hpEncOps([]hpField{f}, nil, nil))
				rec.run(*mode+"-twice", cfg[0], cfg[1], hpEncOps([]hpField{f}, nil, []hpField{f}))
				rec.run(*mode+"-twice64", cfg[0], cfg[1], hpEncOps([]hpField{f, f}, []int{64}, []hpField{f, f}))
			}
		}
	case "bound":
		// string lengths at the prefix-integer boundaries, as name and as value, stored or not
		for _, cfg := range cfgs[:2] {
			for _, L := range []int{0, 1, 126, 127, 128, 129, 254, 255, 256} {
				for _, store := range []bool{true, false} {
					for _, asName := range []bool{false, true} {
						var s string
						if cfg[0] {
							s = strings.Repeat("m", L)
						} else {
							s = hpHuffLenStr(L, "aeiost", nil)
						}
						f := hpField{N: "x-b", V: s, Store: store}
						if asName {
							if L == 0 {
								continue
							}
							f = hpField{N: s, V: "v", Store: store}
						}
						rec.run("bound", cfg[0], cfg[1], hpEncOps([]hpField{f}, nil, []hpField{f, {N: "x-after", V: "w", Store: true}}))
					}
				}
			}
			// table sizes at the 5-bit prefix boundary
			for _, sz := range []int{30, 31, 32, 158, 159, 160} {
				rec.run("bound", cfg[0], cfg[1], hpEncOps([]hpField{{N: "x-a", V: "b", Store: true}}, []int{sz}, []hpField{{N: "x-a", V: "b", Store: true}}))
			}
		}
		// >= 70 stored entries: dynamic indices past 127 (two-octet indexed representation)
		var many []hpField
		for i := 0; i < 100; i++ {
			many = append(many, hpField{N: fmt.Sprintf("n%d", i), V: "v", Store: true})
		}
		rec.run("bound-many", false, false, []hpEncOp{{Op: "block", Fields: many}, {Op: "block", Fields: many}, {Op: "block", Fields: many[:70]}})
		rec.run("bound-many", true, false, []hpEncOp{{Op: "block", Fields: many}, {Op: "block", Fields: many}})
	case "rand":
		r := rand.New(rand.NewSource(*seed))
		for i := 0; i < *n; i++ {
			clean, heavy := i%2 == 0, i%5 == 4
			nocomp, nodyn, ops := hpRandEncHistory(r, clean, heavy)
			fam := "rand"
			if clean {
				fam = "randclean"
			}
			if heavy {
				fam += "-heavy"
			}
			rec.run(fam, nocomp, nodyn, ops)
		}
	default:
		return fmt.Errorf("unknown mode %q", *mode)
	}
	return nil
}
