package main

import (
	"flag"
	"math/rand"

	"github.com/dgrr/http2"
	"golang.org/x/net/http2/hpack"
)

func init() { cmds["huff"] = cmdHuff }

// cmdHuff records input/output pairs of the real HuffmanEncode/HuffmanDecode
// (plus x/net's answers for the oracle self-check).
func cmdHuff(args []string) error {
	fs := flag.NewFlagSet("huff", flag.ExitOnError)
	mode := fs.String("mode", "pairs", "pairs | dec2 | dec3 | rand | file")
	in := fs.String("in", "", "file mode: ndjson with {ev, in} objects to re-execute")
	out := fs.String("out", "huff.ndjson", "output prefix")
	shards := fs.Int("shards", 1, "number of shards")
	seed := fs.Int64("seed", 1, "seed")
	n := fs.Int("n", 1000, "number of random cases")
	lo := fs.Int("lo", 0, "dec3: first byte range lo")
	hi := fs.Int("hi", 255, "dec3: first byte range hi")
	fs.Parse(args)

	tw, err := NewTraceW(*out, *shards)
	if err != nil {
		return err
	}
	t := 0
	enc := func(in []byte) {
		t++
		got := http2.HuffmanEncode(nil, in)
		x := hpack.AppendHuffmanString(nil, string(in))
		tw.Emit(t, map[string]any{"ev": "enc", "in": ints(in), "out": ints(got), "xout": ints(x)})
	}
	dec := func(in []byte) {
		t++
		got, err := http2.HuffmanDecode(nil, in)
		xs, xerr := hpack.HuffmanDecodeToString(in)
		tw.Emit(t, map[string]any{"ev": "dec", "in": ints(in), "ok": err == nil, "out": ints(got),
			"xok": xerr == nil, "xout": ints([]byte(xs))})
	}
	switch *mode {
	case "file":
		rows, err := readNDJSON(*in)
		if err != nil {
			return err
		}
		for _, r := range rows {
			b := bytesOf(r["in"])
			if r["ev"] == "enc" {
				enc(b)
			} else {
				dec(b)
			}
		}
	case "pairs":
		enc(nil)
		for a := 0; a < 256; a++ {
			enc([]byte{byte(a)})
		}
		for a := 0; a < 256; a++ {
			for b := 0; b < 256; b++ {
				enc([]byte{byte(a), byte(b)})
			}
		}
	case "dec2":
		dec(nil)
		for a := 0; a < 256; a++ {
			dec([]byte{byte(a)})
		}
		for a := 0; a < 256; a++ {
			for b := 0; b < 256; b++ {
				dec([]byte{byte(a), byte(b)})
			}
		}
	case "dec3":
		for a := *lo; a <= *hi; a++ {
			for b := 0; b < 256; b++ {
				for c := 0; c < 256; c++ {
					dec([]byte{byte(a), byte(b), byte(c)})
				}
			}
		}
	case "rand":
		r := rand.New(rand.NewSource(*seed))
		// boundary alphabet: shortest codes, longest codes, code-length classes
		bound := []byte{'0', '1', 'a', 'e', ' ', '%', 0, 1, 10, 13, 22, 127, 128, 200, 249, 255, '{', '~', '<', '\\'}
		for i := 0; i < *n; i++ {
			ln := 1 + r.Intn(40)
			if i%10 == 0 {
				ln = 100 + r.Intn(200)
			}
			s := make([]byte, ln)
			for j := range s {
				switch r.Intn(3) {
				case 0:
					s[j] = byte(r.Intn(256))
				case 1:
					s[j] = bound[r.Intn(len(bound))]
				default:
					s[j] = byte(32 + r.Intn(95))
				}
			}
			enc(s)
			// decode the valid encoding and mutations of it
			e := hpack.AppendHuffmanString(nil, string(s))
			dec(e)
			m := append([]byte(nil), e...)
			switch r.Intn(6) {
			case 0: // flip one bit of the last byte (padding / last code)
				m[len(m)-1] ^= 1 << uint(r.Intn(8))
			case 1: // over-long padding
				m = append(m, 0xff)
			case 2: // embedded EOS
				p := r.Intn(len(m) + 1)
				m = append(m[:p:p], append([]byte{0xff, 0xff, 0xff, 0xff}, m[p:]...)...)
			case 3: // truncate
				m = m[:r.Intn(len(m))]
			case 4: // flip a random bit
				m[r.Intn(len(m))] ^= 1 << uint(r.Intn(8))
			default: // append a random byte
				m = append(m, byte(r.Intn(256)))
			}
			dec(m)
			// plain random bytes
			rb := make([]byte, 1+r.Intn(12))
			r.Read(rb)
			dec(rb)
		}
	}
	return tw.Close()
}
