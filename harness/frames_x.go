package main

// The independent reference: golang.org/x/net/http2's Framer reads the same
// bytes.  Its answer is logged next to the answer of the code under test; the
// trace spec uses it only to check ITSELF (spec # x/net => SELFBAD).

import (
	"bytes"
	"io"

	xh2 "golang.org/x/net/http2"
)

// frXRead parses the first frame of in with x/net.  res: ok | toolarge | eof | err.
func frXRead(in []byte, max uint32) map[string]any {
	f := frBlankFields()
	res := "ok"
	func() {
		defer func() {
			if r := recover(); r != nil {
				res = "panic"
			}
		}()
		fr := xh2.NewFramer(io.Discard, bytes.NewReader(in))
		fr.AllowIllegalReads = true
		if max == 0 || max > 1<<24-1 {
			max = 1<<24 - 1
		}
		fr.SetMaxReadFrameSize(max)
		x, err := fr.ReadFrame()
		switch {
		case err == xh2.ErrFrameTooLarge:
			res = "toolarge"
		case err == io.EOF || err == io.ErrUnexpectedEOF:
			// x/net reports a payload shorter than its own fixed section the same
			// way as a short read; tell them apart by the input length
			res = "eof"
			if len(in) >= 9 && len(in) >= 9+(int(in[0])<<16|int(in[1])<<8|int(in[2])) {
				res = "err"
			}
		case err != nil:
			res = "err"
		default:
			f = frFieldsOfX(x)
		}
	}()
	return map[string]any{"res": res, "same": 0, "f": f}
}

func frFieldsOfX(x xh2.Frame) frFields {
	f := frBlankFields()
	h := x.Header()
	f.Ty = int(h.Type)
	f.Fl = int(h.Flags)
	f.Sidh, f.Sidl = frHalves(h.StreamID)
	f.Len = int(h.Length)
	switch b := x.(type) {
	case *xh2.DataFrame:
		f.Es = frB2i(b.StreamEnded())
		f.Padded = frB2i(h.Flags.Has(xh2.FlagDataPadded))
		f.setBody(b.Data())
	case *xh2.HeadersFrame:
		f.Es = frB2i(b.StreamEnded())
		f.Eh = frB2i(b.HeadersEnded())
		f.Padded = frB2i(h.Flags.Has(xh2.FlagHeadersPadded))
		if b.HasPriority() {
			f.Excl = frB2i(b.Priority.Exclusive)
			f.Deph, f.Depl = frHalves(b.Priority.StreamDep)
			f.Wt = int(b.Priority.Weight)
		}
		f.setBody(b.HeaderBlockFragment())
	case *xh2.ContinuationFrame:
		f.Eh = frB2i(b.HeadersEnded())
		f.setBody(b.HeaderBlockFragment())
	case *xh2.PriorityFrame:
		f.Excl = frB2i(b.Exclusive)
		f.Deph, f.Depl = frHalves(b.StreamDep)
		f.Wt = int(b.Weight)
	case *xh2.RSTStreamFrame:
		f.Ch, f.Cl = frHalves(uint32(b.ErrCode))
	case *xh2.SettingsFrame:
		f.Ack = frB2i(b.IsAck())
		// same convention as frSettingsOf: the library defaults overridden by the
		// settings of the frame, last occurrence wins
		vals := []uint32{4096, 0, 100, 65535, 16384, 0}
		for i := 0; i < b.NumSettings(); i++ {
			s := b.Setting(i)
			if s.ID >= 1 && s.ID <= 6 {
				vals[s.ID-1] = s.Val
			}
		}
		for i, v := range vals {
			f.St[2*i], f.St[2*i+1] = frHalves(v)
		}
	case *xh2.PushPromiseFrame:
		f.Ppapi = 1
		f.Psidh, f.Psidl = frHalves(b.PromiseID)
		f.Eh = frB2i(b.HeadersEnded())
		f.Padded = frB2i(h.Flags.Has(xh2.FlagPushPromisePadded))
		f.setBody(b.HeaderBlockFragment())
	case *xh2.PingFrame:
		f.Ack = frB2i(b.IsAck())
		f.setBody(b.Data[:])
	case *xh2.GoAwayFrame:
		f.Psidh, f.Psidl = frHalves(b.LastStreamID)
		f.Ch, f.Cl = frHalves(uint32(b.ErrCode))
		f.setBody(b.DebugData())
	case *xh2.WindowUpdateFrame:
		f.Inch, f.Incl = frHalves(b.Increment)
	case *xh2.UnknownFrame:
		f.setBody(b.Payload())
	}
	return f
}
